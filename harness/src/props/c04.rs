//! C04 — an accepted header never depends on or consumes the bytes that follow it.

use crate::engine::{esc, CaseIo, Fail, Pair, Runner, Stats, Tape, Verdict};
use crate::gen;
use crate::imp;
use crate::oracle::v1::{shape, v1_ref, V1Ref};
use crate::oracle::v2::{v2_ref, V2Ref};
use crate::props::c02::shape2;
use ppp::HeaderResult;

/// One parser, abstracted: parse and, if accepted, the reported header bytes.
fn check_parser<R: PartialEq + std::fmt::Debug>(
    name: &str,
    x: &[u8],
    t: &[u8],
    parse: &dyn Fn(&[u8]) -> Option<Result<R, String>>,
    header_of: &dyn Fn(&R) -> Option<Vec<u8>>,
    expected_len: &dyn Fn(&[u8]) -> Option<usize>,
    sh: &dyn Fn(&[u8]) -> String,
    st: &mut Stats,
) -> Verdict {
    let r = match parse(x) {
        Some(Ok(r)) => r,
        _ => return Ok(()), // not applicable (not UTF-8) or panicked (C03)
    };
    let h = match header_of(&r) {
        Some(h) => h,
        None => return Ok(()), // not accepted: nothing to check for this parser
    };
    st.class(&format!("accepted-by-{}", name));
    let fail = |kind: &str, exp: String, obs: String| Err(Fail::new(format!("{}:{}", kind, name), sh(x), name, exp, obs));
    if !x.starts_with(&h) {
        return fail("header-not-a-prefix", "reported header bytes are a prefix of the input".into(), format!("header {:?}", esc(&h)));
    }
    if let Some(want) = expected_len(x) {
        if h.len() != want {
            return fail("header-length", format!("{} header bytes", want), format!("{} header bytes", h.len()));
        }
    }
    let noise: Vec<u8> = PREVIOUS.with(|p| p.borrow().clone());
    // x ++ t
    let mut xt = x.to_vec();
    xt.extend_from_slice(t);
    let _ = parse(&noise);
    // ... and so is a well-formed line of another connection that ended exactly where a later line break of this buffer
    // lies (a remembered line length or terminator position must not decide where THIS header ends)
    for lb in later_line_breaks(&xt, h.len()) {
        if let Some(l) = line_ending_at(lb) {
            let _ = parse(&l);
        }
    }
    match parse(&xt) {
        Some(Ok(r2)) if r2 == r => {}
        Some(other) => {
            return fail(
                "trailer-changes-result",
                format!("parse(x ++ t) == parse(x) == {}", imp::short(&format!("{:?}", r))),
                imp::short(&format!("{:?}", other)),
            )
        }
        None => {} // x ++ t is not valid UTF-8 for the &str entry point: not in its domain
    }
    // H alone
    match parse(&h) {
        Some(Ok(r3)) if r3 == r => {}
        Some(other) => {
            return fail(
                "header-alone-differs",
                format!("parse(header bytes) == parse(x) == {}", imp::short(&format!("{:?}", r))),
                imp::short(&format!("{:?}", other)),
            )
        }
        None => {}
    }
    // H ++ t
    let mut ht = h.clone();
    ht.extend_from_slice(t);
    let _ = parse(&noise);
    match parse(&ht) {
        Some(Ok(r4)) if r4 == r => {}
        Some(other) => {
            return fail(
                "header-plus-trailer-differs",
                format!("parse(header ++ t) == parse(x) == {}", imp::short(&format!("{:?}", r))),
                imp::short(&format!("{:?}", other)),
            )
        }
        None => {}
    }
    Ok(())
}

/// Offsets (< 106) of CR LF pairs in `buf` at or behind `from`: at most three.
pub fn later_line_breaks(buf: &[u8], from: usize) -> Vec<usize> {
    let mut out = Vec::new();
    let mut i = from;
    while i + 1 < buf.len() && i < 106 && out.len() < 3 {
        if buf[i] == b'\r' && buf[i + 1] == b'\n' {
            out.push(i);
        }
        i += 1;
    }
    out
}

/// A well-formed UNKNOWN line whose CR stands at offset `cr` (13..=105).
pub fn line_ending_at(cr: usize) -> Option<Vec<u8>> {
    if !(13..=105).contains(&cr) {
        return None;
    }
    let mut l = b"PROXY UNKNOWN".to_vec();
    if cr > 13 {
        l.push(b' ');
        while l.len() < cr {
            l.push(b'x');
        }
    }
    l.extend_from_slice(b"\r\n");
    Some(l)
}

fn v1_len(x: &[u8]) -> Option<usize> {
    x.iter().position(|&b| b == b'\r').map(|p| p + 2)
}
fn v2_len(x: &[u8]) -> Option<usize> {
    if x.len() >= 16 {
        Some(16 + (((x[14] as usize) << 8) | x[15] as usize))
    } else {
        None
    }
}

thread_local! {
    /// the previous case's input: parsed again, as an unrelated call, between the two sides of each relation
    static PREVIOUS: std::cell::RefCell<Vec<u8>> = std::cell::RefCell::new(Vec::new());
}

pub fn judge(c: &Pair, st: &mut Stats) -> Verdict {
    // Every single parse below copies its input into this thread's reusable read buffer first (same start address for
    // x, x ++ t, H and H ++ t, like a server's read buffer), and an unrelated input - the previous case's - is parsed
    // in between: the two sides of a relation are never computed back to back on a clean slate.
    let r = judge_at(c, &c.0, &c.1, st);
    PREVIOUS.with(|p| *p.borrow_mut() = c.0.clone());
    r
}

fn judge_at(c: &Pair, x: &Vec<u8>, t: &Vec<u8>, st: &mut Stats) -> Verdict {
    // which parsers accept x at all?
    let a1 = matches!(imp::v1_bytes(x), Ok(Ok(_)));
    let a2 = matches!(imp::v2_parse(x), Ok(Ok(_)));
    // the text routes (try_from(&str) and both FromStr impls) are parsers of their own: one of them may accept what the byte route rejects
    let a3 = std::str::from_utf8(x).ok().map_or(false, |sx| {
        matches!(imp::v1_str(sx), Ok(Ok(_))) || matches!(imp::v1_fromstr_header(sx), Ok(Ok(_))) || matches!(imp::v1_fromstr_addr(sx), Ok(Ok(_)))
    });
    // ... and so is the auto-detecting entry point (it may be lenient where the dedicated parsers are not)
    let a4 = matches!(imp::auto(x), Ok(HeaderResult::V1(Ok(_))) | Ok(HeaderResult::V2(Ok(_))));
    if !a1 && !a2 && !a3 && !a4 {
        // a candidate the reference calls valid but the parser rejects is C01/C02's to report
        if matches!(v1_ref(x), V1Ref::Accept { .. }) || matches!(v2_ref(x), V2Ref::Accept { .. }) {
            st.discard();
        } else {
            st.class("candidate-not-accepted");
        }
        return Ok(());
    }
    st.eval();
    if !t.is_empty() {
        st.nontrivial(c.digest());
    }
    st.sample(if a2 { "v2" } else { "v1" }, || format!("x={:?} t={:?}", esc(&x[..x.len().min(120)]), esc(t)));

    check_parser(
        "v1::try_from(&[u8])",
        x,
        t,
        &|i| crate::engine::in_arena(i, |v| Some(imp::v1_bytes(v).map(|r| r.map(|h| (h.header.as_bytes().to_vec(), h.addresses)).map_err(|e| format!("{:?}", e))))),
        &|r: &Result<(Vec<u8>, ppp::v1::Addresses), String>| r.as_ref().ok().map(|(h, _)| h.clone()),
        &v1_len,
        &|i| shape(i),
        st,
    )?;
    if let Ok(h) = imp::v1_bytes(x).map(|r| r.map(|h| h.header.as_bytes().to_vec())) {
        if let Ok(h) = h {
            if !h.ends_with(b"\r\n") {
                return Err(Fail::new("header-not-ending-in-crlf:v1::try_from(&[u8])", shape(x), "v1::try_from(&[u8])", "header text ends in CRLF", format!("{:?}", esc(&h))));
            }
        }
    }
    check_parser(
        "v1::try_from(&str)",
        x,
        t,
        &|i| {
            let s = std::str::from_utf8(i).ok()?;
            Some(imp::v1_str(s).map(|r| r.map(|h| (h.header.as_bytes().to_vec(), h.addresses)).map_err(|e| format!("{:?}", e))))
        },
        &|r: &Result<(Vec<u8>, ppp::v1::Addresses), String>| r.as_ref().ok().map(|(h, _)| h.clone()),
        &v1_len,
        &|i| shape(i),
        st,
    )?;
    check_parser(
        "str::parse::<v1::Header>",
        x,
        t,
        &|i| {
            let s = std::str::from_utf8(i).ok()?;
            Some(imp::v1_fromstr_header(s).map(|r| r.map(|h| (h.header.as_bytes().to_vec(), h.addresses)).map_err(|e| format!("{:?}", e))))
        },
        &|r: &Result<(Vec<u8>, ppp::v1::Addresses), String>| r.as_ref().ok().map(|(h, _)| h.clone()),
        &v1_len,
        &|i| shape(i),
        st,
    )?;
    // parse::<Addresses> reports no header text: the line through its CRLF (the whole input when there is no CR) stands in for it
    check_parser(
        "str::parse::<v1::Addresses>",
        x,
        t,
        &|i| {
            let s = std::str::from_utf8(i).ok()?;
            Some(imp::v1_fromstr_addr(s).map(|r| r.map(|a| (i[..v1_len(i).unwrap_or(i.len()).min(i.len())].to_vec(), a)).map_err(|e| format!("{:?}", e))))
        },
        &|r: &Result<(Vec<u8>, ppp::v1::Addresses), String>| r.as_ref().ok().map(|(h, _)| h.clone()),
        &|_| None,
        &|i| shape(i),
        st,
    )?;
    check_parser(
        "v2::try_from(&[u8])",
        x,
        t,
        &|i| {
            crate::engine::in_arena(i, |v| {
                Some(imp::v2_parse(v).map(|r| {
                    r.map(|h| (h.as_bytes().to_vec(), h.as_bytes().len(), h.len(), h.command as u8, h.protocol as u8, format!("{:?}", h.addresses)))
                        .map_err(|e| format!("{:?}", e))
                }))
            })
        },
        &|r: &Result<(Vec<u8>, usize, usize, u8, u8, String), String>| r.as_ref().ok().map(|t| t.0.clone()),
        &v2_len,
        &|i| shape2(i),
        st,
    )?;
    // the number a caller removes from its buffer: v2 Header::len() is 16 + the declared length
    if let Ok(Ok(h)) = imp::v2_parse(x) {
        if let Some(want) = v2_len(x) {
            if h.len() != want || h.as_bytes().len() != want {
                return Err(Fail::new("bytes-to-remove:v2::Header::len", shape2(x), "v2::Header::len()", format!("{} (16 + declared length)", want), format!("len() {} as_bytes().len() {}", h.len(), h.as_bytes().len())));
            }
        }
    }
    check_parser(
        "HeaderResult::parse",
        x,
        t,
        &|i| {
            crate::engine::in_arena(i, |v| {
                Some(imp::auto(v).map(|r| match r {
                    HeaderResult::V1(r) => (1u8, r.map(|h| (h.header.as_bytes().to_vec(), format!("{:?}", h.addresses))).map_err(|e| format!("{:?}", e))),
                    HeaderResult::V2(r) => {
                        (2u8, r.map(|h| (h.as_bytes().to_vec(), format!("{:?} {:?} {:?}", h.command, h.protocol, h.addresses))).map_err(|e| format!("{:?}", e)))
                    }
                }))
            })
        },
        &|r: &(u8, Result<(Vec<u8>, String), String>)| r.1.as_ref().ok().map(|t| t.0.clone()),
        &|i| if a2 { v2_len(i) } else { v1_len(i) },
        &|i| if a2 { shape2(i) } else { shape(i) },
        st,
    )?;
    Ok(())
}

fn gen_case(t: &mut Tape) -> Pair {
    let x = match t.weighted(&[5, 4, 3]) {
        0 => gen::gen_valid_line(t, false),
        1 => gen::gen_v2_header(t).bytes,
        _ => gen::gen_any_bytes(t).0,
    };
    let utf8 = t.chance(1, 3);
    let (tr, kind) = gen::gen_trailer(t, utf8);
    let _ = kind;
    Pair(x, tr)
}

pub fn run(r: &mut Runner) -> &'static str {
    r.rule = "inputs: (x, t) with x from the valid-line / valid-v2-header generators and from the union of all byte generators (so inputs the parser accepts wrongly are included), t from the trailer classes \
              (empty, random, application text, a second v1 / v2 header, CR/LF/NUL bytes, bytes that would extend the last field, invalid UTF-8). oracle (metamorphic, conditioned on the parser's own acceptance of x), \
              per entry point P in {v1 bytes, v1 &str, v2, auto}: header H is a prefix of x; P(x++t) == P(x); P(H) == P(x); P(H++t) == P(x); |H| = first CR + 2 and H ends in CRLF (v1) / 16 + be16(x[14..16]) (v2). \
              non-trivial = accepted x with a non-empty trailer; distinct by SipHash of the pair Added later: FromStr routes as parsers of their own, TLV-run and 64 KiB+ trailers, every parse from the reused read buffer with an unrelated parse between the two sides of each relation, v2 len() as the number of bytes to remove."
        .into();
    r.assumptions.push("conditioned on acceptance by the implementation; candidates the reference calls valid but the parser rejects are counted as discarded (C01/C02 report them)".into());
    let n = r.n(300_000, 8_000_000);
    r.random("c04.trailers", n, 260, &gen_case, &judge);

    // exhaustive short trailers after a few fixed headers: every 1-byte trailer, and every 2-byte trailer over a small alphabet
    let work = |shard: usize, _n: usize, st: &mut Stats, _stop: &std::sync::atomic::AtomicBool| -> Option<(Pair, Fail)> {
        if shard != 0 {
            return None;
        }
        let mut v2h = crate::oracle::v2::SIG.to_vec();
        v2h.extend_from_slice(&[0x21, 0x11, 0, 12, 1, 2, 3, 4, 5, 6, 7, 8, 0, 80, 1, 187]);
        let heads: Vec<Vec<u8>> = vec![
            b"PROXY UNKNOWN\r\n".to_vec(),
            b"PROXY UNKNOWN a b\r\n".to_vec(),
            b"PROXY TCP4 1.2.3.4 5.6.7.8 80 443\r\n".to_vec(),
            b"PROXY TCP6 ::1 ::2 1 2\r\n".to_vec(),
            v2h,
        ];
        let alpha = [b'\r', b'\n', b' ', 0u8, b'1', b'.', b':', 0xff, b'P', 0x0c];
        for h in &heads {
            for b in 0..=255u8 {
                let c = Pair(h.clone(), vec![b]);
                if let Err(f) = judge(&c, st) {
                    return Some((c, f));
                }
            }
            for a in alpha {
                for b in alpha {
                    for cc in alpha {
                        let c = Pair(h.clone(), vec![a, b, cc]);
                        if let Err(f) = judge(&c, st) {
                            return Some((c, f));
                        }
                    }
                }
            }
        }
        None
    };
    r.bulk("c04.short-trailers", Some("5 fixed headers x (all 256 one-byte trailers + all 1000 three-byte trailers over a 10-byte alphabet)"), &work, &judge);
    "exploration"
}
