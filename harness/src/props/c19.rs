//! C19 — constructors and socket-address conversions keep every endpoint in its role.

use crate::engine::{fill, CaseIo, Fail, Runner, Stats, Tape, Verdict};
use ppp::{v1, v2};
use serde_json::json;
use std::net::{Ipv4Addr, Ipv6Addr, SocketAddr, SocketAddrV4, SocketAddrV6};

#[derive(Clone, Debug)]
pub struct Case {
    pub a4: [u8; 4],
    pub b4: [u8; 4],
    pub a6: [u16; 8],
    pub b6: [u16; 8],
    pub sp: u16,
    pub dp: u16,
    pub flow: [u32; 2],
    pub scope: [u32; 2],
    pub unix_seed: [u32; 2],
}

impl CaseIo for Case {
    fn to_json(&self) -> serde_json::Value {
        json!({"a4": self.a4, "b4": self.b4, "a6": self.a6, "b6": self.b6, "sp": self.sp, "dp": self.dp, "flow": self.flow, "scope": self.scope, "unix_seed": self.unix_seed})
    }
    fn from_json(v: &serde_json::Value) -> Option<Self> {
        fn arr<const N: usize, T: Copy + Default + TryFrom<u64>>(v: &serde_json::Value) -> Option<[T; N]> {
            let a = v.as_array()?;
            let mut o = [T::default(); N];
            for i in 0..N {
                o[i] = T::try_from(a.get(i)?.as_u64()?).ok()?;
            }
            Some(o)
        }
        Some(Case {
            a4: arr::<4, u8>(v.get("a4")?)?,
            b4: arr::<4, u8>(v.get("b4")?)?,
            a6: arr::<8, u16>(v.get("a6")?)?,
            b6: arr::<8, u16>(v.get("b6")?)?,
            sp: v.get("sp")?.as_u64()? as u16,
            dp: v.get("dp")?.as_u64()? as u16,
            flow: arr::<2, u32>(v.get("flow")?)?,
            scope: arr::<2, u32>(v.get("scope")?)?,
            unix_seed: arr::<2, u32>(v.get("unix_seed")?)?,
        })
    }
}

pub fn judge(c: &Case, st: &mut Stats) -> Verdict {
    st.eval();
    let distinct = c.a4 != c.b4 && c.a6 != c.b6 && c.sp != c.dp && c.unix_seed[0] != c.unix_seed[1];
    if distinct {
        st.nontrivial(c.digest());
        st.class("all-components-distinct");
    }
    st.sample("tuple", || c.to_json().to_string());
    let fail = |what: &str, exp: String, obs: String| Err(Fail::new(what, "", what, exp, obs));
    let (sa4, da4) = (Ipv4Addr::from(c.a4), Ipv4Addr::from(c.b4));
    let (sa6, da6) = (Ipv6Addr::from(c.a6), Ipv6Addr::from(c.b6));
    let (sp, dp) = (c.sp, c.dp);
    let ok4 = |x: &v1::IPv4| x.source_address == sa4 && x.destination_address == da4 && x.source_port == sp && x.destination_port == dp;
    let ok6 = |x: &v1::IPv6| x.source_address == sa6 && x.destination_address == da6 && x.source_port == sp && x.destination_port == dp;
    let want4 = format!("src {}:{} dst {}:{}", sa4, sp, da4, dp);
    let want6 = format!("src [{}]:{} dst [{}]:{}", sa6, sp, da6, dp);

    // IPv4::new with each T: Into<Ipv4Addr>
    for (name, v) in [
        ("IPv4::new(Ipv4Addr)", v1::IPv4::new(sa4, da4, sp, dp)),
        ("IPv4::new([u8;4])", v1::IPv4::new(c.a4, c.b4, sp, dp)),
        ("IPv4::new(u32)", v1::IPv4::new(u32::from_be_bytes(c.a4), u32::from_be_bytes(c.b4), sp, dp)),
        ("v2::IPv4::new(Ipv4Addr)", v2::IPv4::new(sa4, da4, sp, dp)),
    ] {
        if !ok4(&v) {
            return fail(name, want4.clone(), format!("{:?}", v));
        }
    }
    for (name, v) in [
        ("IPv6::new(Ipv6Addr)", v1::IPv6::new(sa6, da6, sp, dp)),
        ("IPv6::new([u16;8])", v1::IPv6::new(c.a6, c.b6, sp, dp)),
        ("IPv6::new([u8;16])", v1::IPv6::new(sa6.octets(), da6.octets(), sp, dp)),
        ("IPv6::new(u128)", v1::IPv6::new(u128::from(sa6), u128::from(da6), sp, dp)),
        ("v2::IPv6::new(Ipv6Addr)", v2::IPv6::new(sa6, da6, sp, dp)),
    ] {
        if !ok6(&v) {
            return fail(name, want6.clone(), format!("{:?}", v));
        }
    }
    // v1::Addresses constructors and From impls
    match v1::Addresses::new_tcp4(sa4, da4, sp, dp) {
        v1::Addresses::Tcp4(x) if ok4(&x) => {}
        o => return fail("v1::Addresses::new_tcp4", want4.clone(), format!("{:?}", o)),
    }
    match v1::Addresses::new_tcp4(c.a4, c.b4, sp, dp) {
        v1::Addresses::Tcp4(x) if ok4(&x) => {}
        o => return fail("v1::Addresses::new_tcp4([u8;4])", want4.clone(), format!("{:?}", o)),
    }
    match v1::Addresses::new_tcp6(sa6, da6, sp, dp) {
        v1::Addresses::Tcp6(x) if ok6(&x) => {}
        o => return fail("v1::Addresses::new_tcp6", want6.clone(), format!("{:?}", o)),
    }
    match v1::Addresses::new_tcp6(c.a6, c.b6, sp, dp) {
        v1::Addresses::Tcp6(x) if ok6(&x) => {}
        o => return fail("v1::Addresses::new_tcp6([u16;8])", want6.clone(), format!("{:?}", o)),
    }
    match v1::Addresses::from(v1::IPv4::new(sa4, da4, sp, dp)) {
        v1::Addresses::Tcp4(x) if ok4(&x) => {}
        o => return fail("v1::Addresses::from(IPv4)", want4.clone(), format!("{:?}", o)),
    }
    match v1::Addresses::from(v1::IPv6::new(sa6, da6, sp, dp)) {
        v1::Addresses::Tcp6(x) if ok6(&x) => {}
        o => return fail("v1::Addresses::from(IPv6)", want6.clone(), format!("{:?}", o)),
    }
    match v2::Addresses::from(v2::IPv4::new(sa4, da4, sp, dp)) {
        v2::Addresses::IPv4(x) if ok4(&x) => {}
        o => return fail("v2::Addresses::from(IPv4)", want4.clone(), format!("{:?}", o)),
    }
    match v2::Addresses::from(v2::IPv6::new(sa6, da6, sp, dp)) {
        v2::Addresses::IPv6(x) if ok6(&x) => {}
        o => return fail("v2::Addresses::from(IPv6)", want6.clone(), format!("{:?}", o)),
    }
    if v1::Addresses::default() != v1::Addresses::Unknown {
        return fail("v1::Addresses::default", "Unknown".into(), "other".into());
    }
    // Unix
    let mut us = [0u8; 108];
    let mut ud = [0u8; 108];
    us.copy_from_slice(&fill(c.unix_seed[0] | 1, 108));
    ud.copy_from_slice(&fill(c.unix_seed[1].wrapping_add(2) | 1, 108));
    if c.unix_seed[0] == c.unix_seed[1] {
        ud = us;
    }
    let u = v2::Unix::new(us, ud);
    if u.source != us || u.destination != ud {
        return fail("v2::Unix::new", "source, destination as given".into(), "swapped or altered".into());
    }
    match v2::Addresses::from(u) {
        v2::Addresses::Unix(x) if x.source == us && x.destination == ud => {}
        _ => return fail("v2::Addresses::from(Unix)", "Unix with the same paths".into(), "other".into()),
    }
    // socket address pairs
    let s4 = SocketAddr::V4(SocketAddrV4::new(sa4, sp));
    let d4 = SocketAddr::V4(SocketAddrV4::new(da4, dp));
    let s6 = SocketAddr::V6(SocketAddrV6::new(sa6, sp, c.flow[0], c.scope[0]));
    let d6 = SocketAddr::V6(SocketAddrV6::new(da6, dp, c.flow[1], c.scope[1]));
    match (v1::Addresses::from((s4, d4)), v2::Addresses::from((s4, d4))) {
        (v1::Addresses::Tcp4(x), v2::Addresses::IPv4(y)) if ok4(&x) && ok4(&y) && x == y => {}
        o => return fail("From<(SocketAddr::V4, SocketAddr::V4)>", want4, format!("{:?}", o)),
    }
    match (v1::Addresses::from((s6, d6)), v2::Addresses::from((s6, d6))) {
        (v1::Addresses::Tcp6(x), v2::Addresses::IPv6(y)) if ok6(&x) && ok6(&y) && x == y => {}
        o => return fail("From<(SocketAddr::V6, SocketAddr::V6)>", want6, format!("{:?}", o)),
    }
    for (a, b) in [(s4, d6), (s6, d4)] {
        match (v1::Addresses::from((a, b)), v2::Addresses::from((a, b))) {
            (v1::Addresses::Unknown, v2::Addresses::Unspecified) => {}
            o => return fail("From<(mixed SocketAddr pair)>", "Unknown / Unspecified".into(), format!("{:?}", o)),
        }
    }
    st.class("socket-pairs");
    Ok(())
}

pub fn gen_case(t: &mut Tape) -> Case {
    let mut c = Case {
        a4: crate::gen::gen_v4(t),
        b4: crate::gen::gen_v4(t),
        a6: crate::gen::gen_v6(t),
        b6: crate::gen::gen_v6(t),
        sp: crate::gen::gen_port(t),
        dp: crate::gen::gen_port(t),
        flow: [t.u32(), t.u32()],
        scope: [t.u32(), t.u32()],
        unix_seed: [t.u32(), t.u32()],
    };
    // pairwise distinct with high probability: swapped roles are invisible otherwise
    if !t.chance(1, 20) {
        if c.a4 == c.b4 {
            c.b4[3] = c.b4[3].wrapping_add(1);
        }
        if c.a6 == c.b6 {
            c.b6[7] = c.b6[7].wrapping_add(1);
        }
        if c.sp == c.dp {
            c.dp = c.dp.wrapping_add(1);
        }
        if c.unix_seed[0] == c.unix_seed[1] {
            c.unix_seed[1] = c.unix_seed[1].wrapping_add(1);
        }
    }
    c
}

pub fn run(r: &mut Runner) -> &'static str {
    r.rule = "inputs: tuples (source address, destination address, source port, destination port) for IPv4 and IPv6, two Unix paths, flow-info / scope ids, with pairwise distinct components (so a transposition is visible). \
              oracle: after IPv4::new (T = Ipv4Addr, [u8;4], u32), IPv6::new (Ipv6Addr, [u16;8], [u8;16], u128), v1 new_tcp4 / new_tcp6, Unix::new, every From<IPv4|IPv6|Unix> and From<(SocketAddr, SocketAddr)> for v1 and v2 \
              (V4/V4, V6/V6 with any flow / scope, mixed both ways), each public field equals the like-named argument; mixed pairs give Unknown / Unspecified; v1 and v2 conversions agree. non-trivial = all components pairwise distinct; distinct by SipHash"
        .into();
    let n = r.n(300_000, 5_000_000);
    r.random("c19.constructors", n, 64, &gen_case, &judge);
    "exploration"
}
