//! C12 — a single malformed element is rejected terminally and blamed on the right field.

use crate::engine::{esc, fill, hex, CaseIo, Fail, Runner, Stats, Tape, Verdict};
use crate::gen;
use crate::imp;
use crate::oracle::v1::{shape, v1_ref, V1Ref};
use crate::oracle::v2::{v2_ref, V2Ref, NEED, SIG};
use crate::props::c02::shape2;
use ppp::v1::{BinaryParseError as B1, ParseError as P1};
use ppp::v2::ParseError as P2;
use ppp::PartialResult;
use serde_json::json;
use std::sync::atomic::{AtomicBool, Ordering};

#[derive(Clone, Debug)]
pub struct Case {
    pub input: Vec<u8>,
    /// which single element was corrupted
    pub element: String,
    /// the well-formed header the input was derived from, when the generator kept it: it is parsed first (a receiver
    /// usually sees good headers before a bad one)
    pub base: Option<Vec<u8>>,
}

impl CaseIo for Case {
    fn to_json(&self) -> serde_json::Value {
        json!({"input_hex": hex(&self.input), "input_esc": esc(&self.input), "element": self.element, "base_hex": self.base.as_ref().map(|b| hex(b))})
    }
    fn from_json(v: &serde_json::Value) -> Option<Self> {
        Some(Case {
            input: crate::engine::unhex(v.get("input_hex")?.as_str()?)?,
            element: v.get("element")?.as_str()?.to_string(),
            base: v.get("base_hex").and_then(|b| b.as_str()).and_then(crate::engine::unhex),
        })
    }
    fn digest(&self) -> u64 {
        crate::engine::hash_bytes(&self.input)
    }
}

const V1_ELEMENTS: &[&str] = &["keyword", "protocol", "source-address", "destination-address", "source-port", "destination-port", "after-cr", "length", "utf8", "protocol-of-other-family"];

/// Does the kind of this v1 error name the element?
fn v1_kind_ok(element: &str, e: &P1) -> bool {
    match element {
        "keyword" => matches!(e, P1::InvalidPrefix),
        "protocol" => matches!(e, P1::InvalidProtocol),
        // the protocol keyword replaced by the other family's (valid as a word, invalid for this line): the error names the
        // replaced element or the first field that no longer fits it
        "protocol-of-other-family" => matches!(e, P1::InvalidProtocol | P1::InvalidSourceAddress(_)),
        "source-address" => matches!(e, P1::InvalidSourceAddress(_)),
        "destination-address" => matches!(e, P1::InvalidDestinationAddress(_)),
        "source-port" => matches!(e, P1::InvalidSourcePort(_)),
        "destination-port" => matches!(e, P1::InvalidDestinationPort(_)),
        "after-cr" => matches!(e, P1::InvalidSuffix),
        "length" => matches!(e, P1::HeaderTooLong),
        _ => false,
    }
}

fn v1_expected(element: &str) -> &'static str {
    match element {
        "keyword" => "InvalidPrefix",
        "protocol" => "InvalidProtocol",
        "protocol-of-other-family" => "InvalidProtocol or InvalidSourceAddress(_)",
        "source-address" => "InvalidSourceAddress(_)",
        "destination-address" => "InvalidDestinationAddress(_)",
        "source-port" => "InvalidSourcePort(_)",
        "destination-port" => "InvalidDestinationPort(_)",
        "after-cr" => "InvalidSuffix",
        "length" => "HeaderTooLong",
        "utf8" => "InvalidUtf8(_)",
        _ => "?",
    }
}

pub fn judge_v1(c: &Case, st: &mut Stats) -> Verdict {
    let x = &c.input;
    // soundness guard: the reference must agree that exactly this element is what is wrong
    let reason = match v1_ref(x) {
        V1Ref::Reject(r) => r,
        V1Ref::Accept { .. } => {
            st.discard();
            return Ok(());
        }
    };
    let consistent = match c.element.as_str() {
        "keyword" | "protocol" => reason == "keyword-or-protocol",
        "protocol-of-other-family" => reason == "source-address",
        "source-address" | "destination-address" | "source-port" | "destination-port" => reason == c.element,
        "after-cr" => reason == "cr-not-followed-by-lf",
        "length" => reason == "too-long",
        "utf8" => reason == "invalid-utf8",
        _ => false,
    };
    if !consistent {
        st.discard();
        return Ok(());
    }
    st.eval();
    st.nontrivial(c.digest());
    let cls = format!("v1-{}", c.element);
    st.class(&cls);
    st.sample(&cls, || esc(x));
    // a good header first, through every route (memoised results or a remembered version must not leak into the verdict
    // on the corrupted one)
    if let Some(b) = &c.base {
        let _ = imp::v1_bytes(b);
        let _ = imp::auto(b);
        if let Ok(sb) = std::str::from_utf8(b) {
            let _ = imp::v1_str(sb);
            let _ = imp::v1_fromstr_addr(sb);
        }
    }
    let want = v1_expected(&c.element);
    let fail = |entry: &str, obs: String| {
        Err(Fail::new(
            format!("wrong-blame:{}:{}", c.element, entry),
            shape(x),
            entry,
            format!("a terminal error of kind {} (the corrupted element is the {})", want, c.element),
            obs,
        ))
    };
    // bytes
    if let Ok(r) = imp::v1_bytes(x) {
        let ok = match &r {
            Err(B1::Parse(e)) => c.element != "utf8" && v1_kind_ok(&c.element, e),
            // a non-ASCII byte right after the CR may legitimately be reported as invalid UTF-8
            Err(B1::InvalidUtf8(_)) => c.element == "utf8" || (c.element == "after-cr" && x.iter().position(|&b| b == b'\r').map_or(false, |p| x[p + 1] >= 0x80)),
            Ok(_) => false,
        };
        if !ok || !r.is_complete() || r.is_incomplete() {
            return fail("v1::try_from(&[u8])", format!("{:?} [incomplete={}]", r, r.is_incomplete()));
        }
    }
    // bytes again, from the reusable read buffer, which a moment ago held another connection's unfinished text: CR-free and
    // longer than this input's line (a search position remembered per buffer must not survive the buffer's reuse)
    if x.len() <= 4096 {
        let cr = x.iter().position(|&b| b == b'\r').unwrap_or(x.len());
        let mut unfinished = b"PROXY TCP4 10.20.30.40 50.60.70.80 1234 ".to_vec();
        while unfinished.len() < (cr + 9).min(106) {
            unfinished.push(b'5');
        }
        unfinished.truncate(106);
        crate::engine::in_arena(&unfinished, |v| {
            let _ = imp::v1_bytes(v);
            let _ = imp::auto(v);
        });
        let verdict: Option<String> = crate::engine::in_arena(x, |v| match imp::v1_bytes(v) {
            Ok(r) => {
                let ok = match &r {
                    Err(B1::Parse(e)) => c.element != "utf8" && v1_kind_ok(&c.element, e),
                    Err(B1::InvalidUtf8(_)) => c.element == "utf8" || (c.element == "after-cr" && cr + 1 < v.len() && v[cr + 1] >= 0x80),
                    Ok(_) => false,
                };
                if !ok || !r.is_complete() || r.is_incomplete() {
                    Some(format!("{:?} [incomplete={}]", r, r.is_incomplete()))
                } else {
                    None
                }
            }
            Err(_) => None,
        });
        if let Some(obs) = verdict {
            return fail("v1::try_from(&[u8]) on a reused buffer", obs);
        }
    }
    // &str (when the input is text)
    if let Ok(s) = std::str::from_utf8(x) {
        if let Ok(r) = imp::v1_str(s) {
            let ok = match &r {
                Err(e) => v1_kind_ok(&c.element, e),
                Ok(_) => false,
            };
            if !ok || !r.is_complete() {
                return fail("v1::try_from(&str)", format!("{:?} [incomplete={}]", r, r.is_incomplete()));
            }
        }
        // the FromStr routes are text entry points too
        if let Ok(r) = imp::v1_fromstr_header(s) {
            let ok = match &r {
                Err(e) => v1_kind_ok(&c.element, e),
                Ok(_) => false,
            };
            if !ok || !r.is_complete() {
                return fail("str::parse::<v1::Header>", format!("{:?} [incomplete={}]", r, r.is_incomplete()));
            }
        }
        if let Ok(r) = imp::v1_fromstr_addr(s) {
            let ok = match &r {
                Err(e) => v1_kind_ok(&c.element, e),
                Ok(_) => false,
            };
            if !ok || r.is_incomplete() {
                return fail("str::parse::<v1::Addresses>", format!("{:?} [incomplete={}]", r, r.is_incomplete()));
            }
        }
    }
    // auto: a complete error; and since the binary parser rules a text line out at its first byte, the text parser's
    // verdict - the error that names the element - is what comes back
    if let Ok(r) = imp::auto(x) {
        let is_ok = matches!(r, ppp::HeaderResult::V1(Ok(_)) | ppp::HeaderResult::V2(Ok(_)));
        if is_ok || !r.is_complete() {
            return fail("HeaderResult::parse", format!("{} [incomplete={}]", imp::short(&format!("{:?}", r)), r.is_incomplete()));
        }
        if x.first() != Some(&0x0D) {
            let named = match &r {
                ppp::HeaderResult::V1(Err(B1::Parse(e))) => c.element != "utf8" && v1_kind_ok(&c.element, e),
                ppp::HeaderResult::V1(Err(B1::InvalidUtf8(_))) => c.element == "utf8" || (c.element == "after-cr" && x.iter().position(|&b| b == b'\r').map_or(false, |p| x[p + 1] >= 0x80)),
                _ => false,
            };
            if !named {
                return fail("HeaderResult::parse", format!("{} (the text parser's error was expected)", imp::short(&format!("{:?}", r))));
            }
        }
    }
    Ok(())
}

fn no_sep(s: &[u8]) -> bool {
    !s.contains(&b' ') && !s.contains(&b'\r')
}

pub fn gen_v1(t: &mut Tape) -> Case {
    // base: a valid TCP line (UNKNOWN for length / utf8 faults)
    let v6 = t.coin();
    let mut p = gen::V1Parts {
        keyword: b"PROXY".to_vec(),
        proto: if v6 { b"TCP6".to_vec() } else { b"TCP4".to_vec() },
        fields: vec![],
        tail: vec![],
        ending: b"\r\n".to_vec(),
    };
    if v6 {
        // canonical spellings keep the line short enough for any replacement
        p.fields = vec![
            gen::spell_v6_canonical(gen::gen_v6(t)).into_bytes(),
            gen::spell_v6_canonical(gen::gen_v6(t)).into_bytes(),
            gen::gen_port(t).to_string().into_bytes(),
            gen::gen_port(t).to_string().into_bytes(),
        ];
    } else {
        p.fields = vec![
            gen::spell_v4(gen::gen_v4(t)).into_bytes(),
            gen::spell_v4(gen::gen_v4(t)).into_bytes(),
            gen::gen_port(t).to_string().into_bytes(),
            gen::gen_port(t).to_string().into_bytes(),
        ];
    }
    let mut element = V1_ELEMENTS[t.below(V1_ELEMENTS.len() as u32) as usize];
    if matches!(element, "source-address" | "destination-address") && v6 && t.coin() {
        // the field that is going to be corrupted is spelled in any legal way, the 45-byte form included; the other one is
        // shortened if the line would not fit
        let i = if element == "source-address" { 0 } else { 1 };
        let g = gen::gen_v6(t);
        p.fields[i] = if t.coin() { gen::spell_v6_long_quad(g, t.chance(1, 4)).into_bytes() } else { gen::spell_v6(g, t).into_bytes() };
        if p.render().len() > 104 {
            p.fields[1 - i] = t.pick(&["::1", "::", "fe80::1", "2001:db8::2"]).as_bytes().to_vec();
        }
    }
    let base_line = p.render();
    // one base in four is an UNKNOWN line (bare, or with ignored text); its corruptible elements are
    // the keyword, the protocol, the byte after the CR, the length and the encoding
    if t.chance(1, 4) {
        p.proto = b"UNKNOWN".to_vec();
        p.fields = vec![];
        if t.coin() {
            let mut txt = gen::gen_unknown_text(t, true, 60);
            txt.retain(|&b| b != b'\r');
            p.tail = vec![b' '];
            p.tail.extend(txt);
        }
        if !matches!(element, "keyword" | "protocol" | "after-cr" | "length" | "utf8") {
            element = *t.pick(&["after-cr", "keyword", "protocol"]);
        }
    }
    if element == "protocol-of-other-family" {
        // both addresses stay valid literals of their own family; only the keyword changes
        p.proto = if v6 { b"TCP4".to_vec() } else { b"TCP6".to_vec() };
    }
    let unknown_base = p.proto == b"UNKNOWN";
    match element {
        "keyword" if t.chance(1, 3) => {
            p.keyword = gen::corrupt_word(t, "PROXY");
        }
        "protocol" if t.chance(1, 2) => {
            let w = String::from_utf8(p.proto.clone()).unwrap_or_default();
            p.proto = gen::corrupt_word(t, &w);
        }
        "keyword" => {
            p.keyword = t.pick(&["proxy", "Proxy", "PROX", "PROXYY", "", "PROXY\0", "XPROXY", "PROXI", "PR0XY", "P", "PROXY\t", "\u{ff30}ROXY", "PROXY\n", "\u{feff}PROXY", "\u{200b}PROXY", "\u{a0}PROXY", "\0PROXY", "PROXY\u{feff}", "P\u{200b}ROXY", "\u{feff}\u{feff}PROXY", "\u{2060}PROXY"]).as_bytes().to_vec();
        }
        "protocol" => {
            p.proto = t
                .pick(&["tcp4", "tcp6", "TCP", "TCP5", "TCP44", "TCP4x", "unknown", "UNKNOW", "UNKNOWNN", "", "UDP4", "T", "U", "Tcp6", "TCP\u{ff14}", "TCP4\0", "\nTCP4", "\u{feff}TCP4", "TCP4\u{200b}", "\u{a0}TCP6", "TCP\u{200b}6", "\u{feff}UNKNOWN"])
                .as_bytes()
                .to_vec();
        }
        "source-address" | "destination-address" => {
            let i = if element == "source-address" { 0 } else { 1 };
            let bad: Vec<&&str> = if v6 { gen::BAD_V6.iter().filter(|s| no_sep(s.as_bytes())).collect() } else { gen::BAD_V4.iter().filter(|s| no_sep(s.as_bytes())).collect() };
            p.fields[i] = if t.chance(2, 5) {
                // a corruption derived from the valid field itself by one small edit (the base spells this field in any of
                // the legal ways, the longest included)
                let valid = String::from_utf8(p.fields[i].clone()).unwrap();
                gen::corrupt_addr_text(t, &valid)
            } else if t.chance(1, 4) {
                // an address of the other family
                if v6 {
                    gen::spell_v4(gen::gen_v4(t)).into_bytes()
                } else {
                    gen::spell_v6_canonical(gen::gen_v6(t)).into_bytes()
                }
            } else {
                bad[t.below(bad.len() as u32) as usize].as_bytes().to_vec()
            };
        }
        "source-port" | "destination-port" => {
            let i = if element == "source-port" { 2 } else { 3 };
            let bad: Vec<&&str> = gen::BAD_PORTS.iter().filter(|s| no_sep(s.as_bytes())).collect();
            p.fields[i] = match t.weighted(&[4, 1, 1, 3]) {
                0 => bad[t.below(bad.len() as u32) as usize].as_bytes().to_vec(),
                3 => {
                    let valid = String::from_utf8(p.fields[i].clone()).unwrap();
                    gen::corrupt_port_text(t, &valid)
                }
                1 => format!("+{}", gen::gen_port(t)).into_bytes(),
                _ => format!("0{}", gen::gen_port(t)).into_bytes(),
            };
        }
        "after-cr" => {
            // one base in three is one of the longest legal lines (100..=107 bytes): the byte after the CR is then the
            // only thing wrong with it, whatever a parser does near the length limit
            let long_base: Option<Vec<u8>> = if t.chance(1, 3) {
                let total = *t.pick(&[107usize, 107, 106, 105, 104, 103, 100]);
                if t.coin() {
                    let mut l = b"PROXY UNKNOWN ".to_vec();
                    while l.len() < total - 2 {
                        l.push(if t.chance(1, 9) { b' ' } else { b'a' + (l.len() % 26) as u8 });
                    }
                    Some(l)
                } else {
                    let l = gen::gen_tcp6_line_of_len(t, total);
                    Some(l[..l.len() - 2].to_vec())
                }
            } else {
                None
            };
            let b = match t.weighted(&[2, 1]) {
                0 => *t.pick(&[b'X', b'\r', 0u8, b' ', b'\t', b'P', 0x0b, 0x0c, b'0']),
                _ => {
                    let v = t.byte();
                    if v == b'\n' {
                        b'N'
                    } else {
                        v
                    }
                }
            };
            p.ending = vec![b'\r', b];
            if t.chance(1, 4) {
                // a complete multi-byte character after the CR: the input stays valid UTF-8, so the &str entry point is judged too
                p.ending = vec![b'\r'];
                p.ending.extend_from_slice(t.pick(&["\u{e9}", "\u{20ac}", "\u{1f600}", "\u{80}"]).as_bytes());
            }
            if t.coin() {
                p.ending.extend_from_slice(b"\n");
            }
            if let Some(mut l) = long_base {
                l.extend_from_slice(&p.ending);
                return Case { input: l, element: element.to_string(), base: None };
            }
        }
        "length" if t.chance(1, 4) => {
            // a TCP6 line whose four fields are all well-formed (long spellings, dotted-quad tails) and whose only fault is its
            // length: 108..=116 bytes
            let total = t.usize_in(108, 116);
            let line = gen::gen_tcp6_line_of_len(t, total);
            return Case { input: line, element: element.to_string(), base: None };
        }
        "length" => {
            let total = t.usize_in(108, 140);
            let mut line = b"PROXY UNKNOWN ".to_vec();
            // one line in three is padded with 2- / 3- / 4-byte characters: more than 107 BYTES, but - for totals up to about
            // 200 bytes - no more than 107 characters
            let multibyte = t.chance(1, 3);
            let total = if multibyte && t.coin() { t.usize_in(108, 220) } else { total };
            while line.len() < total - 2 {
                let left = total - 2 - line.len();
                match t.weighted(&[8, 1, if multibyte { 12 } else { 0 }]) {
                    0 => line.push(b'a' + (line.len() % 26) as u8),
                    1 => line.push(b' '),
                    _ => {
                        let c = *t.pick(&['\u{e9}', '\u{e9}', '\u{20ac}', '\u{1f600}']);
                        if c.len_utf8() <= left {
                            let mut buf = [0u8; 4];
                            line.extend_from_slice(c.encode_utf8(&mut buf).as_bytes());
                        } else {
                            line.push(b'z');
                        }
                    }
                }
            }
            line.extend_from_slice(b"\r\n");
            return Case { input: line, element: element.to_string(), base: None };
        }
        "protocol-of-other-family" => {}
        _ => {
            // invalid UTF-8 inside the line (UNKNOWN text, or inside a field)
            let mut line = if !unknown_base && t.coin() { b"PROXY UNKNOWN some text".to_vec() } else { let l = p.render(); l[..l.len() - 2].to_vec() };
            let at = t.below(line.len() as u32 + 1) as usize;
            let bad: &[u8] = *t.pick(&[&b"\xff"[..], b"\xc3", b"\xe2\x82", b"\xf0\x90\x80", b"\xc0\xaf", b"\xed\xa0\x80", b"\x80"]);
            let tail = line.split_off(at);
            line.extend_from_slice(bad);
            line.extend(tail);
            line.extend_from_slice(b"\r\n");
            return Case { input: line, element: element.to_string(), base: None };
        }
    }
    let mut input = p.render();
    if t.chance(1, 4) {
        input.extend(gen::gen_trailer(t, false).0);
    }
    // the TCP base line is kept for the field faults (the UNKNOWN bases differ from `base_line`)
    let base = if !unknown_base && matches!(element, "source-address" | "destination-address" | "source-port" | "destination-port" | "after-cr" | "keyword" | "protocol" | "protocol-of-other-family") { Some(base_line) } else { None };
    Case { input, element: element.to_string(), base }
}

// ------------------------------------------------------------------------------------------ v2

/// Expected error for a v2 header with exactly one corrupted element, from the statement.
pub fn judge_v2(c: &Case, st: &mut Stats) -> Verdict {
    let x = &c.input;
    st.eval();
    st.nontrivial(c.digest());
    let cls = format!("v2-{}", c.element);
    st.class(&cls);
    st.sample(&cls, || hex(&x[..x.len().min(32)]));
    let want: P2 = match v2_ref(x) {
        V2Ref::Prefix => P2::Prefix,
        V2Ref::Version(v) => P2::Version(v),
        V2Ref::Command(v) => P2::Command(v),
        V2Ref::Family(v) => P2::AddressFamily(v),
        V2Ref::Protocol(v) => P2::Protocol(v),
        V2Ref::InvalidAddresses(a, b) => P2::InvalidAddresses(a, b),
        _ => {
            st.discard();
            return Ok(());
        }
    };
    let label_ok = match (c.element.as_str(), &want) {
        ("signature", P2::Prefix) | ("version", P2::Version(_)) | ("command", P2::Command(_)) | ("family", P2::AddressFamily(_)) | ("transport", P2::Protocol(_)) | ("length", P2::InvalidAddresses(..)) => true,
        _ => false,
    };
    if !label_ok {
        st.discard();
        return Ok(());
    }
    if let Ok(r) = imp::v2_parse(x) {
        let ok = matches!(&r, Err(e) if *e == want) && r.is_complete() && !r.is_incomplete();
        if !ok {
            return Err(Fail::new(
                format!("wrong-blame:{}:v2", c.element),
                shape2(x),
                "v2::Header::try_from(&[u8])",
                format!("terminal Err({:?})", want),
                format!("{} [incomplete={}]", imp::short(&format!("{:?}", r)), r.is_incomplete()),
            ));
        }
    }
    // the same verdict wherever the header lies in memory: at each of the offsets 1..=7 of a read buffer
    for k in 1..8usize {
        let verdict = crate::engine::in_arena_at(k, x, |v| {
            imp::v2_parse(v).ok().map(|r| (matches!(&r, Err(e) if *e == want) && r.is_complete() && !r.is_incomplete(), imp::short(&format!("{:?}", r))))
        });
        if let Some((false, shown)) = verdict {
            return Err(Fail::new(
                format!("wrong-blame:{}:v2-at-offset", c.element),
                shape2(x),
                "v2::Header::try_from(&buf[k..])",
                format!("terminal Err({:?}) at buffer offset {}", want, k),
                shown,
            ));
        }
    }
    if let Ok(r) = imp::auto(x) {
        let is_ok = matches!(r, ppp::HeaderResult::V1(Ok(_)) | ppp::HeaderResult::V2(Ok(_)));
        if is_ok || !r.is_complete() {
            return Err(Fail::new(
                format!("wrong-blame:{}:auto", c.element),
                shape2(x),
                "HeaderResult::parse",
                "a terminal error".to_string(),
                format!("{} [incomplete={}]", imp::short(&format!("{:?}", r)), r.is_incomplete()),
            ));
        }
    }
    Ok(())
}

fn base_v2(fam: u8, seed: u32) -> Vec<u8> {
    let need = NEED[fam as usize];
    let mut h = SIG.to_vec();
    h.extend_from_slice(&[0x21, (fam << 4) | 1]);
    h.extend_from_slice(&((need + 7) as u16).to_be_bytes());
    h.extend(fill(seed | 1, need));
    h.extend_from_slice(&[4, 0, 4, 1, 2, 3, 4]);
    h
}

pub fn judge(c: &Case, st: &mut Stats) -> Verdict {
    if V1_ELEMENTS.contains(&c.element.as_str()) && c.input.first() != Some(&0x0D) {
        judge_v1(c, st)
    } else {
        judge_v2(c, st)
    }
}

pub fn run(r: &mut Runner) -> &'static str {
    r.rule = "inputs: (complete well-formed header) x (one element) x (a replacement invalid for that element, without SP / CR so the field structure stays intact). v1 elements: keyword, protocol, each address, each port, the byte after CR, \
              the 107-byte limit, invalid UTF-8; v2 elements, exhaustive: 12 signature positions x 255 values, every control-byte pair with exactly one invalid nibble, every (family, length < required size). oracle: the error-kind table of the \
              statement (v1: InvalidPrefix / InvalidProtocol / Invalid{Source,Destination}{Address,Port} / InvalidSuffix / HeaderTooLong / InvalidUtf8; v2: Prefix, Version(b&F0), Command(b&0F), AddressFamily(b&F0), Protocol(b&0F), \
              InvalidAddresses(L, need) with exact payloads) and is_complete(); through the auto-detecting parser only 'terminal error'. The reference grammar double-checks that the generated fault is the only thing wrong (else the case is discarded). \
              non-trivial = every (base, element, replacement) triple; distinct by SipHash of the input Added later: UNKNOWN bases, the longest legal lines as bases for the byte after the CR, multi-byte characters after the CR, the FromStr routes."
        .into();
    r.assumptions.push("payloads of the v1 address / port error kinds are not compared; a non-ASCII byte right after the CR may be reported as InvalidUtf8 by the byte entry point".into());
    let n = r.n(250_000, 6_000_000);
    r.random("c12.v1-single-fault", n, 160, &gen_v1, &judge);

    let seed = r.seed as u32;
    let quick = r.quick();
    let work = |shard: usize, nshards: usize, st: &mut Stats, stop: &AtomicBool| -> Option<(Case, Fail)> {
        // signature bytes
        for fam in 0..4u8 {
            let h = base_v2(fam, seed.wrapping_add(fam as u32));
            for pos in 0..12usize {
                for val in 0..=255u8 {
                    if (pos * 256 + val as usize) % nshards != shard || val == SIG[pos] {
                        continue;
                    }
                    let mut x = h.clone();
                    x[pos] = val;
                    let c = Case { input: x, element: "signature".into(), base: None };
                    if let Err(f) = judge_v2(&c, st) {
                        return Some((c, f));
                    }
                }
            }
        }
        // control pairs with exactly one invalid nibble, on a header long enough for any family
        let mut h = SIG.to_vec();
        h.extend_from_slice(&[0, 0, 0, 223]);
        h.extend(fill(seed | 1, 223));
        let mut pair = shard as u32;
        while pair < 65536 {
            if stop.load(Ordering::Relaxed) {
                return None;
            }
            let (b12, b13) = ((pair >> 8) as u8, pair as u8);
            let bad = [(b12 >> 4 != 2), (b12 & 0x0F > 1), (b13 >> 4 > 3), (b13 & 0x0F > 2)];
            if bad.iter().filter(|b| **b).count() == 1 {
                let element = if bad[0] {
                    "version"
                } else if bad[1] {
                    "command"
                } else if bad[2] {
                    "family"
                } else {
                    "transport"
                };
                let mut x = h.clone();
                x[12] = b12;
                x[13] = b13;
                for cut in [x.len(), 16] {
                    let c = Case { input: x[..cut].to_vec(), element: element.into(), base: None };
                    if let Err(f) = judge_v2(&c, st) {
                        return Some((c, f));
                    }
                }
            }
            pair += nshards as u32;
        }
        // every too-small length for every family, both commands, all transports
        for fam in 1..4u8 {
            let need = NEED[fam as usize];
            for l in 0..need {
                if l % nshards != shard {
                    continue;
                }
                for vc in [0x20u8, 0x21] {
                    for proto in 0..3u8 {
                        if quick && (vc == 0x20 || proto == 0) && l % 5 != 0 {
                            continue;
                        }
                        for present in [l, need, 0] {
                            let mut x = SIG.to_vec();
                            x.extend_from_slice(&[vc, (fam << 4) | proto]);
                            x.extend_from_slice(&(l as u16).to_be_bytes());
                            x.extend(fill(seed.wrapping_add(l as u32) | 1, present));
                            let c = Case { input: x, element: "length".into(), base: None };
                            if let Err(f) = judge_v2(&c, st) {
                                return Some((c, f));
                            }
                        }
                    }
                }
            }
        }
        None
    };
    r.bulk(
        "c12.v2-single-fault",
        Some("12 signature positions x 255 wrong values x 4 families; all 65536 control pairs with exactly one invalid nibble x 2 truncations; every (family, length < required) x commands x transports x 3 payload sizes"),
        &work,
        &judge,
    );
    "fault_enumeration"
}
