pub mod enc;
pub mod tlv;
pub mod v1;
pub mod v2;
