#!/bin/sh
# fuzz/run_fuzz.sh <ID> : thorough-tier stage. Coverage-guided campaign (libFuzzer via cargo-fuzz, ASan,
# overflow checks, debug assertions) for one property, with the harness's oracle inside the target.
# exit 0: nothing found; exit 1: VIOLATION (re-judged by the non-sanitised harness); exit 2: inconclusive.
set -u
DIR=$(cd "$(dirname "$0")" && pwd)
VERIF=$(dirname "$DIR")
ID="$1"
SEED="${VERIF_SEED:-1}"
JOBS="${VERIF_FUZZ_JOBS:-8}"
case "$ID" in
  C01|C06|C15|C16) T=fz_bytes; DICT=v1.dict; MAXLEN=300 ;;
  C02|C13|C14|C17) T=fz_bytes; DICT=v2.dict; MAXLEN=600 ;;
  C03) T=fz_bytes; DICT=all.dict; MAXLEN=600 ;;
  C11) T=fz_bytes; DICT=v2.dict; MAXLEN=2000 ;;
  C04|C05|C18) T=fz_pair; DICT=all.dict; MAXLEN=400 ;;
  C07|C08|C09|C10|C12|C19|C20) T=fz_tape; DICT=""; MAXLEN=1040 ;;
  *) echo "no fuzz target for $ID" >&2; exit 0 ;;
esac
# executions per worker: the structured (tape) target builds histories with values up to 140 KB under ASan and is ~100x slower
case "$T" in fz_tape) DEF_RUNS=250000 ;; *) DEF_RUNS=6000000 ;; esac
RUNS="${VERIF_FUZZ_RUNS:-$DEF_RUNS}"
# ... and by wall time: a corpus that drifts towards very large histories (tens of milliseconds per execution under ASan) must
# not turn one campaign into hours. Whichever bound is reached first ends the campaign; neither is a verdict.
SECS="${VERIF_FUZZ_SECS:-420}"
export CARGO_NET_OFFLINE=true
cd "$VERIF/harness" || exit 2
if ! cargo +nightly fuzz build --fuzz-dir "$DIR" "$T" >"$DIR/build.log" 2>&1; then
  echo "INCONCLUSIVE $ID: fuzz target $T did not build (see fuzz/build.log)" >&2; exit 2
fi
BIN="$DIR/target/x86_64-unknown-linux-gnu/release/$T"
WORK="$DIR/work/$ID"
rm -rf "$WORK"; mkdir -p "$WORK/corpus" "$WORK/artifacts"
cp "$DIR/seeds/$T/"* "$WORK/corpus/" 2>/dev/null
DICTARG=""; [ -n "$DICT" ] && DICTARG="-dict=$DIR/dict/$DICT"
T0=$(date +%s)
# one libFuzzer process per worker, each with its own seed derived from VERIF_SEED, sharing the corpus directory.
# -runs bounds each worker; -seed pins it only approximately; the saved artifact is the reproducible unit.
FRC=0
i=0
PIDS=""
while [ "$i" -lt "$JOBS" ]; do
  ( cd "$WORK" && VERIF_PROP="$ID" VERIF_DIR="$VERIF" timeout 7000 "$BIN" "$WORK/corpus" -artifact_prefix="$WORK/artifacts/" \
      -runs="$RUNS" -max_total_time="$SECS" -seed="$((SEED * 1000 + i + 1))" -max_len="$MAXLEN" -len_control=0 $DICTARG -reload=1 -print_final_stats=1 -rss_limit_mb=4096 \
      >"$WORK/fuzz-$i.log" 2>&1 ) &
  PIDS="$PIDS $!"
  i=$((i + 1))
done
for P in $PIDS; do wait "$P"; c=$?; [ "$c" = 124 ] && FRC=124; done
T1=$(date +%s)
EXECS=$(cat "$WORK"/fuzz-*.log 2>/dev/null | grep -a "stat::number_of_executed_units" | awk '{s+=$2} END {print s+0}')
COV=$(cat "$WORK"/fuzz-*.log 2>/dev/null | grep -a " cov: " | sed 's/.* cov: \([0-9]*\).*/\1/' | sort -n | tail -1)
CORPUS=$(ls "$WORK/corpus" | wc -l)
# libFuzzer also saves units that merely took long ("slow-unit-*", more than 10 s under ASan on a loaded machine): they are
# kept apart and reported, but they are not crashes
mkdir -p "$WORK/slow"
mv "$WORK"/artifacts/slow-unit-* "$WORK/slow/" 2>/dev/null
SLOW=$(ls "$WORK/slow" 2>/dev/null | wc -l)
ARTS=$(ls "$WORK/artifacts" 2>/dev/null | wc -l)
# fold the campaign's numbers into the evidence file the harness has just written
EV="$VERIF/evidence/$ID.json"
if [ -f "$EV" ]; then
  jq --argjson execs "${EXECS:-0}" --argjson cov "${COV:-0}" --argjson corpus "$CORPUS" --argjson arts "$ARTS" --arg target "$T" --argjson secs "$((T1-T0))" --argjson jobs "$JOBS" \
     '.coverage.fuzz = {engine: "libFuzzer (cargo-fuzz, ASan, overflow checks, debug assertions)", target: $target, executions: $execs, edge_coverage: $cov, corpus_files: $corpus, crash_artifacts: $arts, workers: $jobs, wall_s: $secs} | .coverage.evaluations_including_fuzz = (.coverage.evaluations + $execs)' \
     "$EV" > "$EV.tmp" && mv "$EV.tmp" "$EV"
fi
echo "  fuzz $T for $ID: executions=${EXECS:-0} cov=${COV:-0} corpus=$CORPUS artifacts=$ARTS slow_units=$SLOW wall=$((T1-T0))s" >&2
if [ "$ARTS" = 0 ]; then
  [ "$FRC" = 124 ] && { echo "INCONCLUSIVE $ID: fuzz campaign hit the watchdog" >&2; exit 2; }
  exit 0
fi
# something crashed: a VERIF panic names a replay file; anything else (ASan report, raw panic) is re-judged from the raw artifact
rc=0
REPLAYS=$(cat "$WORK"/fuzz-*.log | grep -a -o "VERIF property=$ID replay=[^ ]*" | sed 's/.*replay=//' | sort -u)
for R in $REPLAYS; do
  "$VERIF/check" "$ID" --replay "$R"; c=$?
  [ "$c" = 1 ] && rc=1
done
if [ -z "$REPLAYS" ]; then
  for A in "$WORK"/artifacts/*; do
    case "$T" in
      fz_bytes) "$VERIF/check" "$ID" --replay "$A"; c=$? ;;
      *) c=2 ;;
    esac
    [ "$c" = 1 ] && rc=1
    [ "$c" != 0 ] && [ "$c" != 1 ] && [ "$rc" = 0 ] && rc=2
  done
  if [ "$rc" != 1 ]; then
    echo "INCONCLUSIVE $ID: the sanitised fuzz target crashed but the harness does not reproduce a violation; artifacts kept in $WORK/artifacts" >&2
    grep -a -m3 -E "ERROR: AddressSanitizer|panicked at|SUMMARY" "$WORK"/fuzz-*.log | head -5 >&2
    rc=2
  fi
fi
exit $rc
