pub mod engine;
pub mod gen;
pub mod imp;
pub mod oracle;
pub mod props;
pub mod selftest;
pub mod fuzzapi;
pub mod bld;
