//! C01 — the v1 parser accepts exactly the well-formed lines and decodes them faithfully.

use crate::engine::{esc, CaseIo, Fail, Runner, Stats, Verdict};
use crate::gen;
use crate::imp;
use crate::oracle::v1::{shape, v1_ref, V1Ref};
use std::sync::atomic::{AtomicBool, Ordering};

/// Compare one entry point's outcome with the reference verdict.
fn compare<E: std::fmt::Debug>(
    entry: &str,
    input: &[u8],
    want: &V1Ref,
    got: &Result<Result<ppp::v1::Header<'_>, E>, String>,
) -> Verdict {
    match (want, got) {
        (V1Ref::Accept { len, addr }, Ok(Ok(h))) => {
            if h.header.as_bytes() != &input[..*len] {
                return Err(Fail::new(
                    format!("header-text:{}", entry), shape(input),
                    entry,
                    format!("header text = first {} bytes {:?}", len, esc(&input[..*len])),
                    format!("header text {:?}", esc(h.header.as_bytes())),
                ));
            }
            let a = imp::addr1(&h.addresses);
            if a != *addr {
                return Err(Fail::new(
                    format!("decode:{}", entry), shape(input),
                    entry,
                    format!("{:?}", addr),
                    format!("{:?}", a),
                ));
            }
            Ok(())
        }
        (V1Ref::Accept { len, addr }, Ok(Err(e))) => Err(Fail::new(
            format!("impl-rejects:{}", entry), shape(input),
            entry,
            format!("Ok: well-formed line of {} bytes, {:?}", len, addr),
            format!("Err({:?})", e),
        )),
        (V1Ref::Accept { len, addr }, Err(p)) => Err(Fail::new(
            format!("impl-panics-on-valid:{}", entry), shape(input),
            entry,
            format!("Ok: well-formed line of {} bytes, {:?}", len, addr),
            format!("panic: {}", p),
        )),
        (V1Ref::Reject(why), Ok(Ok(h))) => Err(Fail::new(
            format!("impl-accepts:{}", entry), shape(input),
            entry,
            format!("Err(_): not a well-formed line ({})", why),
            format!("Ok(header={:?}, {:?})", esc(h.header.as_bytes()), h.addresses),
        )),
        // a rejection of any kind is what C01 asks for; a panic here is C03's business
        (V1Ref::Reject(_), _) => Ok(()),
    }
}

pub fn judge(input: &Vec<u8>, st: &mut Stats) -> Verdict {
    st.eval();
    let want = v1_ref(input);
    match &want {
        V1Ref::Accept { len, addr } => {
            st.nontrivial(input.digest());
            let c = match addr {
                crate::oracle::v1::RefAddr::Unknown => "accept-unknown",
                crate::oracle::v1::RefAddr::Tcp4 { .. } => "accept-tcp4",
                crate::oracle::v1::RefAddr::Tcp6 { .. } => "accept-tcp6",
            };
            st.class(c);
            st.sample(c, || esc(input));
            if *len == 107 {
                st.class("accept-len107");
            }
            if input.len() > *len {
                st.class("accept-with-trailer");
            }
            if input[..*len].iter().any(|&b| b >= 0x80) {
                st.class("accept-non-ascii");
            }
        }
        V1Ref::Reject(why) => {
            let c = format!("reject-{}", why);
            st.class(&c);
            if input.starts_with(b"PROXY ") {
                st.nontrivial(input.digest());
                st.sample(&c, || esc(input));
            }
        }
    }
    let got_b = imp::v1_bytes(input);
    compare("try_from(&[u8])", input, &want, &got_b)?;
    if let Ok(s) = std::str::from_utf8(input) {
        st.class("utf8-input");
        let got_s = imp::v1_str(s);
        compare("try_from(&str)", input, &want, &got_s)?;
        // the FromStr impls are v1 text entry points as well
        let got_h = imp::v1_fromstr_header(s);
        compare("str::parse::<Header>", input, &want, &got_h)?;
        match (&want, imp::v1_fromstr_addr(s)) {
            (V1Ref::Accept { addr, .. }, Ok(Ok(a))) if imp::addr1(&a) == *addr => {}
            (V1Ref::Reject(_), Ok(Err(_))) | (V1Ref::Reject(_), Err(_)) => {}
            (w, got) => {
                return Err(Fail::new(
                    "fromstr-addresses",
                    shape(input),
                    "str::parse::<Addresses>",
                    format!("{:?}", w),
                    imp::short(&format!("{:?}", got)),
                ))
            }
        }
    }
    Ok(())
}

fn gen_case(t: &mut crate::engine::Tape) -> Vec<u8> {
    match t.weighted(&[15, 24, 6, 3, 1]) {
        4 => gen::gen_other_notation(t),
        0 => {
            let mut x = gen::gen_valid_line(t, false);
            if t.coin() {
                x.extend(gen::gen_trailer(t, false).0);
            }
            x
        }
        1 => {
            let (mut x, _) = gen::gen_v1_mutant(t);
            if t.chance(1, 4) {
                x.extend(gen::gen_trailer(t, false).0);
            }
            x
        }
        2 => gen::gen_tokens(t),
        _ => gen::gen_random_bytes(t, 300),
    }
}

/// Token alphabet of the exhaustive stage (14 tokens).
const ALPHA: &[&[u8]] = &[b"PROXY", b" ", b"UNKNOWN", b"TCP4", b"TCP6", b"1.2.3.4", b"::1", b"80", b"+", b"\r", b"\n", b"x", b"\xc3\xa9", b"0"];

/// Composite heads: every decision point at the tail of a line is then within k tokens.
const HEADS: &[&[u8]] = &[
    b"",
    b"PROXY UNKNOWN",
    b"PROXY TCP4 1.2.3.4 5.6.7.8 80",
    b"PROXY TCP4 1.2.3.4 5.6.7.8",
    b"PROXY TCP6 ::1 ::2 1",
    b"PROXY TCP6 ::1 ::2",
    b"PROXY TCP4 1.2.3.4 5.6.7.8 80 443",
    b"PROXY TCP6 ::1 ::2 1 2",
];

fn nth_sequence(head: &[u8], mut idx: u64, len: usize) -> Vec<u8> {
    let mut out = head.to_vec();
    for _ in 0..len {
        out.extend_from_slice(ALPHA[(idx % ALPHA.len() as u64) as usize]);
        idx /= ALPHA.len() as u64;
    }
    out
}

pub fn run(r: &mut Runner) -> &'static str {
    r.rule = "inputs: valid lines in every spelling (+- trailer), one-step mutants of valid lines, token sequences, random bytes, \
              through try_from(&[u8]) and (when UTF-8) try_from(&str); oracle: reference grammar R-V1 in both directions plus exact decode. \
              non-trivial = accepted by R-V1, or rejected although the input starts with `PROXY ` (passes the keyword gate); distinct by SipHash of the bytes Added later: exhaustive single-field sweeps (every numeral in each port position, every 1-3 digit string in each octet position, every 1-4 hex digit string in each group position), TCP6 lines built to an exact length 100..=116, long UTF-8 lines around 107 bytes, chains of related inputs judged back to back from a reused read buffer at rotating offsets."
        .into();
    r.assumptions.push("R-V1 (harness/src/oracle/v1.rs) transcribes the statement of C01; its IPv4/IPv6/port grammars are cross-checked against std at start-up".into());

    let n = r.n(400_000, 10_000_000);
    r.random("c01.grammar", n, 160, &gen_case, &|x: &Vec<u8>, st: &mut Stats| crate::engine::in_arena(x, |v| judge(v, st)));

    // chains of related inputs judged back to back on one thread: the verdict on an input must not depend on what was
    // parsed before it (a line, then the same line with one more digit / one character less / another trailer / ...)
    let n = r.n(60_000, 1_500_000);
    r.random("c01.chains", n, 260, &|t| gen::gen_chain(t, &gen_case), &|c: &crate::engine::Chain, st: &mut Stats| {
        // every member is parsed from this thread's reusable read buffer (same address, new contents)
        for x in &c.0 {
            crate::engine::in_arena(x, |v| judge(v, st))?;
        }
        Ok(())
    });

    // all token sequences up to k tokens from each head
    let k: usize = if r.quick() { 4 } else { 5 };
    let k0: usize = if r.quick() { 5 } else { 6 };
    let known = r.known_sigs();
    let work = |shard: usize, nshards: usize, st: &mut Stats, stop: &AtomicBool| -> Option<(Vec<u8>, Fail)> {
        for (hi, head) in HEADS.iter().enumerate() {
            let kmax = if hi == 0 { k0 } else { k };
            for len in 0..=kmax {
                let total = (ALPHA.len() as u64).pow(len as u32);
                let mut idx = shard as u64;
                while idx < total {
                    if idx % 4096 < nshards as u64 && stop.load(Ordering::Relaxed) {
                        return None;
                    }
                    let x = nth_sequence(head, idx, len);
                    if let Err(f) = judge(&x, st) {
                        if known.contains(&f.sig) {
                            *st.known_hits.entry(f.sig.clone()).or_insert(0) += 1;
                        } else {
                            return Some((x, f));
                        }
                    }
                    idx += nshards as u64;
                }
            }
        }
        None
    };
    let space = format!(
        "all sequences of <= {} tokens over a {}-token alphabet, and all continuations of <= {} tokens of {} composite heads",
        k0,
        ALPHA.len(),
        k,
        HEADS.len() - 1
    );
    r.bulk("c01.tokens", Some(&space), &work, &judge);

    // single-field sweeps: every decimal numeral of 1..=5 digits (and the zero-padded ones) in each port position,
    // every 1..=3-digit string in each IPv4 octet position, every 1..=4-hex-digit string (both cases where they
    // differ) in each IPv6 group position; all other fields fixed and distinct
    let known2 = r.known_sigs();
    let full = !r.quick();
    let fields_work = |shard: usize, nshards: usize, st: &mut Stats, stop: &AtomicBool| -> Option<(Vec<u8>, Fail)> {
        let mut idx: u64 = 0;
        let mut run = |mk: &dyn Fn() -> String, st: &mut Stats| -> Option<(Vec<u8>, Fail)> {
            idx += 1;
            if idx % nshards as u64 != shard as u64 {
                return None;
            }
            let x = mk().into_bytes();
            if let Err(f) = judge(&x, st) {
                if known2.contains(&f.sig) {
                    *st.known_hits.entry(f.sig.clone()).or_insert(0) += 1;
                } else {
                    return Some((x, f));
                }
            }
            None
        };
        // ports
        for (pre, post) in [
            ("PROXY TCP4 1.2.3.4 5.6.7.8 ", " 443\r\n"),
            ("PROXY TCP4 1.2.3.4 5.6.7.8 80 ", "\r\n"),
            ("PROXY TCP6 1::2 3::4 ", " 443\r\n"),
            ("PROXY TCP6 1::2 3::4 80 ", "\r\n"),
        ] {
            if stop.load(Ordering::Relaxed) {
                return None;
            }
            for n in 0..=99_999u32 {
                if let Some(f) = run(&|| format!("{}{}{}", pre, n, post), st) {
                    return Some(f);
                }
            }
            for n in 0..=9_999u32 {
                for w in [2usize, 3, 4, 5] {
                    let txt = format!("{:0w$}", n, w = w);
                    if txt.starts_with('0') && txt.len() > 1 {
                        if let Some(f) = run(&|| format!("{}{}{}", pre, txt, post), st) {
                            return Some(f);
                        }
                    }
                }
            }
        }
        // IPv4 octets
        for pos in 0..8usize {
            for digits in 1..=3usize {
                for n in 0..10u32.pow(digits as u32) {
                    let txt = format!("{:0w$}", n, w = digits);
                    let mk = || {
                        let mut o: Vec<String> = ["10", "20", "30", "40", "50", "60", "70", "80"].iter().map(|s| s.to_string()).collect();
                        o[pos] = txt.clone();
                        format!("PROXY TCP4 {}.{}.{}.{} {}.{}.{}.{} 1 2\r\n", o[0], o[1], o[2], o[3], o[4], o[5], o[6], o[7])
                    };
                    if let Some(f) = run(&mk, st) {
                        return Some(f);
                    }
                }
            }
        }
        // IPv6 groups
        for pos in 0..16usize {
            if stop.load(Ordering::Relaxed) {
                return None;
            }
            for digits in 1..=4usize {
                let count = 16u32.pow(digits as u32);
                // quick tier: all strings of 1..=3 digits, every 7th of the 4-digit ones (offset by position)
                let step = if digits == 4 && !full { 7 } else { 1 };
                let mut n = if step > 1 { pos as u32 % step } else { 0 };
                while n < count {
                    for upper in [false, true] {
                        let txt = if upper { format!("{:0w$X}", n, w = digits) } else { format!("{:0w$x}", n, w = digits) };
                        if upper && !txt.bytes().any(|b| b.is_ascii_uppercase()) {
                            continue;
                        }
                        let mk = || {
                            let mut g: Vec<String> = (1..=16).map(|i| format!("{:x}", i * 0x111)).collect();
                            g[pos] = txt.clone();
                            format!("PROXY TCP6 {} {} 1 2\r\n", g[..8].join(":"), g[8..].join(":"))
                        };
                        if let Some(f) = run(&mk, st) {
                            return Some(f);
                        }
                    }
                    n += step;
                }
            }
        }
        None
    };
    let fspace = if full {
        "every decimal numeral 0..=99999 and every zero-padded numeral up to 5 digits in each of the 4 port positions; every 1..=3-digit string in each of the 8 IPv4 octet positions; every 1..=4-hex-digit string (lower and upper case) in each of the 16 IPv6 group positions; other fields fixed"
    } else {
        "every decimal numeral 0..=99999 and every zero-padded numeral up to 5 digits in each of the 4 port positions; every 1..=3-digit string in each of the 8 IPv4 octet positions; every 1..=3-hex-digit string and every 7th 4-hex-digit string (lower and upper case) in each of the 16 IPv6 group positions; other fields fixed"
    };
    r.bulk("c01.fields", Some(fspace), &fields_work, &judge);
    "exploration"
}
