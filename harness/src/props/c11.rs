//! C11 — TLV iteration yields exactly the standard type-length-value walk and then stops.

use crate::engine::{fill, hex, CaseIo, Fail, Runner, Stats, Tape, Verdict};
use crate::gen;
use crate::imp;
use crate::oracle::tlv::{tlv_ref, Item};
use crate::oracle::v2::NEED;
use ppp::v2::{ParseError as E2, TypeLengthValues};
use std::sync::atomic::{AtomicBool, Ordering};

pub fn shape_tlv(section: &[u8]) -> String {
    let items = tlv_ref(section);
    let mut s = format!("n{}", items.len());
    for it in items.iter().take(6) {
        match it {
            Item::Ok { start, end, .. } => {
                let l = end - start;
                s.push_str(match l {
                    0 => ",ok0",
                    1..=255 => ",ok<256",
                    _ => ",ok>=256",
                })
            }
            Item::Short => s.push_str(",short"),
            Item::Overrun { .. } => s.push_str(",overrun"),
        }
    }
    s
}

/// Walk `it` against the reference for `section`. `section` must be the very slice the iterator
/// borrows from, so that value positions can be checked by pointer arithmetic.
pub fn walk<'a>(section: &'a [u8], mut it: TypeLengthValues<'a>, entry: &str) -> Verdict {
    let want = tlv_ref(section);
    let cap = section.len() / 3 + 2;
    let base = section.as_ptr() as usize;
    let fail = |what: &str, exp: String, obs: String| Err(Fail::new(what, shape_tlv(section), entry, exp, obs));
    for (i, w) in want.iter().enumerate() {
        let got = it.next();
        match (w, got) {
            (Item::Ok { kind, start, end }, Some(Ok(tlv))) => {
                if tlv.kind != *kind || tlv.value.as_ref() != &section[*start..*end] {
                    return fail(
                        "item-content",
                        format!("item {}: kind {} value = section[{}..{}]", i, kind, start, end),
                        format!("kind {} value of {} bytes {}", tlv.kind, tlv.value.len(), hex(&tlv.value[..tlv.value.len().min(16)])),
                    );
                }
                // position: borrowed values must be located where the walk says (tiling)
                if let std::borrow::Cow::Borrowed(v) = &tlv.value {
                    let off = (v.as_ptr() as usize).wrapping_sub(base);
                    if !v.is_empty() && off != *start {
                        return fail("item-position", format!("item {} value at offset {}", i, start), format!("offset {}", off));
                    }
                }
                if tlv.len() != end - start || tlv.is_empty() != (end == start) {
                    return fail("item-len", format!("len {}", end - start), format!("len {} is_empty {}", tlv.len(), tlv.is_empty()));
                }
            }
            (Item::Short, Some(Err(_))) => {}
            (Item::Overrun { kind, len }, Some(Err(E2::InvalidTLV(k, l)))) if k == *kind && l == *len => {}
            (w, got) => {
                return fail(
                    "item-mismatch",
                    format!("item {}: {:?}", i, w),
                    match got {
                        None => "iteration ended".to_string(),
                        Some(Ok(t)) => format!("Ok(kind {}, {} value bytes)", t.kind, t.value.len()),
                        Some(Err(e)) => format!("Err({:?})", e),
                    },
                )
            }
        }
        if i > cap {
            return fail("too-many-items", format!("at most {} items", cap), "more".into());
        }
    }
    for extra in 0..3 {
        if let Some(x) = it.next() {
            return fail(
                "item-after-end",
                format!("None after {} items (call {} after the end)", want.len(), extra + 1),
                match x {
                    Ok(t) => format!("Ok(kind {}, {} value bytes)", t.kind, t.value.len()),
                    Err(e) => format!("Err({:?})", e),
                },
            );
        }
    }
    Ok(())
}

fn classify(section: &[u8], st: &mut Stats) {
    let items = tlv_ref(section);
    let oks = items.iter().filter(|i| matches!(i, Item::Ok { .. })).count();
    let err = items.len() - oks;
    let big = items.iter().any(|i| matches!(i, Item::Ok { start, end, .. } if end - start >= 256));
    if oks >= 2 || (err > 0 && oks >= 1) || big {
        st.nontrivial(crate::engine::hash_bytes(section));
    }
    st.class(if err > 0 { "ends-in-error" } else if items.is_empty() { "empty" } else { "well-formed" });
    if big {
        st.class("value>=256");
    }
    if items.iter().any(|i| matches!(i, Item::Ok { start, end, .. } if end == start)) {
        st.class("zero-length-value");
    }
    st.sample(if err > 0 { "ends-in-error" } else { "well-formed" }, || format!("{} ({} bytes)", hex(&section[..section.len().min(32)]), section.len()));
}

/// Case: a byte slice as a TLV section.
pub fn judge_slice(section: &Vec<u8>, st: &mut Stats) -> Verdict {
    st.eval();
    classify(section, st);
    match crate::engine::guard(|| walk(section, TypeLengthValues::from(&section[..]), "TypeLengthValues::from(&[u8])")) {
        Ok(v) => v,
        // the walk demands concrete items here; a panic is none of them (and is C03's business as well)
        Err(p) => Err(Fail::new("panic-instead-of-items", shape_tlv(section), "TypeLengthValues::from(&[u8])", format!("the items {:?}", tlv_ref(section).iter().take(4).collect::<Vec<_>>()), format!("panic: {}", p))),
    }
}

/// Case: an accepted header; the section is the payload after the address block, taken from the raw input.
pub fn judge_header(x: &Vec<u8>, st: &mut Stats) -> Verdict {
    let got = imp::v2_parse(x);
    let h = match &got {
        Ok(Ok(h)) => h,
        _ => {
            st.discard();
            return Ok(());
        }
    };
    st.eval();
    let l = ((x[14] as usize) << 8) | x[15] as usize;
    let fam = (x[13] >> 4) as usize;
    let start = 16 + if fam == 0 { l } else { NEED[fam] };
    let section = &x[start..16 + l];
    classify(section, st);
    st.class(&format!("header-fam{}", fam));
    // the borrowed header's views point into `x`, so positions are comparable
    match crate::engine::guard(|| {
        let it = h.tlvs();
        if it.as_bytes().as_ptr() != section.as_ptr() && !section.is_empty() {
            return Err(Fail::new(
                "section-position",
                shape_tlv(section),
                "Header::tlvs()",
                format!("section = input[{}..{}]", start, 16 + l),
                "a different slice".to_string(),
            ));
        }
        // `it` borrows from `h`, which borrows from `x`: re-slice so lifetimes line up
        let sec: &[u8] = it.as_bytes();
        walk(sec, h.tlvs(), "Header::tlvs()")?;
        if sec != section {
            return Err(Fail::new("section-content", shape_tlv(section), "Header::tlvs()", "section bytes of the raw input", "different bytes"));
        }
        Ok(())
    }) {
        Ok(v) => v,
        Err(p) => Err(Fail::new("panic-instead-of-items", shape_tlv(section), "Header::tlvs()", format!("the items {:?}", tlv_ref(section).iter().take(4).collect::<Vec<_>>()), format!("panic: {}", p))),
    }
}

fn gen_slice(t: &mut Tape) -> Vec<u8> {
    match t.weighted(&[4, 3, 2, 1]) {
        0 => gen::enc_tlv_list(&gen::gen_tlv_list(t, 70_000)),
        1 => {
            let s = gen::enc_tlv_list(&gen::gen_tlv_list(t, 70_000));
            // truncation near item boundaries or anywhere
            let items = tlv_ref(&s);
            let mut cuts: Vec<usize> = vec![];
            for it in &items {
                if let Item::Ok { start, end, .. } = it {
                    for d in 0..=3usize {
                        cuts.push(start.saturating_sub(d));
                        cuts.push(end.saturating_sub(d));
                        cuts.push((end + d).min(s.len()));
                    }
                }
            }
            let cut = if cuts.is_empty() || t.chance(1, 4) { t.below(s.len() as u32 + 1) as usize } else { cuts[t.below(cuts.len() as u32) as usize] };
            s[..cut.min(s.len())].to_vec()
        }
        2 => {
            let n = t.usize_in(0, 64);
            t.bytes(n)
        }
        _ => {
            // long random-ish sections with small declared lengths so that many items occur
            let n = t.usize_in(1000, 70_000);
            let mut s = fill(t.u32() | 1, n);
            let mask = *t.pick(&[0x00u8, 0x01, 0x03]);
            let mut i = 0;
            while i + 2 < s.len() {
                s[i + 1] &= mask;
                let l = ((s[i + 1] as usize) << 8) | s[i + 2] as usize;
                i += 3 + l;
            }
            s
        }
    }
}

const ALPHA: [u8; 6] = [0x00, 0x01, 0x02, 0x03, 0x04, 0xFF];

pub fn run(r: &mut Runner) -> &'static str {
    r.rule = "inputs: byte slices as TLV sections - ALL strings over {00,01,02,03,04,FF} up to a length bound, well-formed lists (value lengths 0,1,255..257,65535,random) with truncations \
              at and around every item boundary, random short and long sections - and the TLV sections of accepted headers; oracle: the textbook walk R-TLV item by item \
              (kind, value bytes, value POSITION in the borrowed slice, one error item of the right kind, then None three more times). \
              non-trivial = at least 2 items, or an error after at least 1 item, or a value of >= 256 bytes; distinct by SipHash of the section"
        .into();
    let n = r.n(200_000, 3_000_000);
    r.random("c11.slices", n, 160, &gen_slice, &judge_slice);
    let n = r.n(100_000, 2_000_000);
    r.random("c11.headers", n, 200, &crate::props::c14::gen_case, &judge_header);

    let maxlen: u32 = if r.quick() { 7 } else { 9 };
    let work = |shard: usize, nshards: usize, st: &mut Stats, stop: &AtomicBool| -> Option<(Vec<u8>, Fail)> {
        for len in 0..=maxlen {
            let total = 6u64.pow(len);
            let mut idx = shard as u64;
            while idx < total {
                if idx % 8192 < nshards as u64 && stop.load(Ordering::Relaxed) {
                    return None;
                }
                let mut v = Vec::with_capacity(len as usize);
                let mut k = idx;
                for _ in 0..len {
                    v.push(ALPHA[(k % 6) as usize]);
                    k /= 6;
                }
                if let Err(f) = judge_slice(&v, st) {
                    return Some((v, f));
                }
                idx += nshards as u64;
            }
        }
        None
    };
    let space = format!("all byte strings over {{00,01,02,03,04,FF}} of length 0..={}", maxlen);
    r.bulk("c11.alphabet", Some(&space), &work, &judge_slice);
    "exploration"
}
