#!/usr/bin/env python3
"""tools/install_regress.py : copy seeded/<id>/replay.json (written by tools/save_replay.sh) to regress/<ID>/seeded-<id>.json.

Only plain cases are installed: a file is skipped when it is larger than 48 KB, when it needs a process of its own to
reproduce (cold-start and crash / stall replays), or when it carries a history of predecessor cases. Every installed case is
a generated input that told a seeded change from the unchanged library; on the unchanged library it is judged like any other
case (it passes), so the replay tier never raises an alarm of its own."""
import json, glob, os
root = os.path.join(os.path.dirname(os.path.abspath(__file__)), "..")
n = skipped = 0
for f in sorted(glob.glob(os.path.join(root, "seeded", "C???", "replay.json"))):
    sid = os.path.basename(os.path.dirname(f))
    try:
        v = json.load(open(f))
    except Exception:
        skipped += 1
        continue
    sig = str(v.get("sig", ""))
    if os.path.getsize(f) > 48 * 1024 or "cold" in v or v.get("found_by") or sig.startswith("crash:") or sig.startswith("hang:") or v.get("preceded_by") or "case" not in v or "check" not in v:
        skipped += 1
        continue
    prop = v.get("property", sid[:3])
    out = {
        "property": prop,
        "check": v["check"],
        "why_kept": "generated case that told seeded change %s from the unchanged library (sig %s)" % (sid, sig[:160]),
        "case": v["case"],
    }
    d = os.path.join(root, "regress", prop)
    os.makedirs(d, exist_ok=True)
    json.dump(out, open(os.path.join(d, "seeded-%s.json" % sid), "w"), indent=1)
    n += 1
print("installed", n, "cases; skipped", skipped)
