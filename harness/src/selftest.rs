//! Oracle self-test: fixed vectors from the specification / the repository's tests, and a
//! cross-check of the harness's own text grammars against std's parsers. A failure here means the
//! harness is wrong (exit 2), never a violation.

use crate::engine::Tape;
use crate::gen;
use crate::oracle::{tlv, v1, v2};

fn lcg(state: &mut u64) -> u32 {
    *state = state.wrapping_mul(6364136223846793005).wrapping_add(1442695040888963407);
    (*state >> 32) as u32
}

pub fn run() -> Result<(), String> {
    // --- R-V1 fixed vectors
    let ok = |s: &[u8], len: usize| match v1::v1_ref(s) {
        v1::V1Ref::Accept { len: l, .. } if l == len => Ok(()),
        o => Err(format!("R-V1 should accept {:?} with len {}: {:?}", String::from_utf8_lossy(s), len, o)),
    };
    let no = |s: &[u8]| match v1::v1_ref(s) {
        v1::V1Ref::Reject(_) => Ok(()),
        o => Err(format!("R-V1 should reject {:?}: {:?}", String::from_utf8_lossy(s), o)),
    };
    ok(b"PROXY UNKNOWN\r\n", 15)?;
    ok(b"PROXY UNKNOWN\r\nhello", 15)?;
    ok(b"PROXY TCP4 127.0.1.2 192.168.1.101 80 443\r\n", 43)?;
    ok(b"PROXY TCP4 255.255.255.255 255.255.255.255 65535 65535\r\n", 56)?;
    ok(b"PROXY TCP6 1234:5678:90ab:cdef:fedc:ba09:8765:4321 4321:8765:ba09:fedc:cdef:90ab:5678:1234 443 65535\r\n", 102)?;
    ok(b"PROXY UNKNOWN ffff:ffff:ffff:ffff:ffff:ffff:ffff:ffff ffff:ffff:ffff:ffff:ffff:ffff:ffff:ffff 65535 65535\r\n", 107)?;
    ok(b"PROXY TCP6 ::1 ::1 80 443\r\nHi!", 27)?;
    ok(b"PROXY TCP6 ffff::ffff ffff::ffff 65535 65535\r\n", 46)?;
    ok(b"PROXY TCP6 :: :: 0 0\r\n", 22)?;
    ok(b"PROXY UNKNOWN \r\n", 16)?;
    ok(b"PROXY UNKNOWN  a  b \n c\r\n", 25)?;
    no(b"PROXY UNKNOWN")?;
    no(b"PROXY UNKNOWN\r")?;
    no(b"PROXY UNKNOWN\n")?;
    no(b"PROXY UNKNOWN \n")?;
    no(b"PROXY UNKNOWN\rX")?;
    no(b"PROXY UNKNOWNX\r\n")?;
    no(b"PROXY TCP4 1.1.1.1 2.2.2.2 1 2 \n")?;
    no(b"PROXY TCP4 1.1.1.1 2.2.2.2 +1 2\r\n")?;
    no(b"PROXY TCP4 1.1.1.1 2.2.2.2 01 2\r\n")?;
    no(b"PROXY TCP4 1.1.1.1 2.2.2.2 1 65536\r\n")?;
    no(b"PROXY TCP4 1.1.1.1 2.2.2.2 1 2 3\r\n")?;
    no(b"PROXY TCP4 1.1.1.1  2.2.2.2 1 2\r\n")?;
    no(b"PROXY TCP4 1.1.1.1 2.2.2.2 1\r\n")?;
    no(b"PROXY TCP4 01.1.1.1 2.2.2.2 1 2\r\n")?;
    no(b"PROXY TCP4 ::1 ::1 1 2\r\n")?;
    no(b"PROXY TCP6 1.1.1.1 2.2.2.2 1 2\r\n")?;
    no(b"PROXY tcp4 1.1.1.1 2.2.2.2 1 2\r\n")?;
    no(b"proxy UNKNOWN\r\n")?;
    no(b" PROXY UNKNOWN\r\n")?;
    no(b"PROXY  UNKNOWN\r\n")?;
    no(b"PROXY UNKNOWN \xff\r\n")?;
    no(b"PROXY UNKNOWN ffff:ffff:ffff:ffff:ffff:ffff:ffff:ffff ffff:ffff:ffff:ffff:ffff:ffff:ffff:ffff 65535 655355\r\n")?;
    let mut late_cr = vec![b'a'; 107];
    late_cr.push(b'\r');
    let mut cr_as_107th = vec![b'a'; 106];
    cr_as_107th.push(b'\r');
    if !v1::closed(b"PROXY\rT") || v1::closed(b"PROXY\r") || v1::closed(&[b'a'; 106]) || !v1::closed(&[b'a'; 107]) || !v1::closed(&late_cr) || v1::closed(&cr_as_107th) {
        return Err("closed() wrong".into());
    }

    // --- grammars against std on generated strings
    let mut state = 0x1234_5678_9abc_def0u64;
    let mut agree = 0u32;
    for i in 0..60_000u32 {
        let cells: Vec<u32> = (0..48).map(|_| lcg(&mut state)).collect();
        let mut t = Tape::new(&cells);
        // candidate strings: valid spellings, bad lists, mutated spellings
        let s: String = match i % 6 {
            0 => gen::spell_v6(gen::gen_v6(&mut t), &mut t),
            1 => gen::spell_v4(gen::gen_v4(&mut t)),
            2 => gen::BAD_V6[t.below(gen::BAD_V6.len() as u32) as usize].to_string(),
            3 => gen::BAD_V4[t.below(gen::BAD_V4.len() as u32) as usize].to_string(),
            4 => {
                let mut s = gen::spell_v6(gen::gen_v6(&mut t), &mut t).into_bytes();
                let at = t.below(s.len() as u32) as usize;
                match t.below(3) {
                    0 => s[at] = *t.pick(&[b':', b'.', b'0', b'f', b'g', b'1', b'F']),
                    1 => s.insert(at, *t.pick(&[b':', b'.', b'0', b'f', b'1'])),
                    _ => {
                        s.remove(at);
                    }
                }
                String::from_utf8_lossy(&s).to_string()
            }
            _ => {
                let mut s = gen::spell_v4(gen::gen_v4(&mut t)).into_bytes();
                let at = t.below(s.len() as u32) as usize;
                match t.below(3) {
                    0 => s[at] = *t.pick(&[b'.', b'0', b'9', b'2', b'a']),
                    1 => s.insert(at, *t.pick(&[b'.', b'0', b'1', b'5'])),
                    _ => {
                        s.remove(at);
                    }
                }
                String::from_utf8_lossy(&s).to_string()
            }
        };
        let mine6 = v1::ipv6(s.as_bytes());
        let std6 = s.parse::<std::net::Ipv6Addr>().ok().map(|a| a.segments());
        if mine6 != std6 {
            return Err(format!("IPv6 grammar disagrees with std on {:?}: mine {:?} std {:?}", s, mine6, std6));
        }
        let mine4 = v1::ipv4(s.as_bytes());
        let std4 = s.parse::<std::net::Ipv4Addr>().ok().map(|a| a.octets());
        if mine4 != std4 {
            return Err(format!("IPv4 grammar disagrees with std on {:?}: mine {:?} std {:?}", s, mine4, std4));
        }
        agree += 1;
    }
    let _ = agree;
    for p in gen::BAD_PORTS {
        if v1::port(p.as_bytes()).is_some() {
            return Err(format!("port grammar accepts {:?}", p));
        }
    }
    for v in [0u32, 1, 9, 10, 80, 65535] {
        if v1::port(v.to_string().as_bytes()) != Some(v as u16) {
            return Err(format!("port grammar rejects {}", v));
        }
    }

    // --- R-V2 fixed vectors (specification example and the repository's doc example)
    let mut h = v2::SIG.to_vec();
    h.extend_from_slice(&[0x21, 0x12, 0, 16, 127, 0, 0, 1, 192, 168, 1, 1, 0, 80, 1, 187, 4, 0, 1, 42]);
    match v2::v2_ref(&h) {
        v2::V2Ref::Accept { len: 32, cmd: 1, proto: 2, fam: 1, addr: v2::RefAddr2::V4 { src: [127, 0, 0, 1], dst: [192, 168, 1, 1], sport: 80, dport: 443 } } => {}
        o => return Err(format!("R-V2 doc example: {:?}", o)),
    }
    if v2::v2_ref(&h[..31]) != v2::V2Ref::Partial(15, 16) || v2::v2_ref(&h[..5]) != v2::V2Ref::Incomplete(5) {
        return Err("R-V2 truncation vectors".into());
    }
    let mut bad = h.clone();
    bad[15] = 11;
    if v2::v2_ref(&bad) != v2::V2Ref::InvalidAddresses(11, 12) {
        return Err("R-V2 invalid addresses".into());
    }
    if v2::v2_ref(b"PROXY UNKNOWN\r\n") != v2::V2Ref::Prefix || v2::v2_ref(b"") != v2::V2Ref::Incomplete(0) {
        return Err("R-V2 prefix".into());
    }

    // --- R-TLV
    let sec = [4u8, 0, 1, 42, 1, 0, 0, 2, 0, 5, 1];
    let items = tlv::tlv_ref(&sec);
    if items
        != vec![
            tlv::Item::Ok { kind: 4, start: 3, end: 4 },
            tlv::Item::Ok { kind: 1, start: 7, end: 7 },
            tlv::Item::Overrun { kind: 2, len: 5 },
        ]
    {
        return Err(format!("R-TLV vector: {:?}", items));
    }
    if tlv::tlv_ref(&[1, 0]) != vec![tlv::Item::Short] || !tlv::tlv_ref(&[]).is_empty() {
        return Err("R-TLV short".into());
    }
    Ok(())
}
