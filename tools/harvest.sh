#!/bin/sh
# tools/harvest.sh <scratch-root> <suffixes...> : copy sub-agent output <root>/<PROP>/_out/<s>/ to seeded/<PROP><s>/ (no overwrite)
ROOT="$1"; shift
cd "$(dirname "$0")/.." || exit 2
for d in "$ROOT"/C??; do
  P=$(basename "$d")
  for s in "$@"; do
    src="$d/_out/$s"; dst="seeded/$P$s"
    [ -f "$src/patch.diff" ] || continue
    [ -d "$dst" ] && continue
    mkdir -p "$dst"; cp "$src/patch.diff" "$src/demo.rs" "$src/agent_meta.json" "$dst/" 2>/dev/null
    echo "harvested $dst"
  done
done
