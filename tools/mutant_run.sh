#!/bin/sh
# tools/mutant_run.sh <patch.diff> <ID> [<ID> ...]
# Sensitivity run against a scratch copy (never /repo itself): copies /repo's HEAD and the harness to a
# temporary directory outside /repo and /verif, applies the patch, confirms the 73 unit tests still pass,
# runs the quick tier of the named checks against the copy, prints one line per check, removes everything.
# Env: MUT_TIER (quick), MUT_KEEP=1 keeps the scratch dir, MUT_SKIP_TESTS=1 skips the unit tests.
set -u
PATCH=$(readlink -f "$1"); shift
W=$(mktemp -d /tmp/mut.XXXXXX)
trap '[ "${MUT_KEEP:-0}" = 1 ] || rm -rf "$W"' EXIT
export CARGO_NET_OFFLINE=true
mkdir -p "$W/repo" "$W/vd"
git -C /repo archive HEAD | tar -x -C "$W/repo" || exit 2
(cd "$W/repo" && git init -q . && git apply --whitespace=nowarn "$PATCH") || { echo "RESULT patch=$PATCH apply=FAILED"; exit 2; }
rsync -a --exclude target /verif/harness/ "$W/harness/"
sed -i "s#path = \"/repo\"#path = \"$W/repo\"#" "$W/harness/Cargo.toml"
cp /verif/KNOWN_FINDINGS.txt "$W/vd/"; cp -r /verif/regress "$W/vd/" 2>/dev/null
TESTS=skipped
if [ "${MUT_SKIP_TESTS:-0}" != 1 ]; then
  if (cd "$W/repo" && CARGO_TARGET_DIR="$W/rt" cargo test --offline --lib >"$W/test.log" 2>&1); then
    TESTS=$(grep -E "^test result" "$W/test.log" | head -1 | sed 's/test result: //; s/;.*//')
  else
    TESTS="FAILED($(grep -E "^test result" "$W/test.log" | head -1))"
  fi
fi
if ! (cd "$W/harness" && CARGO_TARGET_DIR="$W/ht" cargo build --release --quiet >"$W/build.log" 2>&1); then
  echo "RESULT patch=$PATCH build=FAILED"; tail -20 "$W/build.log"; exit 2
fi
CHK=""
case " $* " in *" C03 "*|*" C07 "*|*" C09 "*|*" C10 "*|*" C13 "*|*" C20 "*) (cd "$W/harness" && CARGO_TARGET_DIR="$W/ht" cargo build --profile checked --quiet >>"$W/build.log" 2>&1) && CHK="$W/ht/checked/ppp-verif" ;; esac
for ID in "$@"; do
  out=$(VERIF_DIR="$W/vd" timeout 1500 "$W/ht/release/ppp-verif" "$ID" --tier "${MUT_TIER:-quick}" 2>/dev/null); rc=$?
  if [ "$ID" = C03 ] && [ -n "$CHK" ] && [ $rc = 0 ]; then
    out=$(VERIF_DIR="$W/vd" timeout 1500 "$CHK" "$ID" --tier "${MUT_TIER:-quick}" 2>/dev/null); rc=$?
  fi
  case "$ID" in C07|C09|C10|C13|C20)
    if [ -n "$CHK" ] && [ $rc = 0 ]; then
      out=$(VERIF_SCALE=0.25 VERIF_DIR="$W/vd" timeout 1500 "$CHK" "$ID" --tier "${MUT_TIER:-quick}" 2>/dev/null); rc=$?
    fi ;;
  esac
  sig=$(echo "$out" | grep -m1 "sig=" | sed 's/^ *//')
  case $rc in 0) v=missed ;; 1) v=CAUGHT ;; *) v="inconclusive(rc=$rc)" ;; esac
  echo "RESULT patch=$(basename $(dirname $PATCH))/$(basename $PATCH) unit_tests=[$TESTS] check=$ID verdict=$v $sig"
done
