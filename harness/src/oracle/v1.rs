//! R-V1: reference grammar for PROXY protocol v1 lines, written from the statement of C01 and
//! the HAProxy specification. Deliberately structured differently from the code under test:
//! byte-level, position-driven (first CR), `split(' ')` on the line body, own number/address
//! grammars. Nothing from `ppp` is used here.

#[derive(Clone, Copy, Debug, PartialEq, Eq)]
pub enum RefAddr {
    Unknown,
    Tcp4 { src: [u8; 4], dst: [u8; 4], sport: u16, dport: u16 },
    Tcp6 { src: [u16; 8], dst: [u16; 8], sport: u16, dport: u16 },
}

#[derive(Clone, Debug, PartialEq, Eq)]
pub enum V1Ref {
    Accept { len: usize, addr: RefAddr },
    Reject(&'static str),
}

pub const MAX_LINE: usize = 107;

/// Position of the first CR.
pub fn first_cr(input: &[u8]) -> Option<usize> {
    input.iter().position(|&b| b == 0x0D)
}

/// The verdict can no longer change: first CR followed by at least one more byte, or 107 bytes
/// without any CR (statement of C18).
pub fn closed(input: &[u8]) -> bool {
    match first_cr(input) {
        // ... or the first 107 bytes held no CR (a CR that arrives later cannot reopen the verdict)
        Some(p) => p + 1 < input.len() || p >= MAX_LINE,
        None => input.len() >= MAX_LINE,
    }
}

pub fn port(s: &[u8]) -> Option<u16> {
    if s.is_empty() || s.len() > 5 {
        return None;
    }
    if !s.iter().all(|b| b.is_ascii_digit()) {
        return None;
    }
    if s.len() > 1 && s[0] == b'0' {
        return None;
    }
    let mut v: u32 = 0;
    for b in s {
        v = v * 10 + (b - b'0') as u32;
    }
    if v > 65535 {
        None
    } else {
        Some(v as u16)
    }
}

pub fn ipv4(s: &[u8]) -> Option<[u8; 4]> {
    let mut out = [0u8; 4];
    let mut n = 0;
    for part in s.split(|&b| b == b'.') {
        if n == 4 {
            return None;
        }
        if part.is_empty() || part.len() > 3 || !part.iter().all(|b| b.is_ascii_digit()) {
            return None;
        }
        if part.len() > 1 && part[0] == b'0' {
            return None;
        }
        let mut v: u32 = 0;
        for b in part {
            v = v * 10 + (b - b'0') as u32;
        }
        if v > 255 {
            return None;
        }
        out[n] = v as u8;
        n += 1;
    }
    if n == 4 {
        Some(out)
    } else {
        None
    }
}

fn hex_group(s: &[u8]) -> Option<u16> {
    if s.is_empty() || s.len() > 4 {
        return None;
    }
    let mut v: u32 = 0;
    for &b in s {
        let d = match b {
            b'0'..=b'9' => b - b'0',
            b'a'..=b'f' => b - b'a' + 10,
            b'A'..=b'F' => b - b'A' + 10,
            _ => return None,
        };
        v = v * 16 + d as u32;
    }
    Some(v as u16)
}

/// One side of a `::` (or the whole address): colon-separated hex groups, optionally ending in a
/// dotted quad (two groups) when `allow_v4_tail`. Empty text gives zero groups.
fn groups(s: &[u8], allow_v4_tail: bool) -> Option<Vec<u16>> {
    let mut out = Vec::new();
    if s.is_empty() {
        return Some(out);
    }
    let parts: Vec<&[u8]> = s.split(|&b| b == b':').collect();
    for (i, p) in parts.iter().enumerate() {
        let last = i + 1 == parts.len();
        if last && allow_v4_tail && p.contains(&b'.') {
            let q = ipv4(p)?;
            out.push(((q[0] as u16) << 8) | q[1] as u16);
            out.push(((q[2] as u16) << 8) | q[3] as u16);
        } else {
            out.push(hex_group(p)?);
        }
    }
    Some(out)
}

/// RFC 4291 section 2.2 text forms: 8 groups; or one `::` standing for one or more zero groups;
/// optional dotted-quad for the last 32 bits.
pub fn ipv6(s: &[u8]) -> Option<[u16; 8]> {
    // locate "::"
    let mut dc: Option<usize> = None;
    let mut i = 0;
    while i + 1 < s.len() {
        if s[i] == b':' && s[i + 1] == b':' {
            if dc.is_some() {
                return None; // second "::" (also catches ":::")
            }
            dc = Some(i);
            i += 2;
        } else {
            i += 1;
        }
    }
    let mut out = [0u16; 8];
    match dc {
        None => {
            let g = groups(s, true)?;
            if g.len() != 8 {
                return None;
            }
            out.copy_from_slice(&g);
        }
        Some(p) => {
            let head = groups(&s[..p], false)?;
            let tail = groups(&s[p + 2..], true)?;
            if head.len() + tail.len() > 7 {
                return None;
            }
            out[..head.len()].copy_from_slice(&head);
            out[8 - tail.len()..].copy_from_slice(&tail);
        }
    }
    Some(out)
}

fn tcp(body: &[u8], v6: bool) -> Result<RefAddr, &'static str> {
    let f: Vec<&[u8]> = body.split(|&b| b == b' ').collect();
    if f.len() != 4 {
        return Err("field-count");
    }
    let sport = port(f[2]);
    let dport = port(f[3]);
    if v6 {
        let src = ipv6(f[0]).ok_or("source-address")?;
        let dst = ipv6(f[1]).ok_or("destination-address")?;
        Ok(RefAddr::Tcp6 { src, dst, sport: sport.ok_or("source-port")?, dport: dport.ok_or("destination-port")? })
    } else {
        let src = ipv4(f[0]).ok_or("source-address")?;
        let dst = ipv4(f[1]).ok_or("destination-address")?;
        Ok(RefAddr::Tcp4 { src, dst, sport: sport.ok_or("source-port")?, dport: dport.ok_or("destination-port")? })
    }
}

/// The reference verdict for `input` handed to a v1 entry point.
pub fn v1_ref(input: &[u8]) -> V1Ref {
    let p = match first_cr(input) {
        None => return V1Ref::Reject("no-cr"),
        Some(p) => p,
    };
    if p + 1 >= input.len() {
        return V1Ref::Reject("cr-at-end");
    }
    if input[p + 1] != 0x0A {
        return V1Ref::Reject("cr-not-followed-by-lf");
    }
    if p + 2 > MAX_LINE {
        return V1Ref::Reject("too-long");
    }
    let line = &input[..p];
    if std::str::from_utf8(line).is_err() {
        return V1Ref::Reject("invalid-utf8");
    }
    let len = p + 2;
    if line == b"PROXY UNKNOWN" || line.starts_with(b"PROXY UNKNOWN ") {
        return V1Ref::Accept { len, addr: RefAddr::Unknown };
    }
    if let Some(body) = line.strip_prefix(b"PROXY TCP4 ") {
        return match tcp(body, false) {
            Ok(addr) => V1Ref::Accept { len, addr },
            Err(e) => V1Ref::Reject(e),
        };
    }
    if let Some(body) = line.strip_prefix(b"PROXY TCP6 ") {
        return match tcp(body, true) {
            Ok(addr) => V1Ref::Accept { len, addr },
            Err(e) => V1Ref::Reject(e),
        };
    }
    V1Ref::Reject("keyword-or-protocol")
}

/// A structural shape of the examined line, used as the signature of a failing v1 case: each
/// field is replaced by its class, the line ending is spelled out.
pub fn shape(input: &[u8]) -> String {
    let end = match first_cr(input) {
        Some(p) => (p + 2).min(input.len()),
        None => input.len(),
    };
    let w = &input[..end];
    let mut out = String::new();
    let mut field = Vec::new();
    let flush = |field: &mut Vec<u8>, out: &mut String| {
        if field.is_empty() {
            return;
        }
        let f = std::mem::take(field);
        let c = if f == b"PROXY" || f == b"TCP4" || f == b"TCP6" || f == b"UNKNOWN" {
            String::from_utf8(f).unwrap()
        } else if port(&f).is_some() {
            "n".into()
        } else if ipv4(&f).is_some() {
            "a4".into()
        } else if ipv6(&f).is_some() {
            "a6".into()
        } else if f.iter().all(|b| b.is_ascii_digit()) {
            "digits".into()
        } else if (f[0] == b'+' || f[0] == b'-') && f[1..].iter().all(|b| b.is_ascii_digit()) {
            format!("{}digits", f[0] as char)
        } else if f.iter().any(|&b| b >= 0x80) {
            "hi".into()
        } else if b"PROXY".starts_with(&f) || b"TCP4".starts_with(&f) || b"UNKNOWN".starts_with(&f) {
            "kwprefix".into()
        } else {
            "w".into()
        };
        out.push_str(&c);
    };
    let mut fields = 0;
    for &b in w {
        match b {
            b' ' => {
                flush(&mut field, &mut out);
                out.push('_');
            }
            b'\r' => {
                flush(&mut field, &mut out);
                out.push_str("<CR>");
            }
            b'\n' => {
                flush(&mut field, &mut out);
                out.push_str("<LF>");
            }
            _ => field.push(b),
        }
        if out.len() > 120 {
            break;
        }
        fields += 1;
    }
    let _ = fields;
    flush(&mut field, &mut out);
    if first_cr(input).is_none() && input.len() >= MAX_LINE {
        out.push_str("<107+nocr>");
    }
    out
}
