#!/bin/sh
# tools/mutant_eval.sh <dir with patch.diff [demo.rs]> [ID ...]   (default: all 20 checks)
# Confirms a seeded change on scratch copies (never /repo): patch applies, the 73 unit tests pass with it,
# the demonstration passes without it and fails with it; then runs the quick tier of the checks against
# the changed copy. Prints "EVAL ..." lines; removes the scratch directory.
set -u
D=$(readlink -f "$1"); shift
IDS="${*:-C01 C02 C03 C04 C05 C06 C07 C08 C09 C10 C11 C12 C13 C14 C15 C16 C17 C18 C19 C20}"
P=$(basename $(dirname $D)); [ "$P" = "_out" ] && P=$(basename $(dirname $(dirname $D))); NAME="$P/$(basename $D)"
W=$(mktemp -d /tmp/mut.XXXXXX)
trap '[ "${MUT_KEEP:-0}" = 1 ] || rm -rf "$W"' EXIT
export CARGO_NET_OFFLINE=true
mkdir -p "$W/clean" "$W/mut" "$W/vd"
git -C /repo archive HEAD | tar -x -C "$W/clean"; git -C /repo archive HEAD | tar -x -C "$W/mut"
(cd "$W/mut" && git init -q . && git apply --whitespace=nowarn "$D/patch.diff") || { echo "EVAL $NAME apply=FAILED"; exit 2; }
# reuse compiled third-party crates
cp -r /repo/target "$W/rt" 2>/dev/null; cp -r /repo/target "$W/rtc" 2>/dev/null   # separate target dirs: cargo would treat the two copies as one package
cp -r /verif/harness/target "$W/ht" 2>/dev/null
DEMO_CLEAN=n/a; DEMO_MUT=n/a
if [ -f "$D/demo.rs" ]; then
  mkdir -p "$W/clean/tests" "$W/mut/tests"; cp "$D/demo.rs" "$W/clean/tests/demo.rs"; cp "$D/demo.rs" "$W/mut/tests/demo.rs"
  if (cd "$W/clean" && CARGO_TARGET_DIR="$W/rtc" cargo test --offline --test demo >"$W/demo_clean.log" 2>&1); then DEMO_CLEAN=pass; else DEMO_CLEAN=FAIL; fi
  rm -rf "$W/rtc"
fi
if (cd "$W/mut" && CARGO_TARGET_DIR="$W/rt" cargo test --offline --lib >"$W/test.log" 2>&1); then
  TESTS=$(grep -E "^test result" "$W/test.log" | head -1 | sed 's/test result: //; s/;.*//')
else
  TESTS="FAILED $(grep -E "^test result|^error" "$W/test.log" | head -1)"
fi
if [ -f "$D/demo.rs" ]; then
  if (cd "$W/mut" && CARGO_TARGET_DIR="$W/rt" cargo test --offline --test demo >"$W/demo_mut.log" 2>&1); then DEMO_MUT=pass; else
    if grep -q "^test result: FAILED" "$W/demo_mut.log"; then DEMO_MUT=fail
    elif grep -q -E "signal: [0-9]+|SIGABRT|SIGSEGV|non-unwinding panic|has overflowed its stack|memory allocation of" "$W/demo_mut.log"; then DEMO_MUT="fail(process-abort)"
    else DEMO_MUT="builderror"; fi; fi
fi
if (cd "$W/mut" && CARGO_TARGET_DIR="$W/rt" cargo test --offline --doc >"$W/doc.log" 2>&1); then DOC=pass; else DOC=fail; fi
echo "EVAL $NAME unit_tests=[$TESTS] doctests=$DOC demo_without_change=$DEMO_CLEAN demo_with_change=$DEMO_MUT"
rsync -a --exclude target /verif/harness/ "$W/harness/"
sed -i "s#path = \"/repo\"#path = \"$W/mut\"#" "$W/harness/Cargo.toml"
cp /verif/KNOWN_FINDINGS.txt "$W/vd/"; cp -r /verif/regress "$W/vd/" 2>/dev/null
if ! (cd "$W/harness" && CARGO_TARGET_DIR="$W/ht" cargo build --release --quiet >"$W/build.log" 2>&1); then
  echo "EVAL $NAME harness_build=FAILED"; tail -20 "$W/build.log"; exit 2
fi
CHK=""
case " $IDS " in *" C03 "*|*" C07 "*|*" C09 "*|*" C10 "*|*" C13 "*|*" C20 "*) (cd "$W/harness" && CARGO_TARGET_DIR="$W/ht" cargo build --profile checked --quiet >>"$W/build.log" 2>&1) && CHK="$W/ht/checked/ppp-verif" ;; esac
CAUGHT=""; MISSED=""
# the change's own property check runs at the full quick budget; the other 19 at a fraction of it (MUT_OTHERS_SCALE,
# default 0.1: the cross table then shows what one tenth of the random stages already reports; exhaustive stages are
# not scaled). Set MUT_OTHERS_SCALE=1 for the full budget everywhere.
OWN=$(basename "$D" | cut -c1-3)
for ID in $IDS; do
  SCALE=1; [ "$ID" != "$OWN" ] && SCALE="${MUT_OTHERS_SCALE:-0.1}"
  out=$(VERIF_SCALE="$SCALE" VERIF_DIR="$W/vd" timeout 1500 "$W/ht/release/ppp-verif" "$ID" --tier "${MUT_TIER:-quick}" --no-evidence 2>/dev/null); rc=$?
  if [ "$ID" = C03 ] && [ -n "$CHK" ] && [ $rc = 0 ]; then
    out=$(VERIF_SCALE="$SCALE" VERIF_DIR="$W/vd" timeout 1500 "$CHK" "$ID" --tier "${MUT_TIER:-quick}" --no-evidence 2>/dev/null); rc=$?
  fi
  case "$ID" in C07|C09|C10|C13|C20)
    if [ -n "$CHK" ] && [ $rc = 0 ]; then
      CS=0.25; [ "$ID" != "$OWN" ] && CS=0.025
      out=$(VERIF_SCALE="$CS" VERIF_DIR="$W/vd" timeout 1500 "$CHK" "$ID" --tier "${MUT_TIER:-quick}" --no-evidence 2>/dev/null); rc=$?
    fi ;;
  esac
  case $rc in
    0) MISSED="$MISSED $ID" ;;
    1) CAUGHT="$CAUGHT $ID"; echo "EVAL $NAME caught_by=$ID $(echo "$out" | grep -m1 'sig=' | sed 's/^ *//')" ;;
    *) echo "EVAL $NAME check=$ID inconclusive rc=$rc" ;;
  esac
done
echo "EVAL $NAME SUMMARY caught_by=[$(echo $CAUGHT)] silent=[$(echo $MISSED)]"
