//! C11 — TLV iteration yields exactly the standard type-length-value walk and then stops.

use crate::engine::{fill, hex, CaseIo, Fail, Runner, Stats, Tape, Verdict};
use crate::gen;
use crate::imp;
use crate::oracle::tlv::{tlv_ref, Item};
use crate::oracle::v2::NEED;
use ppp::v2::{ParseError as E2, TypeLengthValues};
use std::sync::atomic::{AtomicBool, Ordering};

pub fn shape_tlv(section: &[u8]) -> String {
    let items = tlv_ref(section);
    let mut s = format!("n{}", items.len());
    for it in items.iter().take(6) {
        match it {
            Item::Ok { start, end, .. } => {
                let l = end - start;
                s.push_str(match l {
                    0 => ",ok0",
                    1..=255 => ",ok<256",
                    _ => ",ok>=256",
                })
            }
            Item::Short => s.push_str(",short"),
            Item::Overrun { .. } => s.push_str(",overrun"),
        }
    }
    s
}

/// Walk `it` against the reference for `section`. `section` must be the very slice the iterator
/// borrows from, so that value positions can be checked by pointer arithmetic.
pub fn walk<'a>(section: &'a [u8], mut it: TypeLengthValues<'a>, entry: &str) -> Verdict {
    let want = tlv_ref(section);
    let cap = section.len() / 3 + 2;
    let base = section.as_ptr() as usize;
    let fail = |what: &str, exp: String, obs: String| Err(Fail::new(what, shape_tlv(section), entry, exp, obs));
    for (i, w) in want.iter().enumerate() {
        let got = it.next();
        match (w, got) {
            (Item::Ok { kind, start, end }, Some(Ok(tlv))) => {
                if tlv.kind != *kind || tlv.value.as_ref() != &section[*start..*end] {
                    return fail(
                        "item-content",
                        format!("item {}: kind {} value = section[{}..{}]", i, kind, start, end),
                        format!("kind {} value of {} bytes {}", tlv.kind, tlv.value.len(), hex(&tlv.value[..tlv.value.len().min(16)])),
                    );
                }
                // position: borrowed values must be located where the walk says (tiling)
                if let std::borrow::Cow::Borrowed(v) = &tlv.value {
                    let off = (v.as_ptr() as usize).wrapping_sub(base);
                    if !v.is_empty() && off != *start {
                        return fail("item-position", format!("item {} value at offset {}", i, start), format!("offset {}", off));
                    }
                }
                if tlv.len() != end - start || tlv.is_empty() != (end == start) {
                    return fail("item-len", format!("len {}", end - start), format!("len {} is_empty {}", tlv.len(), tlv.is_empty()));
                }
            }
            (Item::Short, Some(Err(_))) => {}
            (Item::Overrun { kind, len }, Some(Err(E2::InvalidTLV(k, l)))) if k == *kind && l == *len => {}
            (w, got) => {
                return fail(
                    "item-mismatch",
                    format!("item {}: {:?}", i, w),
                    match got {
                        None => "iteration ended".to_string(),
                        Some(Ok(t)) => format!("Ok(kind {}, {} value bytes)", t.kind, t.value.len()),
                        Some(Err(e)) => format!("Err({:?})", e),
                    },
                )
            }
        }
        if i > cap {
            return fail("too-many-items", format!("at most {} items", cap), "more".into());
        }
    }
    for extra in 0..3 {
        if let Some(x) = it.next() {
            return fail(
                "item-after-end",
                format!("None after {} items (call {} after the end)", want.len(), extra + 1),
                match x {
                    Ok(t) => format!("Ok(kind {}, {} value bytes)", t.kind, t.value.len()),
                    Err(e) => format!("Err({:?})", e),
                },
            );
        }
    }
    // "then stops" holds for every handle on the finished walk: an explicit clone, a bitwise copy, and an iterator that takes
    // the finished one by value all stay finished
    #[allow(clippy::clone_on_copy)]
    for (how, mut again) in [("clone()", it.clone()), ("copy", it), ("into_iter()", it.into_iter())] {
        if let Some(x) = again.next() {
            return fail(
                "item-after-end",
                format!("None from a {} of the finished iterator ({} items had been yielded)", how, want.len()),
                match x {
                    Ok(t) => format!("Ok(kind {}, {} value bytes)", t.kind, t.value.len()),
                    Err(e) => format!("Err({:?})", e),
                },
            );
        }
        if again.count() != 0 {
            return fail("item-after-end", format!("count() == 0 on a {} of the finished iterator", how), "more".into());
        }
    }
    Ok(())
}

fn same_item(section: &[u8], w: &Item, got: Option<&Result<ppp::v2::TypeLengthValue<'_>, E2>>) -> bool {
    match (w, got) {
        (Item::Ok { kind, start, end }, Some(Ok(t))) => t.kind == *kind && t.value.as_ref() == &section[*start..*end],
        (Item::Short, Some(Err(_))) => true,
        (Item::Overrun { kind, len }, Some(Err(E2::InvalidTLV(k, l)))) => k == kind && l == len,
        _ => false,
    }
}

fn show_item(got: Option<&Result<ppp::v2::TypeLengthValue<'_>, E2>>) -> String {
    match got {
        None => "None".to_string(),
        Some(Ok(t)) => format!("Some(Ok(kind {}, {} value bytes))", t.kind, t.value.len()),
        Some(Err(e)) => format!("Some(Err({:?}))", e),
    }
}

/// The same sequence must come out however the iterator is driven: through `nth`, `skip`, `step_by`, `last`,
/// `count`, `fold`, `collect`, a clone taken half-way, and `size_hint` must never contradict it. (All of these
/// default to repeated `next()`; the check matters when a specialised method is added to the iterator.)
pub fn walk_adaptors<'a>(section: &'a [u8], mk: &dyn Fn() -> TypeLengthValues<'a>, entry: &str) -> Verdict {
    let want = tlv_ref(section);
    let n = want.len();
    if n > 48 {
        return Ok(());
    }
    let fail = |what: &str, exp: String, obs: String| Err(Fail::new(what, shape_tlv(section), entry, exp, obs));
    let cap = section.len() / 3 + 4;
    // size_hint never contradicts what is left; a clone taken half-way yields the same rest
    let mut it = mk();
    for i in 0..=n {
        let (lo, hi) = it.size_hint();
        let left = n - i;
        if lo > left || hi.map_or(false, |h| h < left) {
            return fail("size_hint", format!("bounds that contain the {} items left", left), format!("({}, {:?})", lo, hi));
        }
        if i == n / 2 {
            let rest: Vec<_> = it.clone().take(cap).collect();
            if rest.len() != left || rest.iter().enumerate().any(|(j, g)| !same_item(section, &want[i + j], Some(g))) {
                return fail("clone-midway", format!("a clone taken after {} items yields the remaining {}", i, left), format!("{} items", rest.len()));
            }
        }
        let _ = it.next();
    }
    // nth(k), then the item after it
    let mut ks: Vec<usize> = vec![0, 1, 2, 3, n.saturating_sub(1), n, n + 1, n + 5];
    ks.sort();
    ks.dedup();
    for &k in &ks {
        let mut it = mk();
        let got = it.nth(k);
        let ok = if k < n { same_item(section, &want[k], got.as_ref()) } else { got.is_none() };
        if !ok {
            return fail("nth", format!("nth({}) = {}", k, if k < n { format!("item {}: {:?}", k, want[k]) } else { format!("None ({} items in all)", n) }), show_item(got.as_ref()));
        }
        let after = it.next();
        let ok = if k + 1 < n { same_item(section, &want[k + 1], after.as_ref()) } else { after.is_none() };
        if !ok {
            return fail("next-after-nth", format!("after nth({}): {}", k, if k + 1 < n { format!("item {}", k + 1) } else { "None".to_string() }), show_item(after.as_ref()));
        }
    }
    // skip(k) / step_by(s): positions and counts
    for &k in &ks {
        let got: Vec<_> = mk().skip(k).take(cap).collect();
        let exp = n.saturating_sub(k);
        if got.len() != exp || got.iter().enumerate().any(|(i, g)| !same_item(section, &want[k + i], Some(g))) {
            return fail("skip", format!("skip({}) yields the {} items from {} on", k, exp, k), format!("{} items; first {}", got.len(), show_item(got.first())));
        }
    }
    for s in [2usize, 3] {
        let got: Vec<_> = mk().step_by(s).take(cap).collect();
        let exp: Vec<usize> = (0..n).step_by(s).collect();
        if got.len() != exp.len() || got.iter().zip(&exp).any(|(g, i)| !same_item(section, &want[*i], Some(g))) {
            return fail("step_by", format!("step_by({}) yields items {:?}", s, exp), format!("{} items; last {}", got.len(), show_item(got.last())));
        }
    }
    // count / last / fold / collect
    let c = mk().count();
    if c != n {
        return fail("count", format!("count() = {}", n), format!("{}", c));
    }
    let l = mk().last();
    let ok = if n == 0 { l.is_none() } else { same_item(section, &want[n - 1], l.as_ref()) };
    if !ok {
        return fail("last", format!("last() = {}", if n == 0 { "None".to_string() } else { format!("{:?}", want[n - 1]) }), show_item(l.as_ref()));
    }
    // the same consumers called directly (method syntax on the value, which an inherent method of the same name would
    // intercept) on an iterator that has already yielded k items: they describe what is LEFT, not the whole section
    let mut ks2: Vec<usize> = vec![1, n / 2, n.saturating_sub(1), n, n + 1];
    ks2.sort();
    ks2.dedup();
    for &k in &ks2 {
        let left = n.saturating_sub(k);
        let adv = || {
            let mut it = mk();
            for _ in 0..k {
                let _ = it.next();
            }
            it
        };
        let c = adv().count();
        if c != left {
            return fail("count-after-next", format!("after {} x next(): count() = {}", k, left), format!("{}", c));
        }
        let l = adv().last();
        let ok = if left == 0 { l.is_none() } else { same_item(section, &want[n - 1], l.as_ref()) };
        if !ok {
            return fail("last-after-next", format!("after {} x next(): last() = {}", k, if left == 0 { "None".to_string() } else { format!("{:?}", want[n - 1]) }), show_item(l.as_ref()));
        }
        let (lo, hi) = adv().size_hint();
        if lo > left || hi.map_or(false, |h| h < left) {
            return fail("size_hint-after-next", format!("after {} x next(): bounds that contain {}", k, left), format!("({}, {:?})", lo, hi));
        }
        let v: Vec<_> = adv().collect();
        let f = adv().fold(0usize, |a, _| a + 1);
        let mut fe = 0usize;
        adv().for_each(|_| fe += 1);
        let mut it = adv();
        let found = it.find(|_| false).is_some();
        let any = adv().any(|_| false);
        let all = adv().all(|_| true);
        let pos = adv().position(|_| false);
        let mx = adv().enumerate().map(|(i, _)| i).max();
        if v.len() != left || f != left || fe != left || found || any || !all || pos.is_some() || mx != left.checked_sub(1) || v.iter().enumerate().any(|(j, g)| !same_item(section, &want[k + j], Some(g))) {
            return fail(
                "consumers-after-next",
                format!("after {} x next(): the {} items left through collect / fold / for_each / find / any / all / position / max", k, left),
                format!("collect {}, fold {}, for_each {}, find {}, any {}, all {}, position {:?}, max index {:?}", v.len(), f, fe, found, any, all, pos, mx),
            );
        }
        let mut it = adv();
        let got = it.nth(1);
        let ok = if k + 1 < n { same_item(section, &want[k + 1], got.as_ref()) } else { got.is_none() };
        if !ok {
            return fail("nth-after-next", format!("after {} x next(): nth(1) = item {}", k, k + 1), show_item(got.as_ref()));
        }
    }
    let f = mk().fold(0usize, |a, _| a + 1);
    let v: Vec<_> = mk().collect();
    let mut fe = 0usize;
    mk().for_each(|_| fe += 1);
    if f != n || v.len() != n || fe != n {
        return fail("fold-collect", format!("{} items through fold, collect and for_each", n), format!("fold {}, collect {}, for_each {}", f, v.len(), fe));
    }
    Ok(())
}

fn classify(section: &[u8], st: &mut Stats) {
    let items = tlv_ref(section);
    let oks = items.iter().filter(|i| matches!(i, Item::Ok { .. })).count();
    let err = items.len() - oks;
    let big = items.iter().any(|i| matches!(i, Item::Ok { start, end, .. } if end - start >= 256));
    if oks >= 2 || (err > 0 && oks >= 1) || big {
        st.nontrivial(crate::engine::hash_bytes(section));
    }
    st.class(if err > 0 { "ends-in-error" } else if items.is_empty() { "empty" } else { "well-formed" });
    if big {
        st.class("value>=256");
    }
    if items.iter().any(|i| matches!(i, Item::Ok { start, end, .. } if end == start)) {
        st.class("zero-length-value");
    }
    st.sample(if err > 0 { "ends-in-error" } else { "well-formed" }, || format!("{} ({} bytes)", hex(&section[..section.len().min(32)]), section.len()));
}

/// Case: a byte slice as a TLV section.
pub fn judge_slice(section: &Vec<u8>, st: &mut Stats) -> Verdict {
    st.eval();
    classify(section, st);
    match crate::engine::guard(|| {
        walk(section, TypeLengthValues::from(&section[..]), "TypeLengthValues::from(&[u8])")?;
        walk_adaptors(section, &|| TypeLengthValues::from(&section[..]), "TypeLengthValues::from(&[u8])")
    }) {
        Ok(v) => v,
        // the walk demands concrete items here; a panic is none of them (and is C03's business as well)
        Err(p) => Err(Fail::new("panic-instead-of-items", shape_tlv(section), "TypeLengthValues::from(&[u8])", format!("the items {:?}", tlv_ref(section).iter().take(4).collect::<Vec<_>>()), format!("panic: {}", p))),
    }
}

/// Case: an accepted header; the section is the payload after the address block, taken from the raw input.
pub fn judge_header(x: &Vec<u8>, st: &mut Stats) -> Verdict {
    let got = imp::v2_parse(x);
    let h = match &got {
        Ok(Ok(h)) => h,
        _ => {
            // a candidate the reference accepts but the parser rejects is C02's to report (counted as discarded);
            // a near-miss that both reject is simply not a header
            if matches!(crate::oracle::v2::v2_ref(x), crate::oracle::v2::V2Ref::Accept { .. }) {
                st.discard();
            } else {
                st.class("near-miss-not-accepted");
            }
            return Ok(());
        }
    };
    st.eval();
    let l = ((x[14] as usize) << 8) | x[15] as usize;
    let fam = (x[13] >> 4) as usize;
    let start = 16 + if fam == 0 { l } else { NEED[fam] };
    let section = &x[start..16 + l];
    classify(section, st);
    st.class(&format!("header-fam{}", fam));
    // the borrowed header's views point into `x`, so positions are comparable
    match crate::engine::guard(|| {
        let it = h.tlvs();
        if it.as_bytes().as_ptr() != section.as_ptr() && !section.is_empty() {
            return Err(Fail::new(
                "section-position",
                shape_tlv(section),
                "Header::tlvs()",
                format!("section = input[{}..{}]", start, 16 + l),
                "a different slice".to_string(),
            ));
        }
        // `it` borrows from `h`, which borrows from `x`: re-slice so lifetimes line up
        let sec: &[u8] = it.as_bytes();
        walk(sec, h.tlvs(), "Header::tlvs()")?;
        // the adaptor-driven walks, on an iterator re-made from the very same slice
        walk_adaptors(sec, &|| h.tlvs(), "Header::tlvs()")?;
        if sec != section {
            return Err(Fail::new("section-content", shape_tlv(section), "Header::tlvs()", "section bytes of the raw input", "different bytes"));
        }
        // the TLV section of copies of the header (to_owned, and clone_from onto a longer owned header) is the same section
        let owned = h.to_owned();
        let mut long_bytes = crate::oracle::v2::SIG.to_vec();
        long_bytes.extend_from_slice(&[0x21, 0x31, 0x01, 0x2c]);
        long_bytes.extend(fill(0x51, 300));
        let mut slot = ppp::v2::Header::try_from(&long_bytes[..]).map(|l| l.to_owned()).unwrap_or_else(|_| h.to_owned());
        slot.clone_from(h);
        for (name, copy) in [("Header::to_owned().tlvs()", &owned), ("clone_from copy .tlvs()", &slot)] {
            let it = copy.tlvs();
            let cs: &[u8] = it.as_bytes();
            if cs != section {
                return Err(Fail::new("copy-section-content", shape_tlv(section), name, format!("the same {} section bytes", section.len()), format!("{} bytes", cs.len())));
            }
            walk(cs, copy.tlvs(), name)?;
        }
        Ok(())
    }) {
        Ok(v) => v,
        Err(p) => Err(Fail::new("panic-instead-of-items", shape_tlv(section), "Header::tlvs()", format!("the items {:?}", tlv_ref(section).iter().take(4).collect::<Vec<_>>()), format!("panic: {}", p))),
    }
}

fn gen_slice(t: &mut Tape) -> Vec<u8> {
    match t.weighted(&[8, 6, 4, 2, 2, 1, 2, 2]) {
        7 => {
            // whole items, then pipelined data on the item boundary (the next header's signature ...): see gen::gen_tlv_section
            gen::items_then_next_header(t, 600)
        }
        5 => {
            let mut s = if t.coin() { gen::enc_tlv_list(&gen::gen_tlv_list(t, 200)) } else { vec![] };
            s.extend(gen::deep_nested_tlv(t, 69_000));
            s
        }
        6 => {
            // one item's length written little-endian, the last item favoured (see gen::gen_tlv_section)
            let room = if t.chance(1, 8) { 70_000 } else { 600 };
            let list = gen::gen_tlv_list(t, room);
            let mut s = gen::enc_tlv_list(&list);
            if !list.is_empty() {
                let i = if t.chance(2, 3) { list.len() - 1 } else { t.below(list.len() as u32) as usize };
                let off: usize = list[..i].iter().map(|(_, v)| 3 + v.len()).sum();
                s.swap(off + 1, off + 2);
            }
            s
        }
        4 => {
            // a section that itself begins with (or is) a complete v2 header - read as TLVs it is type 0x0D with
            // length 0x0A0D - optionally padded so that this first "TLV" is complete, then more TLVs
            let mut s = gen::gen_v2_header(t).bytes;
            match t.below(4) {
                0 => {}
                1 => {
                    let want = 3 + 0x0A0D;
                    if s.len() < want {
                        let pad = want - s.len();
                        s.extend(fill(crate::engine::gen_seed(t), pad));
                    }
                    s.extend(gen::enc_tlv_list(&gen::gen_tlv_list(t, 64)));
                }
                2 => {
                    let mut pre = gen::enc_tlv_list(&gen::gen_tlv_list(t, 64));
                    pre.extend_from_slice(&s);
                    s = pre;
                }
                _ => {
                    let cut = t.below(s.len() as u32 + 1) as usize;
                    s.truncate(cut.max(12));
                }
            }
            s
        }
        0 => gen::enc_tlv_list(&gen::gen_tlv_list(t, 70_000)),
        1 => {
            let s = gen::enc_tlv_list(&gen::gen_tlv_list(t, 70_000));
            // truncation near item boundaries or anywhere
            let items = tlv_ref(&s);
            let mut cuts: Vec<usize> = vec![];
            for it in &items {
                if let Item::Ok { start, end, .. } = it {
                    for d in 0..=3usize {
                        cuts.push(start.saturating_sub(d));
                        cuts.push(end.saturating_sub(d));
                        cuts.push((end + d).min(s.len()));
                    }
                }
            }
            let cut = if cuts.is_empty() || t.chance(1, 4) { t.below(s.len() as u32 + 1) as usize } else { cuts[t.below(cuts.len() as u32) as usize] };
            s[..cut.min(s.len())].to_vec()
        }
        2 => {
            let n = t.usize_in(0, 64);
            t.bytes(n)
        }
        _ => {
            // long random-ish sections with small declared lengths so that many items occur
            let n = t.usize_in(1000, 70_000);
            let mut s = fill(crate::engine::gen_seed(t), n);
            let mask = *t.pick(&[0x00u8, 0x01, 0x03]);
            let mut i = 0;
            while i + 2 < s.len() {
                s[i + 1] &= mask;
                let l = ((s[i + 1] as usize) << 8) | s[i + 2] as usize;
                i += 3 + l;
            }
            s
        }
    }
}

/// Sections built around one item of type `kind` (stage `c11.types`).
fn type_shapes(kind: u8) -> Vec<Vec<u8>> {
    let mut out = Vec::new();
    for &len in &[0usize, 1, 2, 3, 4, 5, 8, 16, 20, 32, 128, 255, 256, 257, 258, 512, 513, 1280] {
        let value = fill(0x7100 + len as u32 + kind as u32, len);
        let be = (len as u16).to_be_bytes();
        let le = (len as u16).to_le_bytes();
        let mut cores: Vec<Vec<u8>> = Vec::new();
        let mk = |l: [u8; 2], v: &[u8]| {
            let mut s = vec![kind, l[0], l[1]];
            s.extend_from_slice(v);
            s
        };
        cores.push(mk(be, &value)); // exact
        if len > 0 {
            cores.push(mk(be, &value[..len - 1])); // one byte short
        }
        let mut longer = value.clone();
        longer.push(0x5a);
        cores.push(mk(be, &longer)); // one spare byte
        cores.push(mk(le, &value)); // little-endian length, value fits exactly
        cores.push(mk(le, &longer)); // little-endian length, one spare byte
        if len > 0 {
            cores.push(mk(le, &value[..len - 1]));
        }
        cores.push(vec![kind, be[0], be[1]]); // head only
        cores.push(vec![kind, le[0]]);
        cores.push(vec![kind]);
        for c in cores {
            let mut pre = vec![0x04, 0x00, 0x01, 0x00];
            pre.extend_from_slice(&c);
            let mut post = c.clone();
            post.extend_from_slice(&[0x01, 0x00, 0x02, b'h', b'2']);
            out.push(c);
            out.push(pre);
            out.push(post);
        }
    }
    out
}

const ALPHA: [u8; 6] = [0x00, 0x01, 0x02, 0x03, 0x04, 0xFF];

pub fn run(r: &mut Runner) -> &'static str {
    // where the walk demands items, a crash of the process (abort, stack overflow) or a stall is a failure of this
    // property too: journal the cases so that the supervisor can find the culprit (see engine: triage)
    r.journal = true;
    r.rule = "inputs: byte slices as TLV sections - ALL strings over {00,01,02,03,04,FF} up to a length bound, well-formed lists (value lengths 0,1,255..257,65535,random) with truncations \
              at and around every item boundary, random short and long sections - and the TLV sections of accepted headers; oracle: the textbook walk R-TLV item by item \
              (kind, value bytes, value POSITION in the borrowed slice, one error item of the right kind, then None three more times). \
              non-trivial = at least 2 items, or an error after at least 1 item, or a value of >= 256 bytes; distinct by SipHash of the section Added later: the walk driven through nth / skip / step_by / count / last / fold / collect / clones with size_hint checked first, sections that begin with a nested v2 header, sections of copies (to_owned, clone_from), reused read buffer."
        .into();
    let n = r.n(200_000, 3_000_000);
    r.random("c11.slices", n, 160, &gen_slice, &|x: &Vec<u8>, st: &mut Stats| crate::engine::in_arena(x, |v| judge_slice(v, st)));
    // chains: a section, then sections one small edit away (same length, same address in the reused read buffer)
    let n = r.n(40_000, 800_000);
    r.random("c11.chains", n, 260, &|t| gen::gen_chain(t, &gen_slice), &|c: &crate::engine::Chain, st: &mut Stats| {
        for x in &c.0 {
            crate::engine::in_arena(x, |v| judge_slice(v, st))?;
        }
        Ok(())
    });
    let n = r.n(100_000, 2_000_000);
    r.random("c11.headers", n, 200, &crate::props::c14::gen_case, &|x: &Vec<u8>, st: &mut Stats| crate::engine::in_arena(x, |v| judge_header(v, st)));

    let maxlen: u32 = if r.quick() { 7 } else { 9 };
    let work = |shard: usize, nshards: usize, st: &mut Stats, stop: &AtomicBool| -> Option<(Vec<u8>, Fail)> {
        for len in 0..=maxlen {
            let total = 6u64.pow(len);
            let mut idx = shard as u64;
            while idx < total {
                if idx % 8192 < nshards as u64 && stop.load(Ordering::Relaxed) {
                    return None;
                }
                let mut v = Vec::with_capacity(len as usize);
                let mut k = idx;
                for _ in 0..len {
                    v.push(ALPHA[(k % 6) as usize]);
                    k /= 6;
                }
                if let Err(f) = judge_slice(&v, st) {
                    return Some((v, f));
                }
                idx += nshards as u64;
            }
        }
        None
    };
    let space = format!("all byte strings over {{00,01,02,03,04,FF}} of length 0..={}", maxlen);
    r.bulk("c11.alphabet", Some(&space), &work, &judge_slice);

    // every type byte x a fixed list of section shapes: a rule that depends on the type code (a vendor's code, a range of
    // codes) meets every shape - complete, one byte short / long, length written little-endian and fitting exactly, ...
    let work_types = |shard: usize, nshards: usize, st: &mut Stats, stop: &AtomicBool| -> Option<(Vec<u8>, Fail)> {
        for kind in (shard..256).step_by(nshards) {
            if stop.load(Ordering::Relaxed) {
                return None;
            }
            for v in type_shapes(kind as u8) {
                if let Err(f) = judge_slice(&v, st) {
                    return Some((v, f));
                }
            }
        }
        None
    };
    r.bulk("c11.types", Some("all 256 type bytes x 18 value lengths x 9 section shapes (exact, one byte short, one byte long, little-endian length that fits exactly / with a spare byte, header only) x {alone, behind a NOOP item, followed by an item}"), &work_types, &judge_slice);
    "exploration"
}
