#!/usr/bin/env python3
"""tools/design_table.py : rewrite the block between <!-- SEEDED-TABLE-BEGIN --> and <!-- SEEDED-TABLE-END --> in DESIGN.md
from seeded/*/meta.json and seeded/BEFORE_*.txt (per-wave summary + compact catch table)."""
import json, glob, os, re
root = os.path.join(os.path.dirname(os.path.abspath(__file__)), "..")
before = {}
for f in glob.glob(os.path.join(root, "seeded", "BEFORE_*.txt")):
    for line in open(f):
        m = re.match(r"BEFORE (\S+) own=(\S+) harness=(\S+) verdict=(\S+)", line)
        if m:
            before[m.group(1)] = (m.group(4), m.group(3))
waves = {"a": 1, "b": 1, "c": 2, "d": 2, "e": 3, "f": 3, "g": 4, "h": 4, "i": 5, "j": 5, "k": 6, "l": 6, "m": 7, "n": 7, "o": 8, "p": 8, "q": 9, "r": 9, "s": 10, "t": 10, "u": 11, "v": 11, "w": 12, "x": 12, "y": 13, "z": 13, "0": 14, "1": 14, "2": 15, "3": 15, "4": 16, "5": 16, "6": 17, "7": 17, "8": 18, "9": 18}
rows = []
for d in sorted(glob.glob(os.path.join(root, "seeded", "C???", ""))):
    name = os.path.basename(d.rstrip("/"))
    try:
        meta = json.load(open(os.path.join(d, "meta.json")))
    except Exception:
        continue
    rows.append((name, waves.get(name[3], 0), meta))
out = []
out.append("| wave | changes | own check reported it when first evaluated (harness of the time) | own check reports it now | reported by no check now |")
out.append("|---|---|---|---|---|")
for w in range(1, 19):
    rs = [r for r in rows if r[1] == w]
    if not rs:
        continue
    now = sum(1 for r in rs if r[2].get("caught_by_own_property_check"))
    none = [r[0] for r in rs if not r[2].get("checks_that_catch_it")]
    if w <= 2:
        first = "36 of 40 (wave 1), 40 of 40 (wave 2, after the generators had been strengthened from the descriptions)" if w == 1 else "see wave 1"
    else:
        b = [before.get(r[0], ("?", ""))[0] for r in rs]
        first = "%d of %d" % (sum(1 for x in b if x == "CAUGHT"), len(rs)) if any(x != "?" for x in b) else "not measured separately (evaluated with the round-5 harness)"
    out.append("| %d | %d | %s | %d of %d | %s |" % (w, len(rs), first, now, len(rs), ", ".join(none) if none else "-"))
out.append("")
out.append("| change | breaks | first evaluation (own check) | checks that report a VIOLATION now (own check at the full quick budget, the others at one tenth) |")
out.append("|---|---|---|---|")
for name, w, meta in rows:
    b = before.get(name)
    first = {None: "wave %d" % w}.get(b, None) if b is None else ("caught" if b[0] == "CAUGHT" else b[0])
    own = meta.get("property_broken", name[:3])
    caught = meta.get("checks_that_catch_it", [])
    shown = " ".join(("**%s**" % c) if c == own else c for c in caught) or "none"
    out.append("| %s | %s | %s | %s |" % (name, own, first, shown))
block = "\n".join(out)
p = os.path.join(root, "DESIGN.md")
s = open(p).read()
a, bnd = "<!-- SEEDED-TABLE-BEGIN -->", "<!-- SEEDED-TABLE-END -->"
if a in s and bnd in s:
    s = s[: s.index(a) + len(a)] + "\n" + block + "\n" + s[s.index(bnd):]
    open(p, "w").write(s)
    print("DESIGN.md table rewritten:", len(rows), "rows")
else:
    print(block)
