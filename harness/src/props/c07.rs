//! C07 — the v2 builder emits the specified wire format and its output parses back unchanged.

use crate::bld::{self, TYPES};
use crate::engine::{fill, CaseIo, Fail, Runner, Stats, Tape, Verdict};
use crate::imp;
use crate::oracle::enc;
use crate::oracle::v2::{RefAddr2, NEED};
use ppp::v2::{AddressFamily, Builder, Command, Protocol, TypeLengthValue, Version};
use serde_json::json;

#[derive(Clone, Debug)]
pub struct Tlv {
    /// index into the named types, or None for a raw kind byte
    pub named: Option<usize>,
    pub kind: u8,
    pub len: usize,
    pub seed: u32,
}

#[derive(Clone, Debug)]
pub struct Case {
    pub cmd: u8,
    pub proto: u8,
    pub addr: RefAddr2,
    pub tlvs: Vec<Tlv>,
    pub route: u8,
}

impl CaseIo for Case {
    fn to_json(&self) -> serde_json::Value {
        json!({"cmd": self.cmd, "proto": self.proto, "route": self.route,
               "addresses": bld::Val::Addr(self.addr.clone()).to_json(),
               "tlvs": self.tlvs.iter().map(|t| json!({"named": t.named, "kind": t.kind, "len": t.len, "seed": t.seed})).collect::<Vec<_>>()})
    }
    fn from_json(v: &serde_json::Value) -> Option<Self> {
        let addr = match bld::Val::from_json(v.get("addresses")?)? {
            bld::Val::Addr(a) => a,
            _ => return None,
        };
        let tlvs: Option<Vec<Tlv>> = v
            .get("tlvs")?
            .as_array()?
            .iter()
            .map(|t| {
                Some(Tlv {
                    named: t.get("named").and_then(|n| n.as_u64()).map(|n| n as usize),
                    kind: t.get("kind")?.as_u64()? as u8,
                    len: t.get("len")?.as_u64()? as usize,
                    seed: t.get("seed")?.as_u64()? as u32,
                })
            })
            .collect();
        Some(Case { cmd: v.get("cmd")?.as_u64()? as u8, proto: v.get("proto")?.as_u64()? as u8, addr, tlvs: tlvs?, route: v.get("route")?.as_u64()? as u8 })
    }
    fn simpler(&self) -> Vec<Self> {
        let mut out = Vec::new();
        for i in 0..self.tlvs.len() {
            let mut c = self.clone();
            c.tlvs.remove(i);
            out.push(c);
            if self.tlvs[i].len > 0 {
                let mut c = self.clone();
                c.tlvs[i].len /= 2;
                out.push(c);
            }
        }
        if self.addr != RefAddr2::Unspec {
            out.push(Case { addr: RefAddr2::Unspec, ..self.clone() });
        }
        if self.route != 0 {
            out.push(Case { route: 0, ..self.clone() });
        }
        out
    }
}

fn shape(c: &Case) -> String {
    let total: usize = NEED[enc::family_code(&c.addr) as usize] + c.tlvs.iter().map(|t| 3 + t.len).sum::<usize>();
    format!(
        "route{},fam{},tlvs{}{}{}{}",
        c.route,
        enc::family_code(&c.addr),
        c.tlvs.len().min(3),
        if c.tlvs.iter().any(|t| t.named.is_some()) { ",named" } else { "" },
        if c.tlvs.iter().any(|t| t.len > 255) { ",value>255" } else { "" },
        if total == 65535 { ",total=65535" } else { "" }
    )
}

fn command_of(c: u8) -> Command {
    if c == 0 {
        Command::Local
    } else {
        Command::Proxy
    }
}

fn family_of(f: u8) -> AddressFamily {
    match f {
        0 => AddressFamily::Unspecified,
        1 => AddressFamily::IPv4,
        2 => AddressFamily::IPv6,
        _ => AddressFamily::Unix,
    }
}

/// `Builder::with_addresses` from the address value or - routes 10..=19, IPv4 / IPv6 only - from a pair of socket addresses
/// (flow label and scope id set: they are not part of the PROXY header and must not leak into it).
fn with_addr(c: &Case, vc: u8, proto: ppp::v2::Protocol, addr: ppp::v2::Addresses) -> Builder {
    use std::net::{SocketAddr, SocketAddrV4, SocketAddrV6};
    if c.route >= 10 {
        let scope = 1 + (c.tlvs.len() as u32 % 7) + ((c.cmd as u32) << 4);
        match addr {
            ppp::v2::Addresses::IPv4(a) => {
                return Builder::with_addresses(vc, proto, (SocketAddr::V4(SocketAddrV4::new(a.source_address, a.source_port)), SocketAddr::V4(SocketAddrV4::new(a.destination_address, a.destination_port))))
            }
            ppp::v2::Addresses::IPv6(a) => {
                return Builder::with_addresses(
                    vc,
                    proto,
                    (SocketAddr::V6(SocketAddrV6::new(a.source_address, a.source_port, 7, scope)), SocketAddr::V6(SocketAddrV6::new(a.destination_address, a.destination_port, 0, scope + (c.proto as u32 % 2)))),
                )
            }
            // no address: a pair of sockets of different families (one of them IPv4-mapped half of the time) is how a caller
            // with nothing but two socket addresses expresses "unspecified"
            ppp::v2::Addresses::Unspecified => {
                let v4 = SocketAddr::V4(SocketAddrV4::new(std::net::Ipv4Addr::new(192, 0, 2, 1 + c.proto), 1000 + c.tlvs.len() as u16));
                let ip6 = if c.tlvs.len() % 2 == 0 { std::net::Ipv4Addr::new(198, 51, 100, 7).to_ipv6_mapped() } else { std::net::Ipv6Addr::new(0x2001, 0xdb8, 0, 0, 0, 0, 0, 2) };
                let v6 = SocketAddr::V6(SocketAddrV6::new(ip6, 443, 0, scope));
                return if c.cmd == 0 { Builder::with_addresses(vc, proto, (v4, v6)) } else { Builder::with_addresses(vc, proto, (v6, v4)) };
            }
            _ => {}
        }
    }
    Builder::with_addresses(vc, proto, addr)
}

fn build(c: &Case, values: &[Vec<u8>]) -> std::io::Result<Vec<u8>> {
    let cmd = command_of(c.cmd);
    let proto = bld::protocol_of(c.proto);
    let fam = family_of(enc::family_code(&c.addr));
    let addr = imp::mk_addr2(&c.addr);
    match c.route % 10 {
        0 => {
            // with_addresses + write_tlv
            let mut b = with_addr(c, Version::Two | cmd, proto, addr);
            // for lists of odd length the caller assembles every value in ONE scratch buffer that it refills between the calls
            let mut scratch: Vec<u8> = Vec::with_capacity(values.iter().map(|v| v.len()).max().unwrap_or(0));
            let reuse = c.tlvs.len() % 2 == 1 || c.tlvs.len() == 2;
            for (t, v) in c.tlvs.iter().zip(values) {
                let v: &[u8] = if reuse {
                    scratch.clear();
                    scratch.extend_from_slice(v);
                    &scratch
                } else {
                    v
                };
                b = match t.named {
                    Some(i) => b.write_tlv(TYPES[i], v)?,
                    None => b.write_tlv(t.kind, v)?,
                };
            }
            b.build()
        }
        1 => {
            // new (control bytes via BitOr, operands in the other order) + addresses payload + TLV structs
            let mut b = Builder::new(cmd | Version::Two, fam | proto).write_payload(addr)?;
            if c.route >= 10 {
                // the TLV section encoded beforehand (by the harness) and handed over as one raw byte slice
                let mut section = Vec::new();
                for (t, v) in c.tlvs.iter().zip(values) {
                    let kind = t.named.map(|i| enc::TYPE_CODES[i].1).unwrap_or(t.kind);
                    section.extend(enc::enc_tlv(kind, v).expect("generator keeps values <= 65535"));
                }
                return b.write_payload(section.as_slice())?.build();
            }
            for (t, v) in c.tlvs.iter().zip(values) {
                let tlv = match t.named {
                    Some(i) => TypeLengthValue::new(TYPES[i], v),
                    None => TypeLengthValue::new(t.kind, v),
                };
                b = b.write_payload(tlv)?;
            }
            b.build()
        }
        2 => {
            // tuples
            let mut b = with_addr(c, cmd | Version::Two, proto, addr).reserve_capacity(64);
            for (t, v) in c.tlvs.iter().zip(values) {
                b = match t.named {
                    Some(i) => b.write_payload((TYPES[i], v.as_slice()))?,
                    None => b.write_payload((t.kind, v.as_slice()))?,
                };
            }
            b.build()
        }
        3 => {
            // batch of TLV structs
            let items: Vec<TypeLengthValue> = c
                .tlvs
                .iter()
                .zip(values)
                .map(|(t, v)| match t.named {
                    Some(i) => TypeLengthValue::from((TYPES[i], v.as_slice())),
                    None => TypeLengthValue::from((t.kind, v.as_slice())),
                })
                .collect();
            Builder::new(Version::Two | cmd, proto | fam).write_payload(&addr)?.write_payloads(items)?.build()
        }
        7 | 8 => {
            // a batch through an iterator that cannot tell how many items it holds (lower size hint 0): a filter, or the
            // TLVs of a header that has just been received, forwarded item by item
            let items: Vec<TypeLengthValue> = c
                .tlvs
                .iter()
                .zip(values)
                .map(|(t, v)| match t.named {
                    Some(i) => TypeLengthValue::new(TYPES[i], v),
                    None => TypeLengthValue::new(t.kind, v),
                })
                .collect();
            if c.route % 10 == 8 && enc::family_code(&c.addr) != 0 {
                let first = with_addr(c, Version::Two | cmd, proto, addr).write_payloads(items)?.build()?;
                let received = match ppp::v2::Header::try_from(first.as_slice()) {
                    Ok(h) => h,
                    Err(_) => return Ok(first), // judged below: the built header must parse
                };
                if c.tlvs.len() % 2 == 0 {
                    // the received TLV section handed on as it is (the iterator is a payload of its own)
                    // (for lists of 4, 8 .. TLVs after the forwarder has looked at the first one: the value still denotes the
                    // header's TLV section - same reading as in C10 / C20)
                    let mut section = received.tlvs();
                    if c.tlvs.len() % 4 == 0 && !c.tlvs.is_empty() {
                        let _ = section.next();
                    }
                    Builder::with_addresses(received.version | received.command, received.protocol, received.addresses).write_payload(section)?.build()
                } else {
                    Builder::with_addresses(received.version | received.command, received.protocol, received.addresses).write_payloads(received.tlvs().filter_map(Result::ok))?.build()
                }
            } else {
                with_addr(c, Version::Two | cmd, proto, addr).write_payloads(items.into_iter().filter(|_| true))?.build()
            }
        }
        9 => {
            // capacity hinted before every single TLV (its own size), after the first write as well
            let mut b = with_addr(c, Version::Two | cmd, proto, addr);
            // the size of the whole TLV section hinted up front - twice, as two layers of a caller may do - then each TLV's own
            let total: usize = values.iter().map(|v| 3 + v.len()).sum();
            b = b.reserve_capacity(total).reserve_capacity(total);
            for (t, v) in c.tlvs.iter().zip(values) {
                b = b.reserve_capacity(3 + v.len());
                b = match t.named {
                    Some(i) => b.write_tlv(TYPES[i], v)?,
                    None => b.write_tlv(t.kind, v)?,
                };
            }
            b.reserve_capacity(0).build()
        }
        5 => {
            // nothing but one batch after with_addresses
            let items: Vec<TypeLengthValue> = c
                .tlvs
                .iter()
                .zip(values)
                .map(|(t, v)| match t.named {
                    Some(i) => TypeLengthValue::new(TYPES[i], v),
                    None => TypeLengthValue::new(t.kind, v),
                })
                .collect();
            if c.tlvs.len() % 3 == 0 {
                // an optional batch that turned out empty comes first
                with_addr(c, Version::Two | cmd, proto, addr).write_payloads(std::iter::empty::<TypeLengthValue>())?.write_payloads(items.iter())?.build()
            } else {
                with_addr(c, Version::Two | cmd, proto, addr).write_payloads(items.iter())?.build()
            }
        }
        6 => {
            // new + two batches (addresses, then tuples), capacity reserved in between
            let items: Vec<(u8, &[u8])> = c.tlvs.iter().zip(values).map(|(t, v)| (t.named.map(|i| u8::from(TYPES[i])).unwrap_or(t.kind), v.as_slice())).collect();
            // (a length that was stated and then withdrawn is not in force)
            Builder::new(cmd | Version::Two, proto | fam).set_length(7u16).write_payloads([addr])?.reserve_capacity(100).set_length(None).write_payloads(items)?.build()
        }
        _ => {
            // batch of tuples, explicit (correct) length set up front
            let total: usize = NEED[enc::family_code(&c.addr) as usize] + c.tlvs.iter().map(|t| 3 + t.len).sum::<usize>();
            let items: Vec<(u8, &[u8])> = c.tlvs.iter().zip(values).map(|(t, v)| (t.named.map(|i| u8::from(TYPES[i])).unwrap_or(t.kind), v.as_slice())).collect();
            with_addr(c, Version::Two | cmd, proto, addr).set_length(total as u16).write_payloads(items)?.build()
        }
    }
}

pub fn judge(c: &Case, st: &mut Stats) -> Verdict {
    // one case in eight is preceded by unrelated calls that fail on this thread (state left behind by a failed batch
    // or a refused write must not leak into the next build)
    if st.evals % 8 == 0 {
        crate::bld::failing_calls_noise();
    }
    st.eval();
    let entry = "v2::Builder -> bytes -> v2::Header::try_from";
    let fam = enc::family_code(&c.addr);
    let values: Vec<Vec<u8>> = c.tlvs.iter().map(|t| bld::tlv_value(t.named.map(|i| enc::TYPE_CODES[i].1).unwrap_or(t.kind), t.seed, t.len)).collect();
    // reference encoding; named types carry their registered codes (literals in oracle/enc.rs)
    let mut payload = enc::enc_addr(&c.addr);
    let mut list: Vec<(u8, &[u8])> = Vec::new();
    for (t, v) in c.tlvs.iter().zip(&values) {
        let kind = match t.named {
            Some(i) => enc::TYPE_CODES[i].1,
            None => t.kind,
        };
        payload.extend(enc::enc_tlv(kind, v).expect("generator keeps values <= 65535"));
        list.push((kind, v));
    }
    let want = match enc::enc_header(0x20 | c.cmd, (fam << 4) | c.proto, &payload) {
        Some(w) => w,
        None => {
            st.discard();
            return Ok(());
        }
    };
    let cls = format!("fam{}", fam);
    st.class(&cls);
    if !c.tlvs.is_empty() || fam != 0 {
        st.nontrivial(c.digest());
    }
    if payload.len() == 65535 {
        st.class("total=65535");
    }
    if c.tlvs.iter().any(|t| t.len > 255) {
        st.class("value>255");
    }
    if c.tlvs.iter().any(|t| t.named.is_some()) {
        st.class("named-type");
    }
    st.class(&format!("route{}", c.route % 10));
    st.sample(&cls, || imp::short(&c.to_json().to_string()));
    let fail = |kind: &str, exp: String, obs: String| Err(Fail::new(kind, shape(c), entry, exp, obs));
    let built = match crate::engine::guard(|| build(c, &values)) {
        Ok(Ok(b)) => b,
        Ok(Err(e)) => return fail("build-fails", format!("Ok: {} payload bytes fit in 65535", payload.len()), format!("Err({:?})", e.kind())),
        Err(p) => return fail("build-panics", "Ok".into(), format!("panic: {}", p)),
    };
    if built != want {
        let at = built.iter().zip(want.iter()).position(|(a, b)| a != b).unwrap_or(built.len().min(want.len()));
        return fail(
            "wire-format",
            format!("{} bytes: {}...", want.len(), crate::engine::hex(&want[..want.len().min(40)])),
            format!("{} bytes, first difference at byte {}: {}...", built.len(), at, crate::engine::hex(&built[..built.len().min(40)])),
        );
    }
    // the same addresses and TLVs with another transport and the other command, built right afterwards: nothing of the
    // previous build may show (only bytes 12 and 13 differ)
    if want.len() <= 4096 && fam != 0 {
        let proto2 = (c.proto + 1) % 3;
        let cmd2 = 1 - c.cmd;
        let twin = crate::engine::guard(|| {
            let mut b = Builder::with_addresses(0x20 | cmd2, bld::protocol_of(proto2), imp::mk_addr2(&c.addr));
            for (k, v) in &list {
                b = b.write_tlv(*k, v)?;
            }
            b.build()
        });
        let mut want2 = want.clone();
        want2[12] = 0x20 | cmd2;
        want2[13] = (want2[13] & 0xF0) | proto2;
        match twin {
            Ok(Ok(b2)) if b2 == want2 => {}
            other => {
                return fail(
                    "wire-format-next-build",
                    format!("the same header with command {} and transport {}: bytes 12..14 = {:02x} {:02x}", cmd2, proto2, want2[12], want2[13]),
                    match other {
                        Ok(Ok(b2)) => format!("bytes 12..14 = {:02x} {:02x}, {} bytes", b2[12], b2[13], b2.len()),
                        Ok(Err(e)) => format!("Err({:?})", e.kind()),
                        Err(p) => format!("panic: {}", p),
                    },
                )
            }
        }
    }
    // parse back
    let parsed = imp::v2_parse(&built);
    let h = match &parsed {
        Ok(Ok(h)) => h,
        other => return fail("parse-back", "Ok".into(), imp::show(other)),
    };
    if h.command as u8 != c.cmd || h.protocol as u8 != c.proto || imp::addr2(&h.addresses) != c.addr || h.as_bytes() != &built[..] {
        return fail(
            "parse-back-fields",
            format!("command {}, transport {}, {}", c.cmd, c.proto, imp::short(&format!("{:?}", c.addr))),
            format!("{:?}, {:?}, {}", h.command, h.protocol, imp::short(&format!("{:?}", h.addresses))),
        );
    }
    // ... through the auto-detecting entry point as well (the route a server takes; also for the largest headers)
    match imp::auto(&built) {
        Ok(ppp::HeaderResult::V2(Ok(ha))) if ha.as_bytes() == &built[..] && imp::addr2(&ha.addresses) == c.addr => {}
        other => return fail("parse-back-auto", "V2(Ok) with the same header bytes and addresses".into(), imp::short(&format!("{:?}", other))),
    }
    if fam != 0 {
        // the TLV sequence gathered by internal iteration (fold / for_each) is the one next() yields
        if list.len() <= 64 {
            let folded = crate::engine::guard(|| h.tlvs().fold(Vec::new(), |mut acc, item| {
                acc.push(item.map(|t| (t.kind, t.value.to_vec())).map_err(|e| format!("{:?}", e)));
                acc
            }));
            let same = matches!(&folded, Ok(f) if f.len() == list.len() && f.iter().zip(&list).all(|(g, (k, v))| matches!(g, Ok((gk, gv)) if gk == k && gv.as_slice() == *v)));
            if !same {
                return fail("parse-back-tlvs-fold", format!("{} TLVs through fold", list.len()), imp::short(&format!("{:?}", folded.map(|f| f.iter().map(|g| g.as_ref().map(|(k, v)| (*k, v.len())).map_err(|e| e.clone())).collect::<Vec<_>>()))));
            }
        }
        let got: Vec<_> = match crate::engine::guard(|| h.tlvs().take(list.len() + 2).collect::<Vec<_>>()) {
            Ok(g) => g,
            Err(p) => return fail("parse-back-tlvs", "iteration returns".into(), format!("panic: {}", p)),
        };
        let same = got.len() == list.len() && got.iter().zip(&list).all(|(g, (k, v))| matches!(g, Ok(t) if t.kind == *k && t.value.as_ref() == *v));
        if !same {
            return fail(
                "parse-back-tlvs",
                format!("{} TLVs: {:?}", list.len(), list.iter().map(|(k, v)| (*k, v.len())).collect::<Vec<_>>()),
                format!("{} items: {:?}", got.len(), got.iter().map(|g| g.as_ref().map(|t| (t.kind, t.value.len())).map_err(|e| format!("{:?}", e))).collect::<Vec<_>>()),
            );
        }
        // the same sequence read in other orders of calls: the first item with next(), then every second one with nth(1)
        // on the SAME (already advanced) iterator; and item k through skip(k) on a fresh one
        if list.len() >= 2 && list.len() <= 40 {
            let strided = crate::engine::guard(|| {
                let mut it = h.tlvs();
                let mut out = vec![it.next()];
                for _ in 0..list.len() {
                    out.push(it.nth(1));
                }
                out
            });
            if let Ok(out) = strided {
                for (j, g) in out.iter().enumerate() {
                    let idx = 2 * j;
                    let ok = match (list.get(idx), g) {
                        (Some((k, v)), Some(Ok(t))) => t.kind == *k && t.value.as_ref() == *v,
                        (None, None) => true,
                        _ => false,
                    };
                    if !ok {
                        return fail("parse-back-tlvs-nth", format!("item {} of the list (or the end) from next() followed by nth(1) calls", idx), format!("{:?}", g.as_ref().map(|r| r.as_ref().map(|t| (t.kind, t.value.len())).map_err(|e| format!("{:?}", e)))));
                    }
                }
            } else {
                return fail("parse-back-tlvs-nth", "iteration returns".into(), "panic".into());
            }
            for (k2, (k, v)) in list.iter().enumerate().take(6) {
                match crate::engine::guard(|| h.tlvs().skip(k2).next()) {
                    Ok(Some(Ok(t))) if t.kind == *k && t.value.as_ref() == *v => {}
                    other => {
                        let shown = match other {
                            Ok(Some(Ok(t))) => format!("Ok(kind {}, {} value bytes)", t.kind, t.value.len()),
                            Ok(Some(Err(e))) => format!("Err({:?})", e),
                            Ok(None) => "None".to_string(),
                            Err(p) => format!("panic: {}", p),
                        };
                        return fail("parse-back-tlvs-skip", format!("item {} through skip({})", k2, k2), shown);
                    }
                }
            }
        }
    }
    Ok(())
}

pub fn gen_case(t: &mut Tape) -> Case {
    let addr = bld::gen_addr(t);
    let need = NEED[enc::family_code(&addr) as usize];
    let mut room = 65535 - need;
    let mut tlvs = Vec::new();
    let n = t.weighted(&[2, 3, 3, 2, 1, 1]);
    let exact = t.chance(1, 40);
    for i in 0..n {
        if room < 3 {
            break;
        }
        let named = if t.chance(1, 2) { Some(t.below(12) as usize) } else { None };
        let want = if exact && i + 1 == n {
            room - 3
        } else {
            match t.weighted(&[4, 4, 2, 1, 2, 1]) {
                0 => t.usize_in(0, 4),
                1 => t.usize_in(0, 60),
                2 => *t.pick(&[255usize, 256, 257, 1000]),
                3 => *t.pick(&[65535usize, 30000, 65532, 4096]),
                4 => t.usize_in(0, 600),
                _ => {
                    let p = 1usize << t.usize_in(2, 13);
                    p + t.usize_in(0, 4) - 2
                }
            }
        };
        let len = want.min(room - 3);
        room -= 3 + len;
        tlvs.push(Tlv { named, kind: t.byte(), len, seed: crate::engine::gen_seed(t) });
        // one time in six a sibling follows: same type, same length, other content (a list of certificates, of ALPN ids ...)
        if t.chance(1, 6) && room >= 3 + len && len > 0 {
            let last = tlvs[tlvs.len() - 1].clone();
            room -= 3 + len;
            tlvs.push(Tlv { seed: last.seed.wrapping_add(2) | 1, ..last });
        }
    }
    Case { cmd: t.below(2) as u8, proto: t.below(3) as u8, addr, tlvs, route: t.below(20) as u8 }
}

pub fn run(r: &mut Runner) -> &'static str {
    r.rule = "inputs: command x transport x address block of each family (random + special values) x TLV list (raw kind bytes and every named Type; value lengths 0..4, ..60, 255-257, 1000, 4096, 30000, \
              up to the room left; 1 in 40 lists fills the payload to exactly 65535) x 10 public build routes (batches through a filter, TLVs forwarded from a freshly parsed header, a capacity hint before every TLV, with_addresses+write_tlv, new+BitOr control bytes+TLV structs, tuples, batch of structs, \
              batch of tuples with explicit length, with_addresses + one batch only, new + two batches). oracle: reference encoder R-ENC byte for byte (registered type codes as literals), then parse-back: same command, transport, addresses, bytes and, \
              for a specified family, the same TLV sequence. non-trivial = at least one TLV or a specified family; distinct by SipHash Added later: grid of 22 type bytes x every value length x 5 content classes, the parsed TLV sequence also read with next()+nth(1) and skip(k)."
        .into();
    let n = r.n(100_000, 3_000_000);
    r.random("c07.build-parse", n, 160, &gen_case, &judge);
    // grid: every registered type and a few raw kind bytes x every value length in a range x 5 content classes
    // (random, all zero, all 0xFF, ASCII, signature-like), as the only TLV and behind a first TLV; families and routes rotate
    let top: usize = if r.quick() { 160 } else { 1400 };
    let grid = |shard: usize, nshards: usize, st: &mut Stats, stop: &std::sync::atomic::AtomicBool| -> Option<(Case, Fail)> {
        let addrs = [
            RefAddr2::Unspec,
            RefAddr2::V4 { src: [192, 0, 2, 1], dst: [198, 51, 100, 7], sport: 51234, dport: 443 },
            RefAddr2::V6 { src: 0x20010db8_00000000_00000000_00000001, dst: 0x20010db8_00000000_00000000_00000002, sport: 1, dport: 2 },
            RefAddr2::Unix { src: vec![b'/'; 108], dst: vec![0u8; 108] },
        ];
        let kinds: Vec<(Option<usize>, u8)> = (0..12).map(|i| (Some(i), 0u8)).chain([0x00u8, 0x03, 0x04, 0x06, 0x20, 0x26, 0x30, 0xE0, 0xEE, 0xFF].into_iter().map(|k| (None, k))).collect();
        let mut idx = 0usize;
        for len in 0..=top {
            if stop.load(std::sync::atomic::Ordering::Relaxed) {
                return None;
            }
            for (named, kind) in &kinds {
                for seed in [len as u32 * 2 + 1, 0, crate::engine::SEED_ONES, crate::engine::SEED_ASCII, crate::engine::SEED_CRLF, crate::engine::SEED_COUNTED, crate::engine::SEED_FQDN, crate::engine::SEED_HTTP] {
                    idx += 1;
                    if idx % nshards != shard {
                        continue;
                    }
                    let mut tlvs = vec![Tlv { named: *named, kind: *kind, len, seed }];
                    if idx % 3 == 0 {
                        tlvs.insert(0, Tlv { named: None, kind: 0x04, len: idx % 5, seed: 1 });
                    }
                    let c = Case { cmd: (idx % 2) as u8, proto: (idx % 3) as u8, addr: addrs[(idx / 60) % 4].clone(), tlvs, route: ((idx / 6) % 20) as u8 };
                    if let Err(f) = judge(&c, st) {
                        return Some((c, f));
                    }
                }
            }
        }
        None
    };
    let gspace = format!("12 registered types + 10 raw kind bytes x every value length 0..={} x 8 content classes (random, zeros, 0xFF, ASCII, signature-like, counted string, host name with root dot, HTTP text with CRLF pairs); family, command, transport and build route rotate", top);
    r.bulk("c07.grid", Some(&gspace), &grid, &judge);
    "exploration"
}
