#!/bin/sh
# tools/eval_pending.sh [parallelism] : evaluate every seeded/<id>/ that has a patch.diff but no eval.txt yet
cd "$(dirname "$0")/.." || exit 2
P="${1:-3}"
for d in seeded/C???; do [ -f "$d/patch.diff" ] && [ ! -f "$d/eval.txt" ] && echo "$d"; done | xargs -r -P "$P" -I{} sh -c 'tools/mutant_eval.sh {} > {}/eval.txt 2>&1'
