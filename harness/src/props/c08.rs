//! C08 — v1 formatting produces canonical lines that parse back to the same addresses.

use crate::engine::{esc, CaseIo, Fail, Runner, Stats, Tape, Verdict};
use crate::gen;
use crate::imp;
use crate::oracle::v1::{v1_ref, RefAddr, V1Ref};
use ppp::HeaderResult;
use serde_json::json;

#[derive(Clone, Debug)]
pub struct Case(pub RefAddr);

impl CaseIo for Case {
    fn to_json(&self) -> serde_json::Value {
        match &self.0 {
            RefAddr::Unknown => json!({"kind": "unknown"}),
            RefAddr::Tcp4 { src, dst, sport, dport } => json!({"kind": "tcp4", "src": src, "dst": dst, "sport": sport, "dport": dport}),
            RefAddr::Tcp6 { src, dst, sport, dport } => json!({"kind": "tcp6", "src": src, "dst": dst, "sport": sport, "dport": dport}),
        }
    }
    fn from_json(v: &serde_json::Value) -> Option<Self> {
        let nums = |v: &serde_json::Value| -> Option<Vec<u64>> { v.as_array()?.iter().map(|x| x.as_u64()).collect() };
        match v.get("kind")?.as_str()? {
            "unknown" => Some(Case(RefAddr::Unknown)),
            "tcp4" => {
                let (s, d) = (nums(v.get("src")?)?, nums(v.get("dst")?)?);
                let mut src = [0u8; 4];
                let mut dst = [0u8; 4];
                for i in 0..4 {
                    src[i] = *s.get(i)? as u8;
                    dst[i] = *d.get(i)? as u8;
                }
                Some(Case(RefAddr::Tcp4 { src, dst, sport: v.get("sport")?.as_u64()? as u16, dport: v.get("dport")?.as_u64()? as u16 }))
            }
            "tcp6" => {
                let (s, d) = (nums(v.get("src")?)?, nums(v.get("dst")?)?);
                let mut src = [0u16; 8];
                let mut dst = [0u16; 8];
                for i in 0..8 {
                    src[i] = *s.get(i)? as u16;
                    dst[i] = *d.get(i)? as u16;
                }
                Some(Case(RefAddr::Tcp6 { src, dst, sport: v.get("sport")?.as_u64()? as u16, dport: v.get("dport")?.as_u64()? as u16 }))
            }
            _ => None,
        }
    }
    fn simpler(&self) -> Vec<Self> {
        let mut out = Vec::new();
        match &self.0 {
            RefAddr::Tcp4 { src, dst, sport, dport } => {
                for i in 0..4 {
                    if src[i] != 0 {
                        let mut s = *src;
                        s[i] = 0;
                        out.push(Case(RefAddr::Tcp4 { src: s, dst: *dst, sport: *sport, dport: *dport }));
                    }
                    if dst[i] != 0 {
                        let mut d = *dst;
                        d[i] = 0;
                        out.push(Case(RefAddr::Tcp4 { src: *src, dst: d, sport: *sport, dport: *dport }));
                    }
                }
                if *sport != 0 {
                    out.push(Case(RefAddr::Tcp4 { src: *src, dst: *dst, sport: 0, dport: *dport }));
                }
                if *dport != 0 {
                    out.push(Case(RefAddr::Tcp4 { src: *src, dst: *dst, sport: *sport, dport: 0 }));
                }
            }
            RefAddr::Tcp6 { src, dst, sport, dport } => {
                for i in 0..8 {
                    if src[i] != 0 {
                        let mut s = *src;
                        s[i] = 0;
                        out.push(Case(RefAddr::Tcp6 { src: s, dst: *dst, sport: *sport, dport: *dport }));
                    }
                    if dst[i] != 0 {
                        let mut d = *dst;
                        d[i] = 0;
                        out.push(Case(RefAddr::Tcp6 { src: *src, dst: d, sport: *sport, dport: *dport }));
                    }
                }
                if *sport != 0 {
                    out.push(Case(RefAddr::Tcp6 { src: *src, dst: *dst, sport: 0, dport: *dport }));
                }
                if *dport != 0 {
                    out.push(Case(RefAddr::Tcp6 { src: *src, dst: *dst, sport: *sport, dport: 0 }));
                }
            }
            RefAddr::Unknown => {}
        }
        out
    }
}

fn shape(a: &RefAddr) -> String {
    match a {
        RefAddr::Unknown => "unknown".into(),
        RefAddr::Tcp4 { .. } => "tcp4".into(),
        RefAddr::Tcp6 { src, dst, .. } => {
            let z = |g: &[u16; 8]| g.iter().map(|v| if *v == 0 { '0' } else { 'x' }).collect::<String>();
            format!("tcp6:{}:{}", z(src), z(dst))
        }
    }
}

pub fn judge(c: &Case, st: &mut Stats) -> Verdict {
    st.eval();
    let a = &c.0;
    let entry = "v1::Addresses::to_string -> text entry points";
    let fail = |kind: &str, exp: String, obs: String| Err(Fail::new(kind, shape(a), entry, exp, obs));
    let lib = imp::mk_addr1(a);
    let s = match crate::engine::guard(|| lib.to_string()) {
        Ok(s) => s,
        Err(p) => return fail("format-panics", "a line".into(), format!("panic: {}", p)),
    };
    let cls = match a {
        RefAddr::Unknown => "unknown",
        RefAddr::Tcp4 { .. } => "tcp4",
        RefAddr::Tcp6 { .. } => "tcp6",
    };
    st.class(cls);
    st.sample(cls, || esc(s.as_bytes()));
    match a {
        RefAddr::Tcp4 { src, dst, sport, dport } if src != dst && sport != dport => st.nontrivial(c.digest()),
        RefAddr::Tcp6 { src, dst, sport, dport } if src != dst && sport != dport => {
            st.nontrivial(c.digest());
            if src.iter().chain(dst.iter()).any(|v| *v == 0) {
                st.class("tcp6-with-zero-groups");
            }
        }
        _ => {}
    }
    // the text is a well-formed line that the reference decodes to the same value
    match v1_ref(s.as_bytes()) {
        V1Ref::Accept { len, addr } if len == s.len() && addr == *a => {}
        other => return fail("not-a-wellformed-line", format!("a well-formed line of {} bytes decoding to {:?}", s.len(), a), format!("{:?} -> reference says {:?}", esc(s.as_bytes()), other)),
    }
    if s.len() > 107 {
        return fail("line-too-long", "at most 107 bytes".into(), format!("{} bytes", s.len()));
    }
    // IPv4 and port text is prescribed (plain decimal); the IPv6 spelling is not
    match a {
        RefAddr::Tcp4 { src, dst, sport, dport } => {
            let want = format!("PROXY TCP4 {} {} {} {}\r\n", gen::spell_v4(*src), gen::spell_v4(*dst), sport, dport);
            if s != want {
                return fail("canonical-text", format!("{:?}", want), format!("{:?}", s));
            }
        }
        RefAddr::Tcp6 { sport, dport, .. } => {
            let tail = format!(" {} {}\r\n", sport, dport);
            if !s.ends_with(&tail) || !s.starts_with("PROXY TCP6 ") {
                return fail("canonical-text", format!("PROXY TCP6 <a> <b>{:?}", tail), format!("{:?}", s));
            }
        }
        RefAddr::Unknown => {
            if s != "PROXY UNKNOWN\r\n" {
                return fail("canonical-text", "\"PROXY UNKNOWN\\r\\n\"".into(), format!("{:?}", s));
            }
        }
    }
    // "the text it formats to" is one text per value: after the same endpoints have arrived in ANOTHER legal spelling (all
    // eight groups written out in upper case with leading zeros) through every text entry point, the value still formats
    // to the line it formatted to before
    if let RefAddr::Tcp6 { src, dst, sport, dport } = a {
        let full = |g: &[u16; 8]| g.iter().map(|v| format!("{:04X}", v)).collect::<Vec<_>>().join(":");
        let other = format!("PROXY TCP6 {} {} {} {}\r\nGET / HTTP/1.1\r\n", full(src), full(dst), sport, dport);
        if other.find('\r').map_or(false, |p| p + 2 <= 107) {
            let _ = imp::v1_fromstr_addr(&other);
            let _ = imp::v1_fromstr_header(&other);
            let _ = imp::v1_str(&other);
            let _ = imp::v1_bytes(other.as_bytes());
            match crate::engine::guard(|| lib.to_string()) {
                Ok(again) if again == s => {}
                other_out => return fail("formats-differently-after-a-parse", format!("{:?} again", s), imp::short(&format!("{:?}", other_out))),
            }
        }
    }
    // formatting into a sink that runs out of room fails cleanly - only a prefix of the line has been written - and
    // leaves no trace: the value formats to the same line afterwards
    {
        use std::fmt::Write as _;
        struct Bounded {
            buf: String,
            cap: usize,
        }
        impl std::fmt::Write for Bounded {
            fn write_str(&mut self, x: &str) -> std::fmt::Result {
                if self.buf.len() + x.len() > self.cap {
                    return Err(std::fmt::Error);
                }
                self.buf.push_str(x);
                Ok(())
            }
        }
        for cap in [0usize, 12, s.len() / 2, s.len().saturating_sub(1)] {
            if cap >= s.len() {
                continue;
            }
            let mut sink = Bounded { buf: String::new(), cap };
            let r = crate::engine::guard(|| write!(sink, "{}", lib));
            match r {
                Ok(Err(_)) if s.starts_with(&sink.buf) => {}
                Ok(other) => return fail("format-into-full-sink", format!("Err with a prefix of the line written (room for {} of {} bytes)", cap, s.len()), format!("{:?}, wrote {:?}", other, sink.buf)),
                Err(p) => return fail("format-panics", "an error from the sink is passed on".into(), format!("panic: {}", p)),
            }
            match crate::engine::guard(|| lib.to_string()) {
                Ok(again) if again == s => {}
                Ok(again) => return fail("format-after-failed-write", format!("the same line {:?}", s), format!("{:?}", again)),
                Err(p) => return fail("format-panics", "a line".into(), format!("panic: {}", p)),
            }
        }
    }
    // a sink that panics in the middle of the line (a logger with a bug; the caller catches the panic and carries on): no
    // trace is left - this value and its neighbour format to their lines afterwards
    if c.digest() % 4 == 0 {
        use std::fmt::Write as _;
        struct Bomb {
            left: usize,
        }
        impl std::fmt::Write for Bomb {
            fn write_str(&mut self, x: &str) -> std::fmt::Result {
                if x.len() > self.left {
                    panic!("sink gave up");
                }
                self.left -= x.len();
                Ok(())
            }
        }
        for room in [0usize, s.len() / 2, s.len() - 1] {
            let mut sink = Bomb { left: room };
            let _ = crate::engine::guard(std::panic::AssertUnwindSafe(|| write!(sink, "{}", lib)));
            for _ in 0..2 {
                match crate::engine::guard(|| lib.to_string()) {
                    Ok(again) if again == s => {}
                    Ok(again) => return fail("format-after-panicking-sink", format!("the same line {:?}", s), format!("{:?}", again)),
                    Err(p) => return fail("format-panics", "a line (an earlier sink had panicked)".into(), format!("panic: {}", p)),
                }
            }
        }
    }
    // a sink that is itself a formatter of such values (a logging writer that tags every chunk it is handed with the line of
    // its own connection): the outer value and the inner one both come out as their lines
    {
        use std::fmt::Write as _;
        struct Tagging<'a> {
            inner: &'a ppp::v1::Addresses,
            tags: Vec<String>,
            out: String,
            depth: u8,
        }
        impl std::fmt::Write for Tagging<'_> {
            fn write_str(&mut self, x: &str) -> std::fmt::Result {
                if self.depth == 0 {
                    self.depth = 1;
                    let mut t = String::new();
                    let r = write!(t, "{}", self.inner);
                    self.depth = 0;
                    r?;
                    self.tags.push(t);
                }
                self.out.push_str(x);
                Ok(())
            }
        }
        let mut sink = Tagging { inner: &lib, tags: Vec::new(), out: String::new(), depth: 0 };
        match crate::engine::guard(std::panic::AssertUnwindSafe(|| write!(sink, "{}", lib))) {
            Ok(Ok(())) if sink.out == s && sink.tags.iter().all(|t| *t == s) => {}
            Ok(other) => return fail("format-into-formatting-sink", format!("the line {:?} outside and inside", s), format!("{:?}, wrote {:?}, tags {:?}", other, sink.out, sink.tags.first())),
            Err(p) => return fail("format-panics", "a line (the sink formats a value of the same type)".into(), format!("panic: {}", p)),
        }
    }
    // whatever options the caller's format spec carries (a width below the line length, sign, zero padding, alternate
    // form, left-aligned padding to a large width), the text is still a well-formed line for the same value. (Specs under
    // which a `Formatter::pad`-style implementation would legitimately cut or left-pad the line - precision, right
    // alignment wider than the line - are not used.)
    for (spec, text) in [
        ("{:8}", crate::engine::guard(|| format!("{:8}", lib))),
        ("{:+}", crate::engine::guard(|| format!("{:+}", lib))),
        ("{:06}", crate::engine::guard(|| format!("{:06}", lib))),
        ("{:#}", crate::engine::guard(|| format!("{:#}", lib))),
        ("{:<120}", crate::engine::guard(|| format!("{:<120}", lib))),
    ] {
        match text {
            Ok(t) => match v1_ref(t.as_bytes()) {
                V1Ref::Accept { addr, .. } if addr == *a => {}
                other => return fail("format-spec", format!("format!({:?}, value) is a well-formed line decoding to {:?}", spec, a), format!("{:?} -> reference says {:?}", esc(t.as_bytes()), other)),
            },
            Err(p) => return fail("format-panics", format!("format!({:?}, value) returns", spec), format!("panic: {}", p)),
        }
    }
    // every text entry point parses it back
    let r = imp::v1_str(&s);
    match &r {
        Ok(Ok(h)) if imp::addr1(&h.addresses) == *a && h.header == s => {}
        other => return fail("roundtrip:try_from(&str)", format!("Ok with {:?} and header text == the line", a), imp::short(&format!("{:?}", other))),
    }
    let r = imp::v1_bytes(s.as_bytes());
    match &r {
        Ok(Ok(h)) if imp::addr1(&h.addresses) == *a && h.header == s => {
            // a parsed header formats back to exactly the text it was parsed from
            if h.to_string() != s {
                return fail("header-display", format!("{:?}", s), format!("{:?}", h.to_string()));
            }
        }
        other => return fail("roundtrip:try_from(&[u8])", format!("Ok with {:?}", a), imp::short(&format!("{:?}", other))),
    }
    match imp::v1_fromstr_addr(&s) {
        Ok(Ok(b)) if imp::addr1(&b) == *a && b == lib => {}
        other => return fail("roundtrip:parse::<Addresses>", format!("Ok({:?})", a), imp::short(&format!("{:?}", other))),
    }
    match imp::v1_fromstr_header(&s) {
        Ok(Ok(h)) if imp::addr1(&h.addresses) == *a && h.header == s && h.to_string() == s => {}
        other => return fail("roundtrip:parse::<Header>", format!("Ok with {:?}", a), imp::short(&format!("{:?}", other))),
    }
    match imp::auto(s.as_bytes()) {
        Ok(HeaderResult::V1(Ok(h))) if imp::addr1(&h.addresses) == *a && h.header == s => {}
        other => return fail("roundtrip:HeaderResult::parse", format!("V1(Ok) with {:?}", a), imp::short(&format!("{:?}", other))),
    }
    // the line as it arrives on a connection - with the first bytes of the payload right behind it - parses back to the same
    // value and the same header text through every text entry point (what follows an accepted header does not matter)
    let d = c.digest();
    if d % 3 == 0 {
        // payloads: a request, multi-byte text, and - a chain of proxies - another v1 line (this very line, or a fixed one)
        let unit = ["GET / HTTP/1.1\r\nHost: example.org\r\n\r\n", "\u{65e5}\u{672c}\u{8a9e}\u{306e}\u{30c6}\u{30ad}\u{30b9}\u{30c8}", "\u{e9}", "\u{1f600}", "\u{20ac}uro ", s.as_str(), "PROXY TCP4 192.0.2.1 198.51.100.7 51234 443\r\n", "PROXY UNKNOWN\r\n"][(d / 3 % 8) as usize];
        let pad = if unit.starts_with("PROXY") { "" } else { &"abc"[..(d / 24 % 4) as usize] };
        let mut with = s.clone();
        with.push_str(pad);
        // half of the payloads are long (the buffer is far larger than any line), half are a single short unit (line plus
        // payload may stay below 107 bytes and end in CRLF themselves)
        if d / 96 % 2 == 0 {
            while with.len() < 260 {
                with.push_str(unit);
            }
        } else {
            with.push_str(unit);
        }
        let want_text = s.as_str();
        // the way it really arrives: the receiver has looked at the buffer before - when it ended in front of the CR, right
        // behind it, in the middle of the line - and was told to wait each time
        // (and a line of another connection that ended exactly where a line break of the payload lies has just been accepted)
        for lb in crate::props::c04::later_line_breaks(with.as_bytes(), s.len()) {
            if let Some(l) = crate::props::c04::line_ending_at(lb) {
                let _ = imp::v1_bytes(&l);
                if let Ok(ls) = std::str::from_utf8(&l) {
                    let _ = imp::v1_str(ls);
                }
            }
        }
        for cut in [s.len() / 2, s.len() - 2, s.len() - 1] {
            let _ = imp::v1_str(&with[..cut]);
            let _ = imp::v1_bytes(&with.as_bytes()[..cut]);
        }
        match imp::v1_str(&with) {
            Ok(Ok(h)) if imp::addr1(&h.addresses) == *a && h.header == want_text => {}
            other => return fail("roundtrip-with-payload:try_from(&str)", format!("Ok with {:?} and header text == the line", a), imp::short(&format!("{:?}", other))),
        }
        match imp::v1_bytes(with.as_bytes()) {
            Ok(Ok(h)) if imp::addr1(&h.addresses) == *a && h.header == want_text && h.to_string() == want_text => {}
            other => return fail("roundtrip-with-payload:try_from(&[u8])", format!("Ok with {:?} and header text == the line", a), imp::short(&format!("{:?}", other))),
        }
        // a completely filled read buffer of the usual sizes (4 KiB, 64 KiB, 128 KiB, one byte less / more): line first, payload
        // behind it. Few cases (the buffer is built and scanned four times).
        if d % 48 == 0 {
            let size = [4096usize, 65535, 65536, 65537, 131072, 65536 + s.len() / 2, 65536 + s.len() - 1, 65536 * 3][(d / 48 % 8) as usize];
            let mut big = String::with_capacity(size + 8);
            big.push_str(&s);
            while big.len() + unit.len() <= size {
                big.push_str(unit);
            }
            while big.len() < size {
                big.push('x');
            }
            match imp::v1_str(&big) {
                Ok(Ok(h)) if imp::addr1(&h.addresses) == *a && h.header == want_text => {}
                other => return fail("roundtrip-in-full-read-buffer:try_from(&str)", format!("Ok with {:?} and header text == the line ({} bytes given)", a, big.len()), imp::short(&format!("{:?}", other))),
            }
            match imp::v1_bytes(big.as_bytes()) {
                Ok(Ok(h)) if imp::addr1(&h.addresses) == *a && h.header == want_text => {}
                other => return fail("roundtrip-in-full-read-buffer:try_from(&[u8])", format!("Ok with {:?} and header text == the line ({} bytes given)", a, big.len()), imp::short(&format!("{:?}", other))),
            }
            match imp::v1_fromstr_addr(&big) {
                Ok(Ok(b)) if imp::addr1(&b) == *a => {}
                other => return fail("roundtrip-in-full-read-buffer:parse::<Addresses>", format!("Ok({:?}) ({} bytes given)", a, big.len()), imp::short(&format!("{:?}", other))),
            }
            match imp::auto(big.as_bytes()) {
                Ok(HeaderResult::V1(Ok(h))) if imp::addr1(&h.addresses) == *a && h.header == want_text => {}
                other => return fail("roundtrip-in-full-read-buffer:HeaderResult::parse", format!("V1(Ok) with {:?} ({} bytes given)", a, big.len()), imp::short(&format!("{:?}", other))),
            }
        }
        // the byte routes also with a payload that is not text (the start of a TLS handshake, a v2 header)
        let mut raw = s.as_bytes().to_vec();
        raw.extend_from_slice(if d / 192 % 2 == 0 { b"\x16\x03\x01\x02\x00\x01\x00\x01\xfc\x03\x03\x9a\xff" } else { b"\r\n\r\n\0\r\nQUIT\n\x21\x11\x00\x0c\xc0\x00\x02\x01\xc6\x33\x64\x07\xc8\x22\x01\xbb" });
        match imp::v1_bytes(&raw) {
            Ok(Ok(h)) if imp::addr1(&h.addresses) == *a && h.header == want_text && h.to_string() == want_text => {}
            other => return fail("roundtrip-with-binary-payload:try_from(&[u8])", format!("Ok with {:?} and header text == the line", a), imp::short(&format!("{:?}", other))),
        }
        match imp::auto(&raw) {
            Ok(HeaderResult::V1(Ok(h))) if imp::addr1(&h.addresses) == *a && h.header == want_text => {}
            other => return fail("roundtrip-with-binary-payload:HeaderResult::parse", format!("V1(Ok) with {:?}", a), imp::short(&format!("{:?}", other))),
        }
        match imp::v1_fromstr_header(&with) {
            Ok(Ok(h)) if imp::addr1(&h.addresses) == *a && h.header == want_text => {}
            other => return fail("roundtrip-with-payload:parse::<Header>", format!("Ok with {:?} and header text == the line", a), imp::short(&format!("{:?}", other))),
        }
        match imp::v1_fromstr_addr(&with) {
            Ok(Ok(b)) if imp::addr1(&b) == *a => {}
            other => return fail("roundtrip-with-payload:parse::<Addresses>", format!("Ok({:?})", a), imp::short(&format!("{:?}", other))),
        }
    }
    Ok(())
}

/// Second clause on arbitrary accepted lines: formatting the parsed header prints the text it came from.
pub fn judge_line(x: &Vec<u8>, st: &mut Stats) -> Verdict {
    let r = imp::v1_bytes(x);
    let h = match &r {
        Ok(Ok(h)) => h,
        _ => {
            if matches!(v1_ref(x), V1Ref::Accept { .. }) {
                st.discard();
            }
            return Ok(());
        }
    };
    st.eval();
    st.nontrivial(x.digest());
    st.class("parsed-line");
    let p = x.iter().position(|&b| b == b'\r').map(|p| p + 2).unwrap_or(x.len()).min(x.len());
    let text = match crate::engine::guard(|| h.to_string()) {
        Ok(t) => t,
        Err(_) => return Ok(()),
    };
    // the FromStr route must give the same text
    let mut from_str_text: Option<String> = None;
    if let Ok(sx) = std::str::from_utf8(x) {
        if let Ok(Ok(hs)) = imp::v1_fromstr_header(sx) {
            from_str_text = Some(hs.to_string());
            if hs.header.as_bytes() != &x[..p] {
                from_str_text = Some(hs.header.to_string());
            }
        }
    }
    if let Some(t2) = &from_str_text {
        if t2.as_bytes() != &x[..p] {
            return Err(Fail::new(
                "header-display:FromStr",
                crate::oracle::v1::shape(x),
                "str::parse::<v1::Header>().to_string()",
                format!("{:?}", esc(&x[..p])),
                format!("{:?}", esc(t2.as_bytes())),
            ));
        }
    }
    // a copy made with clone_from onto an owned header that holds the same value under another spelling (same length)
    // formats back to THIS header's text
    if let Ok(line) = std::str::from_utf8(&x[..p]) {
        let alt: String = line.char_indices().map(|(i, ch)| if i > 10 && ch.is_ascii_alphabetic() { if ch.is_ascii_lowercase() { ch.to_ascii_uppercase() } else { ch.to_ascii_lowercase() } } else { ch }).collect();
        if alt != line {
            if let Ok(Ok(other)) = imp::v1_str(&alt) {
                if other.addresses == h.addresses {
                    let mut slot = other.to_owned();
                    slot.clone_from(h);
                    let t3 = slot.to_string();
                    if t3.as_bytes() != &x[..p] {
                        return Err(Fail::new(
                            "header-display:clone_from-copy",
                            crate::oracle::v1::shape(x),
                            "clone_from onto an owned header with the same addresses, then to_string()",
                            format!("{:?}", esc(&x[..p])),
                            format!("{:?}", esc(t3.as_bytes())),
                        ));
                    }
                }
            }
        }
    }
    // the other routes that accept this input print the same text
    if let Ok(sx) = std::str::from_utf8(x) {
        if let Ok(Ok(hs)) = imp::v1_str(sx) {
            if let Ok(t) = crate::engine::guard(|| hs.to_string()) {
                if t.as_bytes() != &x[..p] {
                    return Err(Fail::new("header-display:try_from(&str)", crate::oracle::v1::shape(x), "v1::Header::try_from(&str) then to_string()", format!("{:?}", esc(&x[..p])), format!("{:?}", esc(t.as_bytes()))));
                }
            }
        }
    }
    if let Ok(HeaderResult::V1(Ok(ha))) = imp::auto(x) {
        if let Ok(t) = crate::engine::guard(|| ha.to_string()) {
            if t.as_bytes() != &x[..p] {
                return Err(Fail::new("header-display:HeaderResult::parse", crate::oracle::v1::shape(x), "HeaderResult::parse then to_string()", format!("{:?}", esc(&x[..p])), format!("{:?}", esc(t.as_bytes()))));
            }
        }
    }
    if text.as_bytes() != &x[..p] || h.header.as_bytes() != &x[..p] {
        return Err(Fail::new(
            "header-display",
            crate::oracle::v1::shape(x),
            "v1::Header::to_string",
            format!("{:?}", esc(&x[..p])),
            format!("to_string {:?}, header {:?}", esc(text.as_bytes()), esc(h.header.as_bytes())),
        ));
    }
    Ok(())
}

/// Two values whose lines are closely related (one component differs by a digit appended or dropped, or by one unit),
/// judged first, second, first again on one thread: what was formatted or parsed before must not matter.
#[derive(Clone, Debug)]
pub struct Related(pub Case, pub Case);

impl CaseIo for Related {
    fn to_json(&self) -> serde_json::Value {
        json!({"first": self.0.to_json(), "second": self.1.to_json()})
    }
    fn from_json(v: &serde_json::Value) -> Option<Self> {
        Some(Related(Case::from_json(v.get("first")?)?, Case::from_json(v.get("second")?)?))
    }
    fn simpler(&self) -> Vec<Self> {
        let mut out: Vec<Related> = self.0.simpler().into_iter().map(|a| Related(a, self.1.clone())).collect();
        out.extend(self.1.simpler().into_iter().map(|b| Related(self.0.clone(), b)));
        out
    }
}

pub fn judge_related(c: &Related, st: &mut Stats) -> Verdict {
    judge(&c.0, st)?;
    judge(&c.1, st)?;
    judge(&c.0, st)
}

fn tweak_port(t: &mut Tape, p: u16) -> u16 {
    match t.below(4) {
        0 => {
            let q = p as u32 * 10 + t.below(10);
            if q <= 65535 {
                q as u16
            } else {
                p / 10
            }
        }
        1 => p / 10,
        2 => p.wrapping_add(1),
        _ => p,
    }
}

pub fn gen_related(t: &mut Tape) -> Related {
    let a = gen_case(t);
    let b = match &a.0 {
        RefAddr::Unknown => gen_case(t).0,
        // the same 32-bit values in the other family: as IPv4-compatible (::a.b.c.d) or IPv4-mapped (::ffff:a.b.c.d) addresses
        RefAddr::Tcp4 { src, dst, sport, dport } if t.chance(1, 6) => {
            let w = |a: [u8; 4], mapped: bool| [0, 0, 0, 0, 0, if mapped { 0xffff } else { 0 }, u16::from_be_bytes([a[0], a[1]]), u16::from_be_bytes([a[2], a[3]])];
            let mapped = t.coin();
            RefAddr::Tcp6 { src: w(*src, mapped), dst: w(*dst, mapped), sport: *sport, dport: if t.coin() { *dport } else { tweak_port(t, *dport) } }
        }
        RefAddr::Tcp6 { src, dst, sport, dport } if t.chance(1, 8) => {
            let n = |g: [u16; 8]| [(g[6] >> 8) as u8, g[6] as u8, (g[7] >> 8) as u8, g[7] as u8];
            RefAddr::Tcp4 { src: n(*src), dst: n(*dst), sport: *sport, dport: *dport }
        }
        RefAddr::Tcp4 { src, dst, sport, dport } => {
            let (mut src, mut dst, mut sport, mut dport) = (*src, *dst, *sport, *dport);
            match t.below(5) {
                0 => dport = tweak_port(t, dport),
                1 => sport = tweak_port(t, sport),
                2 => dst[3] = if dst[3] < 25 { dst[3] * 10 + t.below(6) as u8 } else { dst[3] / 10 },
                3 => src[t.below(4) as usize] = t.byte(),
                _ => std::mem::swap(&mut src, &mut dst),
            }
            RefAddr::Tcp4 { src, dst, sport, dport }
        }
        RefAddr::Tcp6 { src, dst, sport, dport } => {
            let (mut src, mut dst, mut sport, mut dport) = (*src, *dst, *sport, *dport);
            match t.below(5) {
                0 => dport = tweak_port(t, dport),
                1 => sport = tweak_port(t, sport),
                2 => dst[7] = if dst[7] < 0x1000 { dst[7] * 16 + t.below(16) as u16 } else { dst[7] / 16 },
                3 => src[t.below(8) as usize] = t.u16(),
                _ => std::mem::swap(&mut src, &mut dst),
            }
            RefAddr::Tcp6 { src, dst, sport, dport }
        }
    };
    Related(a, Case(b))
}

pub fn gen_case(t: &mut Tape) -> Case {
    match t.weighted(&[1, 6, 8]) {
        0 => Case(RefAddr::Unknown),
        1 => {
            let (src, dst) = gen::gen_v4_pair(t);
            Case(RefAddr::Tcp4 { src, dst, sport: gen::gen_port(t), dport: gen::gen_port(t) })
        }
        _ => {
            let (src, dst) = gen::gen_v6_pair(t);
            Case(RefAddr::Tcp6 { src, dst, sport: gen::gen_port(t), dport: gen::gen_port(t) })
        }
    }
}

pub fn run(r: &mut Runner) -> &'static str {
    r.rule = "inputs: address values - Unknown, IPv4 pairs (random + 0.0.0.0 / 255.255.255.255 / loopback ...), IPv6 pairs (random, every one of the 256 zero-group masks so every `::` shape occurs, IPv4-mapped / compatible, \
              all-zero, all-ones) x ports {0,1,9,10,99,100,...,65535,random}; and, for the second clause, accepted lines in every spelling. oracle: round trip - to_string() is accepted by the reference grammar R-V1 with the same decode, \
              is <= 107 bytes, has the prescribed decimal IPv4 / port text (IPv6 spelling free), and try_from(&str), try_from(&[u8]), parse::<Addresses>, parse::<Header>, HeaderResult::parse all return the same value and text; a parsed \
              header prints exactly its input line. non-trivial = TCP4/TCP6 value with source != destination and differing ports (or any accepted line for clause 2); distinct by SipHash. Exhaustive sub-stage: all 256 x 256 zero-group mask pairs Added later: every port / octet / group value in every role, related values judged back to back, formatting into sinks that run out of room, option-carrying format specs, clone_from copies."
        .into();
    let n = r.n(300_000, 8_000_000);
    r.random("c08.roundtrip", n, 64, &gen_case, &judge);
    let n = r.n(100_000, 2_500_000);
    r.random("c08.related-values", n, 96, &gen_related, &judge_related);
    let n = r.n(100_000, 2_000_000);
    r.random("c08.header-display", n, 200, &|t| {
        // near-miss lines are judged only if some route accepts them: they matter exactly when a route accepts too much
        let mut x = if t.chance(1, 5) { gen::gen_v1_mutant(t).0 } else { gen::gen_valid_line(t, false) };
        if t.coin() {
            x.extend(gen::gen_trailer(t, false).0);
        }
        x
    }, &judge_line);
    // every pair of zero-group masks, with fixed non-zero groups elsewhere
    let work = |shard: usize, nshards: usize, st: &mut Stats, _stop: &std::sync::atomic::AtomicBool| -> Option<(Case, Fail)> {
        for m1 in 0..256usize {
            if m1 % nshards != shard {
                continue;
            }
            for m2 in 0..256usize {
                let mk = |m: usize, base: u16| {
                    let mut g = [0u16; 8];
                    for i in 0..8 {
                        if m & (1 << i) == 0 {
                            g[i] = base + (i as u16) * 0x111 + 1;
                        }
                    }
                    g
                };
                let c = Case(RefAddr::Tcp6 { src: mk(m1, 0x1000), dst: mk(m2, 0xa0), sport: (m1 * 251) as u16, dport: (m2 * 257 + 1) as u16 });
                if let Err(f) = judge(&c, st) {
                    return Some((c, f));
                }
            }
        }
        None
    };
    r.bulk("c08.zero-run-shapes", Some("all 256 x 256 pairs of IPv6 zero-group masks (every shape `::` compression can meet)"), &work, &judge);

    // single-component sweeps: every port value in each of the four port roles, every octet value in each of the eight
    // IPv4 octet roles, every group value in each of the sixteen IPv6 group roles (other components fixed, distinct)
    let full = !r.quick();
    let sweep = |shard: usize, nshards: usize, st: &mut Stats, stop: &std::sync::atomic::AtomicBool| -> Option<(Case, Fail)> {
        let mut idx = 0u64;
        let mut run = |c: &dyn Fn() -> Case, st: &mut Stats| -> Option<(Case, Fail)> {
            idx += 1;
            if idx % nshards as u64 != shard as u64 {
                return None;
            }
            let c = c();
            match judge(&c, st) {
                Err(f) => Some((c, f)),
                Ok(()) => None,
            }
        };
        let b4 = RefAddr::Tcp4 { src: [10, 20, 30, 40], dst: [50, 60, 70, 80], sport: 1111, dport: 2222 };
        let b6 = RefAddr::Tcp6 { src: [0x11, 0x222, 0x3333, 0x4, 0x55, 0x666, 0x7777, 0x8], dst: [0x99, 0xaaa, 0xbbbb, 0xc, 0xdd, 0xeee, 0xffff, 0x1], sport: 1111, dport: 2222 };
        for v in 0..=65535u16 {
            if v % 1024 == 0 && stop.load(std::sync::atomic::Ordering::Relaxed) {
                return None;
            }
            for role in 0..4 {
                let mk = || {
                    let mut a = if role < 2 { b4.clone() } else { b6.clone() };
                    match &mut a {
                        RefAddr::Tcp4 { sport, dport, .. } | RefAddr::Tcp6 { sport, dport, .. } => {
                            if role % 2 == 0 {
                                *sport = v
                            } else {
                                *dport = v
                            }
                        }
                        _ => {}
                    }
                    Case(a)
                };
                if let Some(f) = run(&mk, st) {
                    return Some(f);
                }
            }
        }
        for v in 0..=255u8 {
            for role in 0..8usize {
                let mk = || {
                    let mut a = b4.clone();
                    if let RefAddr::Tcp4 { src, dst, .. } = &mut a {
                        if role < 4 {
                            src[role] = v
                        } else {
                            dst[role - 4] = v
                        }
                    }
                    Case(a)
                };
                if let Some(f) = run(&mk, st) {
                    return Some(f);
                }
            }
        }
        let step: usize = if full { 1 } else { 5 };
        for role in 0..16usize {
            let mut v = role % step;
            while v <= 0xffff {
                if v % 1024 < step && stop.load(std::sync::atomic::Ordering::Relaxed) {
                    return None;
                }
                // in an otherwise non-zero address and in an otherwise all-zero one
                for zero_rest in [false, true] {
                    let mk = || {
                        let mut a = b6.clone();
                        if let RefAddr::Tcp6 { src, dst, .. } = &mut a {
                            if zero_rest {
                                if role < 8 {
                                    *src = [0; 8]
                                } else {
                                    *dst = [0; 8]
                                }
                            }
                            if role < 8 {
                                src[role] = v as u16
                            } else {
                                dst[role - 8] = v as u16
                            }
                        }
                        Case(a)
                    };
                    if let Some(f) = run(&mk, st) {
                        return Some(f);
                    }
                }
                v += step;
            }
        }
        None
    };
    let sspace = if full {
        "every port 0..=65535 in each of the 4 port roles (TCP4/TCP6 x source/destination); every octet 0..=255 in each of the 8 IPv4 octet roles; every group 0..=0xffff in each of the 16 IPv6 group roles, in an otherwise non-zero and in an otherwise all-zero address"
    } else {
        "every port 0..=65535 in each of the 4 port roles (TCP4/TCP6 x source/destination); every octet 0..=255 in each of the 8 IPv4 octet roles; every 5th group value 0..=0xffff in each of the 16 IPv6 group roles, in an otherwise non-zero and in an otherwise all-zero address"
    };
    r.bulk("c08.component-sweep", Some(sspace), &sweep, &judge);
    "exploration"
}
