#!/bin/sh
# MANIFEST.setup_cmd: offline build of the harness (two profiles) and, when present, the fuzz targets.
set -u
DIR=$(cd "$(dirname "$0")" && pwd)
export CARGO_NET_OFFLINE=true
cd "$DIR/harness" || exit 1
cargo build --release || exit 1
cargo build --profile checked || exit 1
if [ -d "$DIR/fuzz" ] && [ -f "$DIR/fuzz/Cargo.toml" ]; then
  (cd "$DIR/harness" && cargo +nightly fuzz build --fuzz-dir "$DIR/fuzz" >/dev/null 2>"$DIR/fuzz/build.log") || echo "note: fuzz targets did not build (thorough tier will report exit 2 for the fuzz stage); see fuzz/build.log" >&2
fi
echo "setup done"
