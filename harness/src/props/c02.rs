//! C02 — the v2 parser accepts exactly the well-formed headers and decodes them faithfully.

use crate::engine::{esc, fill, hex, CaseIo, Fail, Runner, Stats, Tape, Verdict};
use crate::gen;
use crate::imp;
use crate::oracle::v2::{v2_ref, V2Ref, NEED, SIG};
use std::sync::atomic::{AtomicBool, Ordering};

pub fn shape2(input: &[u8]) -> String {
    // structural signature of a v2 input: signature state, control bytes, length relation
    let n = input.len();
    let common = n.min(12);
    if input[..common] != SIG[..common] {
        return "bad-signature".into();
    }
    if n < 16 {
        return format!("short-{}", n);
    }
    let len = ((input[14] as usize) << 8) | input[15] as usize;
    let fam = (input[13] >> 4) as usize;
    let need = if fam < 4 { NEED[fam] as i64 } else { -1 };
    let rel = if n < 16 + len {
        "bytes<declared"
    } else if n == 16 + len {
        "bytes=declared"
    } else {
        "bytes>declared"
    };
    let lrel = if need < 0 {
        "fam?"
    } else if (len as i64) < need {
        "len<need"
    } else if len as i64 == need {
        "len=need"
    } else {
        "len>need"
    };
    format!("vc={:02x},afp={:02x},{},{}", input[12], input[13], lrel, rel)
}

pub fn judge(input: &Vec<u8>, st: &mut Stats) -> Verdict {
    judge_slice(input, st)?;
    // a well-formed v2 header is the same header through the auto-detecting entry point (the route a server uses)
    if let V2Ref::Accept { len, .. } = v2_ref(input) {
        match imp::auto(input) {
            Ok(ppp::HeaderResult::V2(Ok(h))) if h.header.len() == len && h.header.as_ref() == &input[..len] => {}
            Err(_) => {}
            Ok(other) => {
                return Err(Fail::new(
                    "auto-route-differs",
                    shape2(input),
                    "HeaderResult::parse",
                    format!("V2(Ok) with the first {} bytes as the header", len),
                    imp::short(&format!("{:?}", other)),
                ))
            }
        }
    } else if let Ok(ppp::HeaderResult::V2(Ok(h))) = imp::auto(input) {
        // ... and nothing else is a v2 header through that route either
        return Err(Fail::new(
            "auto-route-accepts",
            shape2(input),
            "HeaderResult::parse",
            format!("not V2(Ok): the input is not a well-formed v2 header ({})", imp::short(&format!("{:?}", v2_ref(input)))),
            format!("V2(Ok) with a header of {} bytes", h.header.len()),
        ));
    }
    Ok(())
}

pub fn judge_slice(input: &[u8], st: &mut Stats) -> Verdict {
    st.eval();
    let want = v2_ref(input);
    let got = imp::v2_parse(input);
    let entry = "v2::Header::try_from(&[u8])";
    match (&want, &got) {
        (V2Ref::Accept { len, cmd, proto, fam, addr }, Ok(Ok(h))) => {
            if !st.frozen {
                st.nontrivial(crate::engine::hash_bytes(input));
            }
            let c = format!("accept-fam{}", fam);
            st.class(&c);
            st.sample(&c, || if input.len() > 64 { format!("{}...({} bytes)", hex(&input[..64]), input.len()) } else { hex(input) });
            if *len == 16 + 65535 {
                st.class("accept-len65535");
            }
            if input.len() > *len {
                st.class("accept-with-trailer");
            }
            // a borrowed header is compared by position (pointer + length), which is both exact and O(1)
            let same_bytes = match &h.header {
                std::borrow::Cow::Borrowed(b) => b.as_ptr() == input.as_ptr() && b.len() == *len,
                std::borrow::Cow::Owned(v) => v.as_slice() == &input[..*len],
            };
            if !same_bytes {
                return Err(Fail::new(
                    "header-bytes",
                    shape2(input),
                    entry,
                    format!("header = first {} bytes of the input", len),
                    format!("header of {} bytes: {}", h.header.len(), esc(&h.header[..h.header.len().min(40)])),
                ));
            }
            let got_cmd = h.command as u8;
            let got_proto = h.protocol as u8;
            let got_addr = imp::addr2(&h.addresses);
            if h.version as u8 != 0x20 || got_cmd != *cmd || got_proto != *proto || got_addr != *addr {
                return Err(Fail::new(
                    "decode",
                    shape2(input),
                    entry,
                    format!("version 2, command {}, transport {}, {}", cmd, proto, imp::short(&format!("{:?}", addr))),
                    format!("{:?}, {:?}, {:?}, {}", h.version, h.command, h.protocol, imp::short(&format!("{:?}", got_addr))),
                ));
            }
            Ok(())
        }
        (V2Ref::Accept { len, .. }, Ok(Err(e))) => Err(Fail::new(
            "impl-rejects",
            shape2(input),
            entry,
            format!("Ok: well-formed header of {} bytes", len),
            format!("Err({:?})", e),
        )),
        (V2Ref::Accept { len, .. }, Err(p)) => Err(Fail::new(
            "impl-panics-on-valid",
            shape2(input),
            entry,
            format!("Ok: well-formed header of {} bytes", len),
            format!("panic: {}", p),
        )),
        (other, Ok(Ok(h))) => Err(Fail::new(
            "impl-accepts",
            shape2(input),
            entry,
            format!("Err(_): reference says {:?}", other),
            format!("Ok(len={}, {:?}, {:?}, {:?})", h.header.len(), h.command, h.protocol, h.addresses.address_family()),
        )),
        (other, _) => {
            let c = match other {
                V2Ref::Incomplete(_) => "reject-incomplete",
                V2Ref::Partial(..) => "reject-partial",
                V2Ref::Prefix => "reject-prefix",
                V2Ref::Version(_) => "reject-version",
                V2Ref::Command(_) => "reject-command",
                V2Ref::Family(_) => "reject-family",
                V2Ref::Protocol(_) => "reject-protocol",
                V2Ref::InvalidAddresses(..) => "reject-length-vs-family",
                V2Ref::Accept { .. } => unreachable!(),
            };
            st.class(c);
            if input.len() >= 12 && input[..12] == SIG {
                if !st.frozen {
                st.nontrivial(crate::engine::hash_bytes(input));
            }
                st.sample(c, || hex(&input[..input.len().min(48)]));
            }
            Ok(())
        }
    }
}

fn gen_case(t: &mut Tape) -> Vec<u8> {
    match t.weighted(&[5, 6, 1]) {
        0 => {
            let mut x = gen::gen_v2_header(t).bytes;
            if t.coin() {
                x.extend(gen::gen_trailer(t, false).0);
            }
            x
        }
        1 => gen::gen_v2_mutant(t).0,
        _ => gen::gen_random_bytes(t, 300),
    }
}

pub fn valid_vc(b: u8) -> bool {
    b == 0x20 || b == 0x21
}
pub fn valid_afp(b: u8) -> bool {
    (b >> 4) <= 3 && (b & 0x0F) <= 2
}

/// The lengths exercised for every control pair in the quick tier.
pub fn boundary_lengths(seed: u64) -> Vec<u16> {
    let mut v: Vec<u16> = vec![
        0, 1, 2, 3, 11, 12, 13, 15, 16, 17, 35, 36, 37, 100, 215, 216, 217, 218, 255, 256, 257, 511, 512, 1000, 4095, 4096, 16383, 16384, 32767, 32768,
        32769, 65279, 65280, 65534, 65535, 65519, 65520, 0x0c00, 0x2400, 0xd800, 0x000c, 0x0024, 0x00d8, 24, 48, 228,
    ];
    let extra = fill((seed as u32) | 1, 20);
    for c in extra.chunks(2) {
        v.push(u16::from_be_bytes([c[0], c[1]]));
    }
    v.sort();
    v.dedup();
    v
}

pub fn run(r: &mut Runner) -> &'static str {
    r.rule = "inputs: the v2 control space (both control bytes x declared length x bytes-present relation) by enumeration over a buffer of seed-derived \
              payload bytes, every corruption of every signature byte, random valid headers (+- trailer), near-miss mutants, random bytes; oracle: \
              table-driven reference R-V2 in both directions plus exact decode. non-trivial = inputs carrying the full 12-byte signature \
              (they pass the first gate); in the enumeration stage = cases whose control bytes have at most one invalid nibble (distinct by construction) Added later: all pairs and triples of wrong signature bytes, buffers of 64-192 KiB behind a header, chains and a reused read buffer at rotating (unaligned) offsets, the auto-detecting route for well-formed headers."
        .into();
    r.assumptions.push("R-V2 (harness/src/oracle/v2.rs) transcribes the statement of C02".into());

    let n = r.n(300_000, 6_000_000);
    r.random("c02.random", n, 200, &gen_case, &|x: &Vec<u8>, st: &mut Stats| crate::engine::in_arena(x, |v| judge(v, st)));

    // chains of related inputs judged back to back (history independence)
    let n = r.n(40_000, 1_000_000);
    r.random("c02.chains", n, 260, &|t| crate::gen::gen_chain(t, &gen_case), &|c: &crate::engine::Chain, st: &mut Stats| {
        // every member is parsed from this thread's reusable read buffer (same address, new contents)
        for x in &c.0 {
            crate::engine::in_arena(x, |v| judge(v, st))?;
        }
        Ok(())
    });

    // ---- the control space
    let quick = r.quick();
    let lens: Vec<u16> = if quick { boundary_lengths(r.seed) } else { (0..=65535u16).collect() };
    let seed = r.seed;
    let known = r.known_sigs();
    let work = |shard: usize, nshards: usize, st: &mut Stats, stop: &AtomicBool| -> Option<(Vec<u8>, Fail)> {
        let mut buf = SIG.to_vec();
        buf.extend_from_slice(&[0, 0, 0, 0]);
        buf.extend(fill((seed as u32).wrapping_mul(2654435761).wrapping_add(shard as u32) | 1, 65535 + 8));
        let mut local_nontrivial: u64 = 0;
        let mut evals: u64 = 0;
        let mut scratch = Stats { frozen: true, ..Stats::default() };
        // invalid control pairs are dealt round-robin to shards; for the 24 valid pairs every shard takes its share of the lengths
        let mut pair = 0u32;
        while pair < 65536 {
            if stop.load(Ordering::Relaxed) {
                return None;
            }
            let (b12, b13) = ((pair >> 8) as u8, pair as u8);
            let valid_pair = valid_vc(b12) && valid_afp(b13);
            if !valid_pair && pair as usize % nshards != shard {
                pair += 1;
                continue;
            }
            buf[12] = b12;
            buf[13] = b13;
            // number of invalid nibbles
            let bad = (b12 >> 4 != 2) as u32 + (b12 & 0x0F > 1) as u32 + (b13 >> 4 > 3) as u32 + (b13 & 0x0F > 2) as u32;
            // in the quick tier valid pairs get every length, the others the boundary list
            let all_lens: Vec<u16>;
            let these: &[u16] = if valid_pair && quick {
                all_lens = (0..=65535u16).collect();
                &all_lens
            } else {
                &lens
            };
            for &l in these {
                if valid_pair && l as usize % nshards != shard {
                    continue;
                }
                buf[14] = (l >> 8) as u8;
                buf[15] = l as u8;
                let full = 16 + l as usize;
                let views = [full, full.saturating_sub(1).max(16), full + 1, 16];
                for (vi, &n) in views.iter().enumerate() {
                    if vi == 1 && l == 0 {
                        continue;
                    }
                    if vi == 3 && l == 0 {
                        continue;
                    }
                    let input = &buf[..n];
                    evals += 1;
                    if bad <= 1 {
                        local_nontrivial += 1;
                    }
                    if valid_pair {
                        // full comparison
                        if let Err(f) = judge_slice(input, &mut scratch) {
                            if known.contains(&f.sig) {
                                *st.known_hits.entry(f.sig.clone()).or_insert(0) += 1;
                            } else {
                                return Some((input.to_vec(), f));
                            }
                        }
                    } else {
                        // an invalid control pair can never be accepted
                        let accepted = matches!(imp::v2_parse(input), Ok(Ok(_)));
                        if accepted {
                            let v = input.to_vec();
                            let mut scratch = Stats { frozen: true, ..Stats::default() };
                            if let Err(f) = judge(&v, &mut scratch) {
                                if known.contains(&f.sig) {
                                    *st.known_hits.entry(f.sig.clone()).or_insert(0) += 1;
                                } else {
                                    return Some((v, f));
                                }
                            }
                        }
                    }
                }
            }
            pair += 1;
        }
        st.evals_n(evals);
        st.nontrivial_counted += local_nontrivial;
        st.class_n("control-space-cases", evals);
        None
    };
    let space = if quick {
        format!(
            "all 65536 control-byte pairs x {} boundary/seeded lengths x 4 bytes-present relations, and the 24 valid control pairs x all 65536 lengths x 4 relations",
            lens.len()
        )
    } else {
        "all 65536 control-byte pairs x all 65536 declared lengths x 4 bytes-present relations (exact, one short, one extra, fixed part only)".to_string()
    };
    r.bulk("c02.control", Some(&space), &work, &judge);

    // ---- every corruption of every signature byte, on headers of each family
    let work_sig = |shard: usize, nshards: usize, st: &mut Stats, _stop: &AtomicBool| -> Option<(Vec<u8>, Fail)> {
        let mut count = 0u64;
        for fam in 0..4u8 {
            let mut h = SIG.to_vec();
            h.extend_from_slice(&[0x21, (fam << 4) | 1]);
            let need = NEED[fam as usize];
            h.extend_from_slice(&((need + 4) as u16).to_be_bytes());
            h.extend(fill(77 + fam as u32, need));
            h.extend_from_slice(&[4, 0, 1, 42]);
            for pos in 0..12usize {
                for val in 0..=255u8 {
                    if (pos * 256 + val as usize) % nshards != shard {
                        continue;
                    }
                    if val == SIG[pos] {
                        continue;
                    }
                    for cut in [h.len(), 16, 12, pos + 1] {
                        let mut x = h[..cut].to_vec();
                        x[pos] = val;
                        count += 1;
                        if let Err(f) = judge(&x, st) {
                            return Some((x, f));
                        }
                        // and at the other three positions within a 4-byte word, as part of a read buffer
                        if cut == h.len() {
                            for k in 1..4usize {
                                if let Err(f) = crate::engine::in_arena_at(k, &x, |v| judge(v, st)) {
                                    return Some((x, f));
                                }
                            }
                        }
                    }
                }
            }
        }
        st.class_n("signature-corruptions", count);
        None
    };
    r.bulk("c02.signature", Some("12 signature positions x 255 wrong values x 4 families x 4 truncations"), &work_sig, &judge);

    // ---- two and three signature bytes wrong at once (differences that could cancel in a word-wise or folded comparison)
    let work_sig2 = |shard: usize, nshards: usize, st: &mut Stats, stop: &AtomicBool| -> Option<(Vec<u8>, Fail)> {
        let mut h = SIG.to_vec();
        h.extend_from_slice(&[0x21, 0x11, 0, 12, 127, 0, 0, 1, 127, 0, 0, 2, 0, 80, 1, 187]);
        let mut count = 0u64;
        let mut idx = 0usize;
        for p1 in 0..12usize {
            for p2 in p1 + 1..12 {
                idx += 1;
                if idx % nshards != shard {
                    continue;
                }
                if stop.load(Ordering::Relaxed) {
                    return None;
                }
                for d1 in 1..=255u8 {
                    for d2 in 1..=255u8 {
                        let mut x = h.clone();
                        x[p1] ^= d1;
                        x[p2] ^= d2;
                        count += 1;
                        // no input whose first 12 bytes differ from the signature may be accepted, wherever it lies in memory
                        let k = count as usize % 8;
                        let accepted = if k == 0 { matches!(imp::v2_parse(&x), Ok(Ok(_))) } else { crate::engine::in_arena_at(k, &x, |v| matches!(imp::v2_parse(v), Ok(Ok(_)))) };
                        if accepted {
                            let mut scratch = Stats { frozen: true, ..Stats::default() };
                            if let Err(f) = judge(&x, &mut scratch) {
                                return Some((x, f));
                            }
                        }
                    }
                }
            }
        }
        // triples: every choice of three positions, equal deltas and a few unequal ones, also with arithmetic (+/-) deltas
        for p1 in 0..12usize {
            for p2 in p1 + 1..12 {
                for p3 in p2 + 1..12 {
                    idx += 1;
                    if idx % nshards != shard {
                        continue;
                    }
                    for d in 1..=255u8 {
                        for (a, b, c) in [(d, d, d), (d, d, d ^ 0xff), (d, d.rotate_left(1), d), (d, d, 1)] {
                            for arith in [false, true] {
                                let mut x = h.clone();
                                if arith {
                                    x[p1] = x[p1].wrapping_add(a);
                                    x[p2] = x[p2].wrapping_sub(b);
                                    x[p3] = x[p3].wrapping_add(c);
                                } else {
                                    x[p1] ^= a;
                                    x[p2] ^= b;
                                    x[p3] ^= c;
                                }
                                if x[..12] == SIG[..] {
                                    continue;
                                }
                                count += 1;
                                if matches!(imp::v2_parse(&x), Ok(Ok(_))) {
                                    let mut scratch = Stats { frozen: true, ..Stats::default() };
                                    if let Err(f) = judge(&x, &mut scratch) {
                                        return Some((x, f));
                                    }
                                }
                            }
                        }
                    }
                }
            }
        }
        st.evals_n(count);
        st.nontrivial_counted += count;
        st.class_n("signature-multi-corruptions", count);
        None
    };
    r.bulk("c02.signature-pairs", Some("all 66 pairs of signature positions x all 255 x 255 XOR deltas; all 220 triples of positions x 255 deltas x 4 delta patterns x {xor, add/sub}"), &work_sig2, &judge);

    // ---- buffers far larger than the header: a valid header in front of 64 KiB .. 192 KiB of further bytes
    let work_big = |shard: usize, nshards: usize, st: &mut Stats, stop: &AtomicBool| -> Option<(Vec<u8>, Fail)> {
        let mut buf = SIG.to_vec();
        buf.extend_from_slice(&[0, 0, 0, 0]);
        buf.extend(fill((seed as u32).wrapping_mul(97).wrapping_add(shard as u32) | 1, 3 * 65536 + 64));
        let mut scratch = Stats { frozen: true, ..Stats::default() };
        let mut count = 0u64;
        let pairs: Vec<(u8, u8)> = [0x20u8, 0x21].iter().flat_map(|vc| (0..=0x32u8).filter(|a| valid_afp(*a)).map(move |a| (*vc, a))).collect();
        let lens: Vec<usize> = vec![0, 1, 12, 13, 36, 40, 216, 217, 300, 4096, 32768, 65519, 65520, 65534, 65535];
        let mut idx = 0usize;
        for (vc, afp) in &pairs {
            for &l in &lens {
                idx += 1;
                if idx % nshards != shard {
                    continue;
                }
                if stop.load(Ordering::Relaxed) {
                    return None;
                }
                buf[12] = *vc;
                buf[13] = *afp;
                buf[14] = (l >> 8) as u8;
                buf[15] = l as u8;
                // total buffer sizes around every multiple of 65536 (+16), and around multiples + the declared length
                for base in [65536usize, 2 * 65536, 3 * 65536] {
                    for total in [base - 1, base, base + 1, base + 15, base + 16, base + 17, base + 16 + l.saturating_sub(1), base + 16 + l, base + 16 + l + 1, base + 16 + l / 2, base + 28, base + 40] {
                        if total > buf.len() || total < 16 + l {
                            continue;
                        }
                        count += 1;
                        if let Err(f) = judge_slice(&buf[..total], &mut scratch) {
                            return Some((buf[..total].to_vec(), f));
                        }
                    }
                }
            }
        }
        st.evals_n(count);
        st.nontrivial_counted += count;
        st.class_n("oversized-buffer-cases", count);
        None
    };
    r.bulk("c02.large-buffers", Some("24 valid control pairs x 15 declared lengths x 36 buffer sizes around 64 KiB, 128 KiB and 192 KiB (header followed by that much further data)"), &work_big, &judge);
    "exploration"
}
