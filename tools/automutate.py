#!/usr/bin/env python3
"""tools/automutate.py [--workers N] [--limit N] [--only <file-substring>] [--out DIR]

Mechanical mutation sweep (sensitivity measurement, complements the hand-written seeded changes):
generates small syntactic mutants of /repo's non-test source (operator swaps, off-by-one constants,
negated conditions, swapped helpers, deleted statements), keeps those that still COMPILE and still PASS
the 73 unit tests, and runs the quick tier of the checks against each survivor on a scratch copy
(never /repo itself). Reports which check catches which mutant and which mutants no check catches
(those are either equivalent mutants or gaps - triaged by hand in DESIGN.md).

Scratch copies live under /tmp/am.<pid>/ and are removed at the end.
"""
import json, os, re, shutil, subprocess, sys, time, argparse, hashlib
from concurrent.futures import ThreadPoolExecutor

REPO = "/repo"
VERIF = os.path.dirname(os.path.dirname(os.path.abspath(__file__)))
FILES = ["src/lib.rs", "src/v1/mod.rs", "src/v1/model.rs", "src/v2/mod.rs", "src/v2/model.rs", "src/v2/builder.rs"]
ALL = ["C%02d" % i for i in range(1, 21)]
# checks most likely to notice a change in a file go first (the run stops at the first catch unless --all-checks)
ORDER = {
    "src/lib.rs": ["C05", "C06", "C18", "C12", "C17"],
    "src/v1/mod.rs": ["C01", "C18", "C05", "C12", "C04", "C16", "C03", "C08", "C15", "C06"],
    "src/v1/model.rs": ["C15", "C08", "C19", "C16", "C01", "C03"],
    "src/v2/mod.rs": ["C02", "C17", "C12", "C04", "C05", "C14", "C13", "C06", "C03"],
    "src/v2/model.rs": ["C11", "C14", "C13", "C07", "C19", "C16", "C02", "C03", "C20", "C10"],
    "src/v2/builder.rs": ["C20", "C10", "C09", "C07", "C13"],
}

def code_part(text):
    """(lines of the non-test part, number of those lines)"""
    lines = text.split("\n")
    for i, l in enumerate(lines):
        if l.strip() == "#[cfg(test)]":
            return lines, i
    return lines, len(lines)

SUBS = [
    (r" <= ", " < "), (r" < ", " <= "), (r" >= ", " > "), (r" > ", " >= "),
    (r" == ", " != "), (r" != ", " == "),
    (r" \+ ", " - "), (r" - ", " + "), (r" \+= ", " -= "),
    (r" && ", " || "), (r" \|\| ", " && "),
    (r" \| ", " & "), (r" & ", " | "),
    (r"\bmin\(", "max("), (r"\bmax\(", "min("),
    (r"\btrue\b", "false"), (r"\bfalse\b", "true"),
    (r"\.is_some\(\)", ".is_none()"), (r"\.is_none\(\)", ".is_some()"),
    (r"\.is_ok\(\)", ".is_err()"), (r"\.is_err\(\)", ".is_ok()"),
    (r"\.starts_with\(", ".ends_with("), (r"\.ends_with\(", ".starts_with("),
    (r"\.find\(", ".rfind("), (r"\.position\(", ".rposition("),
    (r"\.is_empty\(\)", ".is_empty() == false"),
    (r"\.is_complete\(\)", ".is_incomplete()"), (r"\.is_incomplete\(\)", ".is_complete()"),
    (r"\.unwrap_or_default\(\)", ".unwrap_or(1)"),
    (r"to_be_bytes\(\)", "to_le_bytes()"), (r"from_be_bytes\(", "from_le_bytes("),
    (r"\.filter\(\|", ".filter(|_| true).filter(|"),  # placeholder, replaced below
    (r"\.next\(\)", ".next_back()"),
    (r"\bsource_address\b", "destination_address"), (r"\bdestination_address\b", "source_address"),
    (r"\bsource_port\b", "destination_port"), (r"\bdestination_port\b", "source_port"),
    (r"\bsource\b", "destination"), (r"\bdestination\b", "source"),
    (r"ParseError::(\w+)", None),  # error-kind swap, handled specially
]
INCOMPLETE_SWAP = {
    "MissingNewLine": "InvalidSuffix", "InvalidSuffix": "MissingNewLine", "Partial": "InvalidPrefix", "InvalidPrefix": "Partial",
    "MissingProtocol": "InvalidProtocol", "InvalidProtocol": "MissingProtocol", "HeaderTooLong": "MissingNewLine",
    "MissingSourceAddress": "MissingDestinationAddress", "MissingDestinationAddress": "MissingSourcePort",
    "MissingSourcePort": "MissingDestinationPort", "MissingDestinationPort": "MissingSourcePort",
    "Incomplete": "Prefix", "Prefix": "Incomplete", "Version": "Command", "Command": "Version", "AddressFamily": "Protocol", "Protocol": "AddressFamily",
    "InvalidSourceAddress": "InvalidDestinationAddress", "InvalidDestinationAddress": "InvalidSourceAddress",
    "InvalidSourcePort": "InvalidDestinationPort", "InvalidDestinationPort": "InvalidSourcePort",
}

def strip_comment(line):
    i = line.find("//")
    return line if i < 0 else line[:i]

def mutants_for(path, text):
    lines, ncode = code_part(text)
    out = []
    for ln in range(ncode):
        line = lines[ln]
        code = strip_comment(line)
        if not code.strip() or code.strip().startswith(("use ", "pub use ", "#[", "mod ", "pub mod ")):
            continue
        seen = set()
        def add(new_line, desc):
            if new_line != line and new_line not in seen:
                seen.add(new_line)
                out.append({"file": path, "line": ln + 1, "old": line.strip(), "new": new_line.strip(), "op": desc, "_new_line": new_line})
        for pat, rep in SUBS:
            if rep is None:
                for m in re.finditer(pat, code):
                    k = m.group(1)
                    if k in INCOMPLETE_SWAP:
                        add(line[:m.start(1)] + INCOMPLETE_SWAP[k] + line[m.end(1):], "error-kind %s->%s" % (k, INCOMPLETE_SWAP[k]))
                continue
            if "filter(|_| true)" in rep:
                continue
            for m in re.finditer(pat, code):
                add(line[:m.start()] + rep + line[m.end():], "%s -> %s" % (m.group(0).strip(), rep.strip()))
        # integer literals (decimal / hex), not inside identifiers or type suffixes like u16 / 0x20u8 handled by \b
        for m in re.finditer(r"(?<![\w.])(0x[0-9A-Fa-f]+|\d+)(?![\w.])", code):
            tok = m.group(1)
            v = int(tok, 16) if tok.startswith("0x") else int(tok)
            for nv in (v + 1, v - 1):
                if nv < 0:
                    continue
                nt = ("0x%02X" % nv) if tok.startswith("0x") else str(nv)
                add(line[:m.start(1)] + nt + line[m.end(1):], "const %s -> %s" % (tok, nt))
        # negation removal / insertion on `if` conditions
        m = re.search(r"\bif (?!let )(.+) \{\s*$", code)
        if m:
            cond = m.group(1)
            add(line[:m.start(1)] + "!(" + cond + ")" + line[m.end(1):], "negate condition")
        for m in re.finditer(r"(?<=[ (|&])!(?=[a-zA-Z_(])", code):
            add(line[:m.start()] + line[m.end():], "drop !")
        # statement deletion
        s = code.strip()
        if s.endswith(";") and not s.startswith(("let ", "return", "use ", "pub ", "const ", "type ", "}")) and "=>" not in s:
            add(re.sub(r"\S.*$", "();", line, count=1) if False else (line[: len(line) - len(line.lstrip())] + "();"), "delete statement")
        # early `return Err(..)` deletion is covered by negate condition
    return out

def sh(cmd, cwd=None, env=None, timeout=1800):
    e = dict(os.environ); e["CARGO_NET_OFFLINE"] = "true"
    if env: e.update(env)
    try:
        p = subprocess.run(cmd, shell=True, cwd=cwd, env=e, stdout=subprocess.PIPE, stderr=subprocess.STDOUT, timeout=timeout)
        return p.returncode, p.stdout.decode("utf-8", "replace")
    except subprocess.TimeoutExpired:
        return 124, "timeout"

class Worker:
    def __init__(self, root, k):
        self.dir = os.path.join(root, "w%d" % k)
        os.makedirs(self.dir)
        self.repo = os.path.join(self.dir, "repo")
        os.makedirs(self.repo)
        sh("git -C %s archive HEAD | tar -x -C %s" % (REPO, self.repo))
        self.harness = os.path.join(self.dir, "harness")
        sh("rsync -a --exclude target %s/harness/ %s/" % (VERIF, self.harness))
        sh("sed -i 's#path = \"/repo\"#path = \"%s\"#' %s/Cargo.toml" % (self.repo, self.harness))
        self.vd = os.path.join(self.dir, "vd"); os.makedirs(self.vd)
        shutil.copy(os.path.join(VERIF, "KNOWN_FINDINGS.txt"), self.vd)
        sh("cp -r %s/regress %s/" % (VERIF, self.vd))
        self.rt = os.path.join(self.dir, "rt"); self.ht = os.path.join(self.dir, "ht")
        sh("cp -r %s/target %s" % (REPO, self.rt)); sh("cp -r %s/harness/target %s" % (VERIF, self.ht))
        self.orig = {f: open(os.path.join(self.repo, f)).read() for f in FILES}

    def run(self, mut, all_checks):
        f = mut["file"]
        lines = self.orig[f].split("\n")
        lines[mut["line"] - 1] = mut["_new_line"]
        path = os.path.join(self.repo, f)
        open(path, "w").write("\n".join(lines))
        res = {k: v for k, v in mut.items() if not k.startswith("_")}
        try:
            rc, out = sh("cargo test --offline --lib 2>&1 | tail -40", cwd=self.repo, env={"CARGO_TARGET_DIR": self.rt}, timeout=600)
            if "error[" in out or "error:" in out and "test result" not in out:
                res["status"] = "does-not-compile"; return res
            m = re.search(r"test result: (\w+)\. (\d+) passed; (\d+) failed", out)
            if not m:
                res["status"] = "test-run-problem"; res["detail"] = out[-300:]; return res
            if m.group(1) != "ok":
                res["status"] = "killed-by-unit-tests"; res["failed_tests"] = int(m.group(3)); return res
            rc, out = sh("cargo build --release --quiet 2>&1 | grep -E '^error' -A5 | head -20", cwd=self.harness, env={"CARGO_TARGET_DIR": self.ht}, timeout=900)
            if out.strip():
                res["status"] = "harness-does-not-compile"; res["detail"] = out[-300:]; return res
            order = ORDER.get(f, []) + [c for c in ALL if c not in ORDER.get(f, [])]
            caught = []
            for cid in order:
                rc, out = sh("timeout 900 %s/release/ppp-verif %s --tier quick --no-evidence 2>/dev/null" % (self.ht, cid), env={"VERIF_DIR": self.vd, "VERIF_SEED": "1"})
                if rc == 1:
                    sig = re.search(r"sig=\S+", out)
                    caught.append({"check": cid, "sig": sig.group(0) if sig else ""})
                    if not all_checks:
                        break
                elif rc != 0:
                    res.setdefault("inconclusive", []).append(cid)
            res["status"] = "caught" if caught else "SURVIVED"
            res["caught_by"] = caught
            return res
        finally:
            open(path, "w").write(self.orig[f])

def main():
    ap = argparse.ArgumentParser()
    ap.add_argument("--workers", type=int, default=4)
    ap.add_argument("--limit", type=int, default=0)
    ap.add_argument("--only", default="")
    ap.add_argument("--out", default=os.path.join(VERIF, "automut"))
    ap.add_argument("--all-checks", action="store_true")
    ap.add_argument("--stride", type=int, default=1, help="take every n-th mutant (deterministic sample)")
    a = ap.parse_args()
    muts = []
    for f in FILES:
        if a.only and a.only not in f:
            continue
        muts += mutants_for(f, open(os.path.join(REPO, f)).read())
    muts = muts[:: a.stride]
    if a.limit:
        muts = muts[: a.limit]
    print("generated %d mutants" % len(muts), flush=True)
    root = "/tmp/am.%d" % os.getpid()
    os.makedirs(root)
    results = []
    t0 = time.time()
    try:
        workers = [Worker(root, k) for k in range(a.workers)]
        import queue
        q = queue.Queue()
        for w in workers: q.put(w)
        def job(m):
            w = q.get()
            try:
                r = w.run(m, a.all_checks)
            finally:
                q.put(w)
            print("%-24s L%-4d %-34s %-22s %s" % (r["file"], r["line"], r["op"][:34], r["status"], ",".join(c["check"] for c in r.get("caught_by", []))), flush=True)
            return r
        with ThreadPoolExecutor(max_workers=a.workers) as ex:
            results = list(ex.map(job, muts))
    finally:
        shutil.rmtree(root, ignore_errors=True)
    os.makedirs(a.out, exist_ok=True)
    summary = {}
    for r in results:
        summary[r["status"]] = summary.get(r["status"], 0) + 1
    head = subprocess.run("git -C /repo rev-parse --short HEAD", shell=True, stdout=subprocess.PIPE).stdout.decode().strip()
    json.dump({"repo_head": head, "generated": len(muts), "summary": summary, "wall_s": round(time.time() - t0), "results": results}, open(os.path.join(a.out, "report.json"), "w"), indent=1)
    print("SUMMARY", json.dumps(summary))
    for r in results:
        if r["status"] == "SURVIVED":
            print("SURVIVED %s:%d  %s  |  %s  =>  %s" % (r["file"], r["line"], r["op"], r["old"], r["new"]))

if __name__ == "__main__":
    main()
