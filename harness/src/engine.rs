//! Runner shared by all properties: proptest-driven random stages, sharded bulk (exhaustive)
//! stages, shrinking, statistics, replay dispatch, known findings, evidence.

use proptest::strategy::{Strategy, ValueTree};
use proptest::test_runner::{Config, RngSeed, TestCaseError, TestError, TestRunner};
use serde_json::{json, Value};
use std::collections::{BTreeMap, HashSet};
use std::hash::{Hash, Hasher};
use std::panic::{catch_unwind, AssertUnwindSafe};
use std::sync::atomic::{AtomicBool, Ordering};
use std::sync::Mutex;
use std::time::Instant;

pub const THREADS: usize = 16;

#[derive(Clone, Copy, PartialEq, Eq, Debug)]
pub enum Tier {
    Quick,
    Thorough,
}

// ---------------------------------------------------------------------------------------------
// The tape: a fixed-length vector of u32 drawn by proptest. Every random decision a generator
// makes is a read from the tape, mapped monotonically (0 = simplest choice), so that proptest's
// element-wise shrinking of the tape shrinks the generated case. Reads past the end give 0.

pub struct Tape<'a> {
    data: &'a [u32],
    pos: usize,
}

impl<'a> Tape<'a> {
    pub fn new(data: &'a [u32]) -> Self {
        Tape { data, pos: 0 }
    }
    #[inline]
    pub fn raw(&mut self) -> u32 {
        let v = self.data.get(self.pos).copied().unwrap_or(0);
        self.pos += 1;
        v
    }
    /// Uniform in 0..n (n >= 1), monotone in the tape value.
    #[inline]
    pub fn below(&mut self, n: u32) -> u32 {
        debug_assert!(n >= 1);
        ((self.raw() as u64 * n as u64) >> 32) as u32
    }
    /// Uniform in lo..=hi.
    #[inline]
    pub fn range(&mut self, lo: u32, hi: u32) -> u32 {
        lo + self.below(hi - lo + 1)
    }
    pub fn usize_in(&mut self, lo: usize, hi: usize) -> usize {
        self.range(lo as u32, hi as u32) as usize
    }
    /// True with probability num/den; a zero tape value gives false.
    #[inline]
    pub fn chance(&mut self, num: u32, den: u32) -> bool {
        self.below(den) >= den - num
    }
    #[inline]
    pub fn coin(&mut self) -> bool {
        self.chance(1, 2)
    }
    pub fn pick<'b, T>(&mut self, items: &'b [T]) -> &'b T {
        &items[self.below(items.len() as u32) as usize]
    }
    /// Index chosen with the given weights; index 0 is the "simplest".
    pub fn weighted(&mut self, weights: &[u32]) -> usize {
        let total: u32 = weights.iter().sum();
        let mut x = self.below(total);
        for (i, w) in weights.iter().enumerate() {
            if x < *w {
                return i;
            }
            x -= *w;
        }
        weights.len() - 1
    }
    #[inline]
    pub fn byte(&mut self) -> u8 {
        (self.raw() >> 24) as u8
    }
    pub fn u16(&mut self) -> u16 {
        (self.raw() >> 16) as u16
    }
    pub fn u32(&mut self) -> u32 {
        self.raw()
    }
    pub fn u64(&mut self) -> u64 {
        ((self.raw() as u64) << 32) | self.raw() as u64
    }
    pub fn u128(&mut self) -> u128 {
        ((self.u64() as u128) << 64) | self.u64() as u128
    }
    /// `n` bytes, four per tape cell.
    pub fn bytes(&mut self, n: usize) -> Vec<u8> {
        let mut out = Vec::with_capacity(n);
        while out.len() < n {
            let v = self.raw().to_be_bytes();
            for b in v {
                if out.len() < n {
                    out.push(b);
                }
            }
        }
        out
    }
}

/// Deterministic filler for large values: `len` bytes derived from `seed` (xorshift), so that a
/// 65 535-byte value costs two tape cells and shrinks quickly.
pub fn fill(seed: u32, len: usize) -> Vec<u8> {
    let mut out = Vec::with_capacity(len);
    let mut x: u64 = (seed as u64) << 1 | 1;
    x = x.wrapping_mul(0x9E37_79B9_7F4A_7C15);
    while out.len() < len {
        x ^= x << 13;
        x ^= x >> 7;
        x ^= x << 17;
        let b = x.to_le_bytes();
        let take = (len - out.len()).min(8);
        out.extend_from_slice(&b[..take]);
    }
    // content classes with reserved seeds: all zero, all 0xFF, printable ASCII, one repeated byte
    match seed {
        0 => out.iter_mut().for_each(|b| *b = 0),
        SEED_ONES => out.iter_mut().for_each(|b| *b = 0xff),
        SEED_ASCII => out.iter_mut().for_each(|b| *b = b'a' + (*b % 26)),
        SEED_CRLF => out.iter_mut().enumerate().for_each(|(i, b)| *b = b"\r\n\r\n\0\r\nQUIT\n"[i % 12]),
        SEED_TLS => {
            let pat: &[u8] = b"\x16\x03\x01\x02\x00\x01\x00\x01\xfc\x03\x03";
            out.iter_mut().enumerate().for_each(|(i, b)| *b = pat[i % pat.len()])
        }
        SEED_HTTP => {
            let pat: &[u8] = b"GET / HTTP/1.1\r\nHost: example.org\r\n\r\n";
            out.iter_mut().enumerate().for_each(|(i, b)| *b = pat[i % pat.len()])
        }
        SEED_V2HEADER => {
            // the bytes are themselves one complete PROXY v2 header (LOCAL, unspecified family) whose length field says exactly
            // how long they are: 16 + (len - 16) - for any len from 16 to 65551
            if len >= 16 && len - 16 <= 65535 {
                out.iter_mut().enumerate().for_each(|(i, b)| *b = (i % 251) as u8);
                out[..12].copy_from_slice(b"\r\n\r\n\0\r\nQUIT\n");
                out[12] = 0x20;
                out[13] = 0x00;
                out[14] = ((len - 16) >> 8) as u8;
                out[15] = (len - 16) as u8;
            }
        }
        SEED_TYPED => {
            let pat = b"key=value;id=42;name=proxy-1\0";
            out.iter_mut().enumerate().for_each(|(i, b)| *b = pat[i % pat.len()]);
        }
        SEED_LEN24 => {
            // the value begins with a big-endian 24-bit count: the number of bytes in the value plus one (a length prefix of
            // the sender's own that reaches one byte past the value)
            out.iter_mut().for_each(|b| *b = 0x55);
            if len >= 3 {
                let n = len + 1;
                out[0] = (n >> 16) as u8;
                out[1] = (n >> 8) as u8;
                out[2] = n as u8;
            }
        }
        SEED_FQDN => {
            // an absolute host name: labels of letters, digits and hyphens joined by dots, ending in the root dot
            let pat: &[u8] = b"proxy.example-1.com.eu.";
            out.iter_mut().enumerate().for_each(|(i, b)| *b = pat[i % pat.len()]);
            if len >= 2 {
                out[len - 1] = b'.';
                if out[len - 2] == b'.' {
                    out[len - 2] = b'x';
                }
                if out[0] == b'.' {
                    out[0] = b'p';
                }
            }
        }
        SEED_COUNTED => {
            // a counted string: the first byte states how many bytes follow (ALPN wire form, DNS labels, Pascal strings)
            out.iter_mut().enumerate().for_each(|(i, b)| *b = b"http/1.1-h2-spdy/3"[i % 18]);
            if let Some(first) = out.first_mut() {
                *first = ((len - 1) & 0xff) as u8;
            }
        }
        _ => {}
    }
    out
}

static FUZZ_MODE: AtomicBool = AtomicBool::new(false);
/// Set by the coverage-guided targets: generators then leave out the few case classes that cost hundreds of milliseconds
/// each (batches of 65 000+ items), which a corpus would otherwise collect and mutate for ever.
pub fn set_fuzz_mode(on: bool) {
    FUZZ_MODE.store(on, Ordering::Relaxed);
}
pub fn fuzz_mode() -> bool {
    FUZZ_MODE.load(Ordering::Relaxed)
}

pub const SEED_ONES: u32 = 0xffff_ffff;
pub const SEED_ASCII: u32 = 0xffff_fffe;
/// the v2 signature repeated (content that looks like the start of a nested header)
pub const SEED_CRLF: u32 = 0xffff_fffd;

/// the start of a TLS ClientHello record, repeated (what really follows a PROXY header on a TLS port)
pub const SEED_TLS: u32 = 0xffff_fffc;
/// an HTTP request head, repeated
pub const SEED_HTTP: u32 = 0xffff_fffa;
/// (TLV values only, see bld::tlv_value) the value is itself the encoding of a TLV of the same type
pub const SEED_NESTED: u32 = 0xffff_fffb;
/// a counted string (first byte = number of bytes that follow)
pub const SEED_COUNTED: u32 = 0xffff_fff9;
/// an absolute host name with its trailing root dot
pub const SEED_FQDN: u32 = 0xffff_fff7;
/// a complete v2 header whose length field matches the size of the byte string
pub const SEED_V2HEADER: u32 = 0xffff_fff5;
/// a 24-bit big-endian count (own length + 1) in front of constant filler
pub const SEED_LEN24: u32 = 0xffff_fff3;

/// A fill seed from the tape: mostly random content, but one value in four is one of the content classes
/// (all zero / all 0xFF / ASCII letters / signature bytes) that pure random bytes never produce.
/// Content class: what a TLV of the given type carries in practice (see bld::tlv_value); as plain filler: key=value text.
pub const SEED_TYPED: u32 = 0xffff_fff1;

pub fn gen_seed(t: &mut Tape) -> u32 {
    match t.weighted(&[24, 4, 2, 2, 2, 1, 1, 1, 1, 1, 1, 1, 2]) {
        12 => SEED_TYPED,
        8 => SEED_COUNTED,
        9 => SEED_FQDN,
        10 => SEED_V2HEADER,
        11 => SEED_LEN24,
        0 => t.u32() | 1,
        1 => 0,
        2 => SEED_ONES,
        3 => SEED_ASCII,
        4 => SEED_CRLF,
        5 => SEED_TLS,
        6 => SEED_HTTP,
        _ => SEED_NESTED,
    }
}

// ---------------------------------------------------------------------------------------------
// Cases: every case can be written to / read from JSON so that replay bypasses the generators.

pub trait CaseIo: Sized + Clone + Send + std::fmt::Debug {
    fn to_json(&self) -> Value;
    fn from_json(v: &Value) -> Option<Self>;
    /// Candidates strictly simpler than `self` (tried greedily after proptest's own shrinking).
    fn simpler(&self) -> Vec<Self> {
        Vec::new()
    }
    /// Digest used to count distinct cases.
    fn digest(&self) -> u64 {
        hash_str(&self.to_json().to_string())
    }
}

pub fn hex(b: &[u8]) -> String {
    let mut s = String::with_capacity(b.len() * 2);
    for x in b {
        s.push_str(&format!("{:02x}", x));
    }
    s
}

pub fn unhex(s: &str) -> Option<Vec<u8>> {
    let s = s.trim();
    if s.len() % 2 != 0 {
        return None;
    }
    (0..s.len() / 2)
        .map(|i| u8::from_str_radix(s.get(2 * i..2 * i + 2)?, 16).ok())
        .collect()
}

/// Printable rendering of bytes for samples and messages.
pub fn esc(b: &[u8]) -> String {
    let mut s = String::new();
    let shown = b.len().min(160);
    for &c in &b[..shown] {
        match c {
            b'\r' => s.push_str("\\r"),
            b'\n' => s.push_str("\\n"),
            b'\\' => s.push_str("\\\\"),
            0x20..=0x7e => s.push(c as char),
            _ => s.push_str(&format!("\\x{:02x}", c)),
        }
    }
    if b.len() > shown {
        s.push_str(&format!("...(+{} bytes)", b.len() - shown));
    }
    s
}

pub fn hash_bytes(b: &[u8]) -> u64 {
    #[allow(deprecated)]
    let mut h = std::hash::SipHasher::new_with_keys(0x5eed, 0xc0ffee);
    b.hash(&mut h);
    h.finish()
}
pub fn hash_str(s: &str) -> u64 {
    hash_bytes(s.as_bytes())
}

/// Generic byte-removal candidates for delta debugging.
pub fn simpler_bytes(b: &[u8]) -> Vec<Vec<u8>> {
    let mut out = Vec::new();
    let n = b.len();
    if n == 0 {
        return out;
    }
    let mut chunk = n / 2;
    while chunk >= 1 {
        let mut i = 0;
        while i + chunk <= n {
            let mut v = Vec::with_capacity(n - chunk);
            v.extend_from_slice(&b[..i]);
            v.extend_from_slice(&b[i + chunk..]);
            out.push(v);
            i += chunk;
        }
        if chunk == 1 {
            break;
        }
        chunk /= 2;
        if out.len() > 600 {
            break;
        }
    }
    // byte simplification (towards 'a' / 0 / '1')
    if n <= 200 {
        for i in 0..n {
            for r in [b'0', b'a', 0u8] {
                if b[i] != r && b[i] != b'\r' && b[i] != b'\n' && b[i] != b' ' {
                    let mut v = b.to_vec();
                    v[i] = r;
                    out.push(v);
                    break;
                }
            }
        }
    }
    out
}

impl CaseIo for Vec<u8> {
    fn to_json(&self) -> Value {
        json!({"input_hex": hex(self), "input_esc": esc(self)})
    }
    fn from_json(v: &Value) -> Option<Self> {
        unhex(v.get("input_hex")?.as_str()?)
    }
    fn simpler(&self) -> Vec<Self> {
        simpler_bytes(self)
    }
    fn digest(&self) -> u64 {
        hash_bytes(self)
    }
}

/// (input, trailer) pairs.
#[derive(Clone, Debug)]
pub struct Pair(pub Vec<u8>, pub Vec<u8>);
impl CaseIo for Pair {
    fn to_json(&self) -> Value {
        json!({"input_hex": hex(&self.0), "input_esc": esc(&self.0), "trailer_hex": hex(&self.1), "trailer_esc": esc(&self.1)})
    }
    fn from_json(v: &Value) -> Option<Self> {
        Some(Pair(
            unhex(v.get("input_hex")?.as_str()?)?,
            unhex(v.get("trailer_hex")?.as_str()?)?,
        ))
    }
    fn simpler(&self) -> Vec<Self> {
        let mut out: Vec<Pair> = simpler_bytes(&self.1)
            .into_iter()
            .map(|t| Pair(self.0.clone(), t))
            .collect();
        out.extend(simpler_bytes(&self.0).into_iter().map(|x| Pair(x, self.1.clone())));
        out
    }
    fn digest(&self) -> u64 {
        hash_bytes(&self.0) ^ hash_bytes(&self.1).rotate_left(17)
    }
}

thread_local! {
    static ARENAS: [std::cell::RefCell<Vec<u8>>; 2] = [std::cell::RefCell::new(Vec::with_capacity((1 << 18) + 16)), std::cell::RefCell::new(Vec::with_capacity((1 << 13) + 16))];
    static ARENA_CALLS: std::cell::Cell<u64> = std::cell::Cell::new(0);
}

/// Run `f` on a copy of `x` that lives in this thread's reusable read buffer: like a server that reads every
/// connection into the same buffer, consecutive cases (and the members of a chain) are then parsed from the SAME
/// start address with different contents. The copy starts `k` bytes into the buffer, `k` = 0..7 changing every 64
/// calls, so that inputs are also seen at odd and otherwise unaligned addresses (`&buf[1..]`), which whole `Vec`s
/// never are. Inputs larger than the buffer, and nested calls, get a fresh allocation.
pub fn in_arena<R>(x: &[u8], f: impl FnOnce(&Vec<u8>) -> R) -> R {
    in_arena_slot(0, x, f)
}

/// The per-thread counter that decides the offset of the copy inside the read buffer (so that a case can be re-run at
/// the very alignment it was first judged at).
pub fn arena_calls() -> u64 {
    ARENA_CALLS.with(|c| c.get())
}
pub fn set_arena_calls(v: u64) {
    ARENA_CALLS.with(|c| c.set(v));
}

/// The same with this thread's second, smaller buffer (8 KiB): usable while the first one is held.
pub fn in_arena2<R>(x: &[u8], f: impl FnOnce(&Vec<u8>) -> R) -> R {
    in_arena_slot(1, x, f)
}

/// Like `in_arena`, but the copy starts exactly `k` (0..=7) bytes into the buffer: for exhaustive stages that want every
/// alignment of every case.
pub fn in_arena_at<R>(k: usize, x: &[u8], f: impl FnOnce(&Vec<u8>) -> R) -> R {
    let saved = arena_calls();
    set_arena_calls((k as u64 % 8) * 256);
    let r = in_arena_slot(0, x, f);
    set_arena_calls(saved);
    r
}

fn in_arena_slot<R>(slot: usize, x: &[u8], f: impl FnOnce(&Vec<u8>) -> R) -> R {
    let mut buf = ARENAS.with(|a| std::mem::take(&mut *a[slot].borrow_mut()));
    if buf.capacity() < x.len() + 8 {
        let fresh = x.to_vec();
        let r = f(&fresh);
        if buf.capacity() > 0 {
            ARENAS.with(|a| *a[slot].borrow_mut() = buf);
        }
        return r;
    }
    let calls = ARENA_CALLS.with(|c| {
        let v = c.get();
        c.set(v + 1);
        v
    });
    let k = ((calls / 256) % 8) as usize;
    buf.clear();
    buf.resize(k, 0);
    buf.extend_from_slice(x);
    // A read-only `Vec` view of buf[k..]: never dropped, grown or written through (the judges take `&Vec<u8>`).
    let view = std::mem::ManuallyDrop::new(unsafe { Vec::from_raw_parts(buf.as_mut_ptr().add(k), x.len(), x.len()) });
    let r = f(&view);
    ARENAS.with(|a| *a[slot].borrow_mut() = buf);
    r
}

/// A sequence of inputs judged one after the other on the same thread (history independence: the code under
/// test is documented as a set of pure functions, so what was parsed or formatted before must not matter).
#[derive(Clone, Debug)]
pub struct Chain(pub Vec<Vec<u8>>);
impl CaseIo for Chain {
    fn to_json(&self) -> Value {
        json!({"inputs_hex": self.0.iter().map(|x| hex(x)).collect::<Vec<_>>(), "inputs_esc": self.0.iter().map(|x| esc(x)).collect::<Vec<_>>()})
    }
    fn from_json(v: &Value) -> Option<Self> {
        if let Some(a) = v.get("inputs_hex").and_then(|a| a.as_array()) {
            let xs: Option<Vec<Vec<u8>>> = a.iter().map(|x| unhex(x.as_str()?)).collect();
            return Some(Chain(xs?));
        }
        // a single input replays as a chain of one
        Some(Chain(vec![unhex(v.get("input_hex")?.as_str()?)?]))
    }
    fn simpler(&self) -> Vec<Self> {
        let mut out = Vec::new();
        if self.0.len() > 1 {
            for i in 0..self.0.len() {
                let mut c = self.0.clone();
                c.remove(i);
                out.push(Chain(c));
            }
        }
        for i in 0..self.0.len() {
            for x in simpler_bytes(&self.0[i]).into_iter().take(120) {
                let mut c = self.0.clone();
                c[i] = x;
                out.push(Chain(c));
            }
        }
        out
    }
    fn digest(&self) -> u64 {
        let mut h = 0u64;
        for x in &self.0 {
            h = h.rotate_left(13) ^ hash_bytes(x);
        }
        h
    }
}

// ---------------------------------------------------------------------------------------------

#[derive(Clone, Debug)]
pub struct Fail {
    /// what went wrong, without the case's shape (shrinking stays within one kind)
    pub kind: String,
    /// structural signature of the failing case (for the known-findings file): kind ':' shape
    pub sig: String,
    pub entry: String,
    pub expected: String,
    pub observed: String,
}

impl Fail {
    pub fn new(kind: impl Into<String>, shape: impl AsRef<str>, entry: impl Into<String>, expected: impl Into<String>, observed: impl Into<String>) -> Fail {
        let kind = kind.into();
        let sig = if shape.as_ref().is_empty() { kind.clone() } else { format!("{}:{}", kind, shape.as_ref()) };
        let sig = sig.replace(char::is_whitespace, "_");
        Fail { kind, sig, entry: entry.into(), expected: expected.into(), observed: observed.into() }
    }
}

pub type Verdict = Result<(), Fail>;

#[derive(Default)]
pub struct Stats {
    pub evals: u64,
    pub nontrivial: HashSet<u64>,
    /// distinct-by-construction non-trivial cases counted by exhaustive stages
    pub nontrivial_counted: u64,
    pub classes: BTreeMap<String, u64>,
    pub samples: BTreeMap<String, Vec<String>>,
    pub discarded: u64,
    pub known_hits: BTreeMap<String, u64>,
    pub frozen: bool,
}

impl Stats {
    #[inline]
    pub fn eval(&mut self) {
        if !self.frozen {
            self.evals += 1;
        }
    }
    #[inline]
    pub fn evals_n(&mut self, n: u64) {
        if !self.frozen {
            self.evals += n;
        }
    }
    #[inline]
    pub fn nontrivial(&mut self, digest: u64) {
        if !self.frozen {
            self.nontrivial.insert(digest);
        }
    }
    #[inline]
    pub fn class(&mut self, c: &str) {
        if !self.frozen {
            *self.classes.entry(c.to_string()).or_insert(0) += 1;
        }
    }
    pub fn class_n(&mut self, c: &str, n: u64) {
        if !self.frozen && n > 0 {
            *self.classes.entry(c.to_string()).or_insert(0) += n;
        }
    }
    pub fn discard(&mut self) {
        if !self.frozen {
            self.discarded += 1;
        }
    }
    /// Keep up to 2 samples per class.
    pub fn sample(&mut self, class: &str, f: impl FnOnce() -> String) {
        if self.frozen {
            return;
        }
        let e = self.samples.entry(class.to_string()).or_default();
        if e.len() < 2 {
            e.push(f());
        }
    }
    pub fn merge(&mut self, o: Stats) {
        self.evals += o.evals;
        self.nontrivial.extend(o.nontrivial);
        self.nontrivial_counted += o.nontrivial_counted;
        for (k, v) in o.classes {
            *self.classes.entry(k).or_insert(0) += v;
        }
        for (k, v) in o.samples {
            let e = self.samples.entry(k).or_default();
            for s in v {
                if e.len() < 2 {
                    e.push(s);
                }
            }
        }
        self.discarded += o.discarded;
        for (k, v) in o.known_hits {
            *self.known_hits.entry(k).or_insert(0) += v;
        }
    }
}

pub struct Known {
    pub property: String,
    pub sig: String,
    pub text: String,
}

pub struct Violation {
    pub stage: String,
    pub fail: Fail,
    pub case: Value,
    pub replay_path: String,
}

pub struct StageReport {
    pub name: String,
    pub kind: String,
    pub evals: u64,
    pub nontrivial: u64,
    pub discarded: u64,
    pub exhaustive_space: Option<String>,
    pub wall_s: f64,
}

pub struct Runner {
    pub prop: &'static str,
    pub tier: Tier,
    pub seed: u64,
    pub profile: String,
    /// Replay mode: (check name, case json)
    pub replay: Option<(String, Value)>,
    /// cases to judge (verdicts ignored) before the replayed case, on the same thread: the failure depends on them
    pub replay_pre: Vec<Value>,
    /// read-buffer offset counter the replayed case was first judged at (alignment-dependent failures)
    pub replay_arena_calls: Option<u64>,
    /// the counter at the first failure of the stage that has just run (consumed by record_violation)
    pub fail_arena_calls: Option<u64>,
    pub replay_hit: bool,
    pub stats: Stats,
    pub stages: Vec<StageReport>,
    pub violations: Vec<Violation>,
    pub known: Vec<Known>,
    pub rule: String,
    pub assumptions: Vec<String>,
    pub extra: BTreeMap<String, Value>,
    pub exhaustive_all: bool,
    pub inconclusive: Vec<String>,
    pub verif_dir: String,
    /// only run stages whose name contains this (debug aid; evidence marks the run partial)
    pub only: Option<String>,
    /// saved failing cases (committed under regress/<ID>/): (check, case, path); re-judged first
    pub regress: Vec<(String, Value, String)>,
    pub started: Instant,
    /// crash / hang triage (used by the checks for which a crash or hang of the code under test IS a violation):
    /// random stages journal the tape of the case each worker is about to judge, so that after an abort (stack
    /// overflow, SIGSEGV, ...) or a stall the culprit can be identified and re-run in a child process
    pub journal: bool,
    /// triage mode: do not run the stages; re-run the journalled cases of each stage in child processes
    pub triage: bool,
    /// child of a triage run: judge only this tape in this stage, in-process
    pub replay_tape: Option<(String, Vec<u32>)>,
    /// cold-start child: run only the first cases of one stage, in this fresh process, one after the other on the main thread
    pub cold_child: Option<ColdChild>,
    /// cold-start runs enabled (env VERIF_COLD=0 turns them off)
    pub cold: bool,
}

/// What a cold-start child process runs: the first `count` cases of stage `stage` drawn from the stream number `index`;
/// `keep` (when given) lists the positions that are actually judged (history minimisation, replay).
#[derive(Clone, Debug)]
pub struct ColdChild {
    pub stage: String,
    pub index: u64,
    pub count: u64,
    pub keep: Option<Vec<u64>>,
}

/// Cases per cold-start process.
pub const COLD_CASES: u64 = 64;

/// Seconds without progress of one worker after which a stage is declared stalled (env VERIF_HANG_SECS).
pub fn hang_secs() -> u64 {
    std::env::var("VERIF_HANG_SECS").ok().and_then(|s| s.parse().ok()).unwrap_or(120)
}

pub fn journal_path(verif_dir: &str, prop: &str, profile: &str, stage: &str, shard: usize) -> String {
    format!("{}/replays/.journal-{}-{}-{}-{}.bin", verif_dir, prop, profile, stage.replace('.', "_"), shard)
}

fn tape_bytes(t: &[u32]) -> Vec<u8> {
    let mut b = Vec::with_capacity(12 + 4 * t.len());
    b.extend_from_slice(&(t.len() as u32).to_le_bytes());
    for c in t {
        b.extend_from_slice(&c.to_le_bytes());
    }
    // the read-buffer offset counter at the moment the case is judged (alignment-dependent crashes)
    b.extend_from_slice(&arena_calls().to_le_bytes());
    b
}

/// The offset counter stored behind the tape in a journal file, if any.
pub fn journal_arena_calls(b: &[u8]) -> Option<u64> {
    if b.len() < 4 {
        return None;
    }
    let n = u32::from_le_bytes([b[0], b[1], b[2], b[3]]) as usize;
    let at = 4 + 4 * n;
    if b.len() < at + 8 {
        return None;
    }
    let mut x = [0u8; 8];
    x.copy_from_slice(&b[at..at + 8]);
    Some(u64::from_le_bytes(x))
}

fn tape_from_bytes(b: &[u8]) -> Option<Vec<u32>> {
    if b.len() < 4 {
        return None;
    }
    let n = u32::from_le_bytes([b[0], b[1], b[2], b[3]]) as usize;
    if n == 0 || b.len() < 4 + 4 * n {
        return None;
    }
    Some((0..n).map(|i| u32::from_le_bytes([b[4 + 4 * i], b[5 + 4 * i], b[6 + 4 * i], b[7 + 4 * i]])).collect())
}

fn mix(seed: u64, prop: &str, stage: &str, shard: u64) -> u64 {
    hash_str(&format!("{}|{}|{}|{}", seed, prop, stage, shard))
}

pub fn guard<T>(f: impl FnOnce() -> T) -> Result<T, String> {
    match catch_unwind(AssertUnwindSafe(f)) {
        Ok(v) => Ok(v),
        Err(e) => {
            let msg = if let Some(s) = e.downcast_ref::<&str>() {
                s.to_string()
            } else if let Some(s) = e.downcast_ref::<String>() {
                s.clone()
            } else {
                "panic".to_string()
            };
            Err(msg)
        }
    }
}

impl Runner {
    pub fn new(prop: &'static str, tier: Tier, seed: u64, verif_dir: String) -> Runner {
        Runner {
            prop,
            tier,
            seed,
            profile: if cfg!(debug_assertions) { "checked".into() } else { "release".into() },
            replay: None,
            replay_pre: Vec::new(),
            replay_arena_calls: None,
            fail_arena_calls: None,
            replay_hit: false,
            stats: Stats::default(),
            stages: Vec::new(),
            violations: Vec::new(),
            known: Vec::new(),
            rule: String::new(),
            assumptions: Vec::new(),
            extra: BTreeMap::new(),
            exhaustive_all: false,
            inconclusive: Vec::new(),
            verif_dir,
            only: None,
            regress: Vec::new(),
            started: Instant::now(),
            journal: true,
            triage: false,
            replay_tape: None,
            cold_child: None,
            cold: std::env::var("VERIF_COLD").map(|v| v != "0").unwrap_or(true),
        }
    }

    pub fn quick(&self) -> bool {
        self.tier == Tier::Quick
    }
    /// Budget selector.
    pub fn n(&self, quick: u64, thorough: u64) -> u64 {
        // the quick tier is fixed work too: four times the per-stage base figure
        let base = if self.quick() { quick * 4 } else { thorough };
        match std::env::var("VERIF_SCALE").ok().and_then(|s| s.parse::<f64>().ok()) {
            Some(f) if f > 0.0 => ((base as f64 * f) as u64).max(1),
            _ => base,
        }
    }

    fn is_known(&self, sig: &str) -> bool {
        self.known.iter().any(|k| k.property == self.prop && k.sig == sig)
    }

    fn skip(&self, name: &str) -> bool {
        if let Some(cc) = &self.cold_child {
            return cc.stage != name;
        }
        if let Some((stage, _)) = &self.replay_tape {
            return stage != name;
        }
        if let Some((check, _)) = &self.replay {
            return check != name;
        }
        if let Some(o) = &self.only {
            return !name.contains(o.as_str());
        }
        false
    }

    fn do_replay<C: CaseIo>(&mut self, name: &str, judge: &(dyn Fn(&C, &mut Stats) -> Verdict + Sync)) {
        let (_, v) = self.replay.clone().unwrap();
        self.replay_hit = true;
        match C::from_json(&v) {
            None => self.inconclusive.push(format!("replay file does not decode as a case of check {}", name)),
            Some(c) => {
                // judged on a thread of its own, like the workers that found the case: a stack overflow depends on the stack
                // the call starts from (the main thread has four times a worker's)
                let pre: Vec<C> = self.replay_pre.iter().filter_map(|pv| C::from_json(pv)).collect();
                let ac = self.replay_arena_calls;
                let c2 = c.clone();
                let (r, st) = std::thread::scope(|s| {
                    s.spawn(move || {
                        let mut st = Stats::default();
                        for pc in &pre {
                            let mut scratch = Stats { frozen: true, ..Stats::default() };
                            let _ = guard(|| judge(pc, &mut scratch));
                        }
                        if let Some(ac) = ac {
                            set_arena_calls(ac);
                        }
                        let r = guard(|| judge(&c2, &mut st));
                        (r, st)
                    })
                    .join()
                    .unwrap_or_else(|_| (Err("the judging thread died".to_string()), Stats::default()))
                });
                self.stats.merge(st);
                let r = match r {
                    Ok(r) => r,
                    Err(p) => Err(Fail::new("harness-panic", "", name, "judge returns", format!("judge panicked: {}", p))),
                };
                if let Err(f) = r {
                    let path = self
                        .extra
                        .get("replay_source")
                        .and_then(|v| v.as_str())
                        .unwrap_or("")
                        .to_string();
                    self.violations.push(Violation { stage: name.to_string(), fail: f, case: c.to_json(), replay_path: path });
                }
            }
        }
    }

    /// Replay tier: saved cases of this check are re-judged directly, bypassing the generators.
    fn run_regress<C: CaseIo>(&mut self, name: &str, judge: &(dyn Fn(&C, &mut Stats) -> Verdict + Sync)) {
        let mine: Vec<(Value, String)> = self.regress.iter().filter(|(c, _, _)| c == name).map(|(_, v, p)| (v.clone(), p.clone())).collect();
        if mine.is_empty() {
            return;
        }
        let t0 = Instant::now();
        let mut st = Stats::default();
        let jpath = format!("{}/replays/.journal-{}-{}-{}-regress.txt", self.verif_dir, self.prop, self.profile, name.replace('.', "_"));
        if self.journal {
            let _ = std::fs::create_dir_all(format!("{}/replays", self.verif_dir));
        }
        for (v, path) in mine {
            match C::from_json(&v) {
                None => self.inconclusive.push(format!("regression file {} does not decode as a case of check {}", path, name)),
                Some(c) => {
                    let r = if self.journal {
                        // crash / stall protection: note which saved case is being judged, and judge it under a deadline
                        let _ = std::fs::write(&jpath, &path);
                        let limit = hang_secs();
                        let (tx, rx) = std::sync::mpsc::channel();
                        let prop = self.prop;
                        let out = std::thread::scope(|s| {
                            let c2 = c.clone(); // CaseIo: Clone + Send
                            s.spawn(move || {
                                let mut local = Stats::default();
                                let r = guard(|| judge(&c2, &mut local));
                                let _ = tx.send((r, local));
                            });
                            match rx.recv_timeout(std::time::Duration::from_secs(limit)) {
                                Ok(x) => x,
                                Err(_) => {
                                    // the worker is inside an endless loop and cannot be stopped: report and leave
                                    println!("VIOLATION property={} replay={}", prop, path);
                                    println!("  check={} sig=hang:{}", name, name);
                                    println!("  expected: returns normally");
                                    println!("  observed: no result after {} s on a saved case", limit);
                                    std::process::exit(1);
                                }
                            }
                        });
                        let _ = std::fs::remove_file(&jpath);
                        let (r, local) = out;
                        st.merge(local);
                        r
                    } else {
                        guard(|| judge(&c, &mut st))
                    };
                    let r = match r {
                        Ok(r) => r,
                        Err(p) => Err(Fail::new("harness-panic", "", name, "judge returns", format!("judge panicked: {}", p))),
                    };
                    st.class("regression-file");
                    if let Err(f) = r {
                        if self.is_known(&f.sig) {
                            *st.known_hits.entry(f.sig.clone()).or_insert(0) += 1;
                        } else {
                            self.violations.push(Violation { stage: name.to_string(), fail: f, case: c.to_json(), replay_path: path });
                        }
                    }
                }
            }
        }
        let label = format!("{}#regress", name);
        self.finish_stage(&label, "replay(saved cases)", st, None, t0);
    }

    /// Greedy case-level shrinking after the library's own.
    fn shrink_case<C: CaseIo>(&self, mut c: C, mut f: Fail, judge: &(dyn Fn(&C, &mut Stats) -> Verdict + Sync)) -> (C, Fail) {
        let mut st = Stats { frozen: true, ..Stats::default() };
        let mut budget = 20_000usize;
        let t0 = Instant::now();
        loop {
            let mut progressed = false;
            for cand in c.simpler() {
                if budget == 0 || t0.elapsed().as_secs() >= 20 {
                    return (c, f);
                }
                budget -= 1;
                if let Ok(Err(nf)) = guard(|| judge(&cand, &mut st)) {
                    // stay within one kind of failure and never slide into a known finding
                    if nf.kind == f.kind && !self.is_known(&nf.sig) {
                        c = cand;
                        f = nf;
                        progressed = true;
                        break;
                    }
                }
            }
            if !progressed {
                return (c, f);
            }
        }
    }

    fn record_violation<C: CaseIo>(&mut self, name: &str, c: C, f: Fail, judge: &(dyn Fn(&C, &mut Stats) -> Verdict + Sync), pre: Option<(C, C)>) {
        let (mut c, mut f) = self.shrink_case(c, f, judge);
        // Does the case fail on its own? The code under test is supposed to be stateless; if the failure needs the case
        // that the same worker judged just before it (hidden state carried from call to call), the replay file holds the
        // ORIGINAL failing case together with that predecessor, so that the replay reproduces.
        let ac = self.fail_arena_calls.take();
        let fresh = |cases: Vec<C>| -> Option<Fail> {
            std::thread::scope(|s| {
                s.spawn(move || {
                    let mut st = Stats { frozen: true, ..Stats::default() };
                    let mut last: Option<Fail> = None;
                    if let Some(v) = ac {
                        // the same offset inside the read buffer as at the first failure (minus the predecessor's call)
                        set_arena_calls(v.saturating_sub(cases.len() as u64 - 1));
                    }
                    for x in &cases {
                        last = match guard(|| judge(x, &mut st)) {
                            Ok(Ok(())) => None,
                            Ok(Err(f)) => Some(f),
                            Err(p) => Some(Fail::new("harness-panic", "", "", "judge returns", p)),
                        };
                    }
                    last
                })
                .join()
                .unwrap_or(None)
            })
        };
        let mut preceded_by: Vec<Value> = Vec::new();
        let mut note = "";
        if fresh(vec![c.clone()]).is_none() {
            note = "did not fail again when judged alone on a fresh thread: it depends on earlier calls made by the same worker";
            if let Some((p, orig)) = pre {
                if let Some(f2) = fresh(vec![p.clone(), orig.clone()]) {
                    if !self.is_known(&f2.sig) {
                        preceded_by.push(p.to_json());
                        c = orig;
                        f = f2;
                        note = "fails only after the preceding case has been judged on the same thread (state carried between calls); not shrunk";
                    }
                }
            }
        }
        let dir = format!("{}/replays", self.verif_dir);
        let _ = std::fs::create_dir_all(&dir);
        let body = json!({
            "preceded_by": preceded_by,
            "history_note": note,
            "arena_calls": ac,
            "property": self.prop,
            "check": name,
            "sig": f.sig,
            "entry_point": f.entry,
            "expected": f.expected,
            "observed": f.observed,
            "seed": self.seed,
            "tier": if self.quick() {"quick"} else {"thorough"},
            "case": c.to_json(),
        });
        let digest = hash_str(&c.to_json().to_string());
        let path = format!("{}/{}-{}-{:016x}.json", dir, self.prop, name.replace('.', "_"), digest);
        let _ = std::fs::write(&path, serde_json::to_string_pretty(&body).unwrap());
        self.violations.push(Violation { stage: name.to_string(), fail: f, case: c.to_json(), replay_path: path });
    }

    /// Triage after an abnormal end (abort, stall): every journal left behind by a worker of this stage holds the tape
    /// of the case that worker was judging. Each is re-run in a child process; a child that dies on a signal or stalls
    /// identifies a case on which the code under test crashes or hangs.
    fn triage_stage<C: CaseIo>(&mut self, name: &'static str, gen: &(dyn Fn(&mut Tape) -> C + Sync)) {
        let exe = match std::env::current_exe() {
            Ok(e) => e,
            Err(_) => return,
        };
        // a saved (regress) case was being judged when the run ended: replay that file in a child
        let rj = format!("{}/replays/.journal-{}-{}-{}-regress.txt", self.verif_dir, self.prop, self.profile, name.replace('.', "_"));
        if let Ok(path) = std::fs::read_to_string(&rj) {
            let child = std::process::Command::new(&exe)
                .arg(self.prop)
                .arg("--replay")
                .arg(path.trim())
                .env("VERIF_DIR", &self.verif_dir)
                .env("VERIF_REPLAY_CHILD", "1")
                .stdout(std::process::Stdio::null())
                .stderr(std::process::Stdio::null())
                .spawn();
            if let Ok(mut child) = child {
                let t0 = Instant::now();
                let limit = hang_secs();
                let outcome: Option<&'static str> = loop {
                    match child.try_wait() {
                        Ok(Some(status)) => break match status.code() { Some(0) | Some(1) | Some(2) => None, _ => Some("crash") },
                        Ok(None) => {
                            if t0.elapsed().as_secs() >= limit {
                                let _ = child.kill();
                                let _ = child.wait();
                                break Some("hang");
                            }
                            std::thread::sleep(std::time::Duration::from_millis(50));
                        }
                        Err(_) => break None,
                    }
                };
                if let Some(kind) = outcome {
                    let fail = Fail::new(format!("{}:{}", kind, name), "", "a saved case, in a child process", "returns normally", if kind == "crash" { "the process died".to_string() } else { format!("no result after {} s", limit) });
                    if !self.is_known(&fail.sig) {
                        self.violations.push(Violation { stage: name.to_string(), fail, case: json!({"saved_case": path.trim()}), replay_path: path.trim().to_string() });
                    }
                }
            }
            let _ = std::fs::remove_file(&rj);
        }
        for shard in 0..THREADS {
            let jpath = journal_path(&self.verif_dir, self.prop, &self.profile, name, shard);
            if !self.violations.is_empty() {
                // one reproduced crash / stall is enough; the other workers most likely met the same defect
                let _ = std::fs::remove_file(&jpath);
                continue;
            }
            let raw = std::fs::read(&jpath).unwrap_or_default();
            let jcalls = journal_arena_calls(&raw);
            let tape = match tape_from_bytes(&raw) {
                Some(t) => t,
                None => {
                    let _ = std::fs::remove_file(&jpath);
                    continue;
                }
            };
            let child = std::process::Command::new(&exe)
                .arg(self.prop)
                .arg("--tier")
                .arg(if self.quick() { "quick" } else { "thorough" })
                .arg("--replay-tape")
                .arg(&jpath)
                .arg("--stage")
                .arg(name)
                .arg("--no-evidence")
                .env("VERIF_DIR", &self.verif_dir)
                .stdout(std::process::Stdio::null())
                .stderr(std::process::Stdio::null())
                .spawn();
            let mut child = match child {
                Ok(c) => c,
                Err(_) => continue,
            };
            let t0 = Instant::now();
            let limit = hang_secs();
            let outcome: Option<&'static str> = loop {
                match child.try_wait() {
                    Ok(Some(status)) => {
                        break match status.code() {
                            Some(0) | Some(1) | Some(2) => None, // returned normally (an ordinary violation is reported by the ordinary run)
                            _ => Some("crash"),
                        };
                    }
                    Ok(None) => {
                        if t0.elapsed().as_secs() >= limit {
                            let _ = child.kill();
                            let _ = child.wait();
                            break Some("hang");
                        }
                        std::thread::sleep(std::time::Duration::from_millis(50));
                    }
                    Err(_) => break None,
                }
            };
            self.stats.evals += 1;
            if let Some(kind) = outcome {
                let c = gen(&mut Tape::new(&tape));
                let fail = Fail::new(
                    format!("{}:{}", kind, name),
                    "",
                    "the calls this check makes on the generated case, in a child process",
                    "returns normally",
                    if kind == "crash" { "the process died (stack overflow, abort or fatal signal)".to_string() } else { format!("no result after {} s", limit) },
                );
                let dir = format!("{}/replays", self.verif_dir);
                let body = json!({
                    "property": self.prop, "check": name, "sig": fail.sig, "entry_point": fail.entry,
                    "expected": fail.expected, "observed": fail.observed, "seed": self.seed, "found_by": "crash/stall triage", "case": c.to_json(),
                    "arena_calls": jcalls,
                });
                let digest = hash_str(&c.to_json().to_string());
                let path = format!("{}/{}-{}-{}-{:016x}.json", dir, self.prop, name.replace('.', "_"), kind, digest);
                let _ = std::fs::write(&path, serde_json::to_string_pretty(&body).unwrap());
                if !self.is_known(&fail.sig) {
                    self.violations.push(Violation { stage: name.to_string(), fail, case: c.to_json(), replay_path: path });
                }
            }
            let _ = std::fs::remove_file(&jpath);
        }
    }

    /// Random stage: `cases` tapes of `tape_len` cells drawn by proptest, split over threads.
    pub fn random<C: CaseIo>(
        &mut self,
        name: &'static str,
        cases: u64,
        tape_len: usize,
        gen: &(dyn Fn(&mut Tape) -> C + Sync),
        judge: &(dyn Fn(&C, &mut Stats) -> Verdict + Sync),
    ) {
        if self.skip(name) {
            return;
        }
        if let Some(cc) = self.cold_child.clone() {
            self.cold_child_run(name, &cc, tape_len, gen, judge);
        }
        if self.replay.is_some() {
            return self.do_replay(name, judge);
        }
        if let Some((_, tape)) = self.replay_tape.clone() {
            // child of a triage run: this one case, in-process (a crash or stall here is what the parent looks for)
            self.replay_hit = true;
            let c = gen(&mut Tape::new(&tape));
            let ac = self.replay_arena_calls;
            // on a thread of its own, with a worker's stack (see do_replay)
            let c2 = c.clone();
            let r = std::thread::scope(|s| {
                s.spawn(move || {
                    let mut st = Stats::default();
                    if let Some(ac) = ac {
                        set_arena_calls(ac);
                    }
                    guard(|| judge(&c2, &mut st))
                })
                .join()
            });
            if let Ok(Ok(Err(f))) = r {
                self.violations.push(Violation { stage: name.to_string(), fail: f, case: c.to_json(), replay_path: String::new() });
            }
            return;
        }
        if self.triage {
            return self.triage_stage(name, gen);
        }
        self.run_regress(name, judge);
        let t0 = Instant::now();
        let shards = THREADS.min(cases.max(1) as usize).max(1);
        let per = (cases + shards as u64 - 1) / shards as u64;
        let stop = AtomicBool::new(false);
        let results: Mutex<Vec<(usize, Stats, Option<(C, Fail)>, Option<(C, C)>, Option<u64>)>> = Mutex::new(Vec::new());
        let known: Vec<String> = self.known.iter().filter(|k| k.property == self.prop).map(|k| k.sig.clone()).collect();
        let (seed, prop) = (self.seed, self.prop);
        let journal = self.journal;
        let (verif_dir, profile) = (self.verif_dir.clone(), self.profile.clone());
        if journal {
            let _ = std::fs::create_dir_all(format!("{}/replays", verif_dir));
        }
        let progress: Vec<std::sync::atomic::AtomicU64> = (0..shards).map(|_| std::sync::atomic::AtomicU64::new(0)).collect();
        let finished = std::sync::atomic::AtomicUsize::new(0);
        std::thread::scope(|s| {
            if journal {
                // stall monitor: a worker that judges no case for hang_secs() has met an endless loop in the code under test
                let (progress, finished) = (&progress, &finished);
                s.spawn(move || {
                    let limit = hang_secs();
                    let mut last: Vec<(u64, Instant)> = progress.iter().map(|p| (p.load(Ordering::Relaxed), Instant::now())).collect();
                    while finished.load(Ordering::Relaxed) < shards {
                        std::thread::sleep(std::time::Duration::from_millis(500));
                        for (i, p) in progress.iter().enumerate() {
                            let v = p.load(Ordering::Relaxed);
                            if v == u64::MAX {
                                continue; // this worker is done
                            }
                            if v != last[i].0 {
                                last[i] = (v, Instant::now());
                            } else if last[i].1.elapsed().as_secs() >= limit {
                                eprintln!("STALL in stage {}: worker {} has been inside one case for {} s; run with --triage to identify the case", name, i, limit);
                                std::process::exit(3);
                            }
                        }
                    }
                });
            }
            for shard in 0..shards {
                let (stop, results, known) = (&stop, &results, &known);
                let (progress, finished) = (&progress, &finished);
                let jpath = journal_path(&verif_dir, prop, &profile, name, shard);
                s.spawn(move || {
                    let jfile = if journal { std::fs::OpenOptions::new().create(true).write(true).truncate(true).open(&jpath).ok() } else { None };
                    let st = std::cell::RefCell::new(Stats::default());
                    let mut found: Option<(C, Fail)> = None;
                    let cfg = Config {
                        cases: per as u32,
                        failure_persistence: None,
                        rng_seed: RngSeed::Fixed(mix(seed, prop, name, shard as u64)),
                        max_shrink_iters: 60_000,
                        // shrinking is bounded in time as well: a less minimal case is still a reproducible one
                        max_shrink_time: 20_000,
                        max_local_rejects: 1,
                        max_global_rejects: 1,
                        verbose: 0,
                        ..Config::default()
                    };
                    let mut runner = TestRunner::new(cfg);
                    let strat = proptest::collection::vec(proptest::num::u32::ANY, tape_len);
                    let last_fail: std::cell::RefCell<Option<Fail>> = std::cell::RefCell::new(None);
                    // the tape judged just before the current one, and the one that preceded the first failure
                    let prev_tape: std::cell::RefCell<Option<Vec<u32>>> = std::cell::RefCell::new(None);
                    let pre_at_fail: std::cell::RefCell<Option<(Vec<u32>, Vec<u32>)>> = std::cell::RefCell::new(None);
                    let calls_at_fail: std::cell::Cell<Option<u64>> = std::cell::Cell::new(None);
                    let res = runner.run(&strat, |tape| {
                        let mut st = st.borrow_mut();
                        let st = &mut *st;
                        let mut last_fail = last_fail.borrow_mut();
                        if stop.load(Ordering::Relaxed) && !st.frozen {
                            return Ok(());
                        }
                        if let Some(f) = &jfile {
                            use std::os::unix::fs::FileExt;
                            let _ = f.write_all_at(&tape_bytes(&tape), 0);
                            progress[shard].fetch_add(1, Ordering::Relaxed);
                        }
                        let c = gen(&mut Tape::new(&tape));
                        let calls_before = arena_calls();
                        let r = match guard(|| judge(&c, st)) {
                            Ok(r) => r,
                            Err(p) => Err(Fail::new("harness-panic", "", name, "judge returns", format!("judge panicked: {}", p))),
                        };
                        match r {
                            Ok(()) => {
                                if !st.frozen {
                                    *prev_tape.borrow_mut() = Some(tape.clone());
                                }
                                Ok(())
                            }
                            Err(f) => {
                                if !st.frozen {
                                    *pre_at_fail.borrow_mut() = prev_tape.borrow().clone().map(|p| (p, tape.clone()));
                                    calls_at_fail.set(Some(calls_before));
                                }
                                if known.iter().any(|k| *k == f.sig) {
                                    if !st.frozen {
                                        *st.known_hits.entry(f.sig.clone()).or_insert(0) += 1;
                                    }
                                    return Ok(());
                                }
                                // when shrinking, stay on the first signature
                                if let Some(prev) = &*last_fail {
                                    if prev.kind != f.kind && st.frozen {
                                        return Ok(());
                                    }
                                }
                                st.frozen = true;
                                stop.store(true, Ordering::Relaxed);
                                let msg = f.kind.clone();
                                *last_fail = Some(f);
                                Err(TestCaseError::fail(msg))
                            }
                        }
                    });
                    if let Err(TestError::Fail(_, tape)) = res {
                        let c = gen(&mut Tape::new(&tape));
                        let mut scratch = Stats { frozen: true, ..Stats::default() };
                        if let Ok(Err(f)) = guard(|| judge(&c, &mut scratch)) {
                            found = Some((c, f));
                        } else if let Some(f) = last_fail.into_inner() {
                            found = Some((c, f));
                        }
                    }
                    let mut st = st.into_inner();
                    st.frozen = false;
                    if jfile.is_some() {
                        // finished cleanly: nothing to triage for this worker
                        drop(jfile);
                        let _ = std::fs::remove_file(&jpath);
                        progress[shard].store(u64::MAX, Ordering::Relaxed);
                    }
                    finished.fetch_add(1, Ordering::Relaxed);
                    let pre = if found.is_some() { pre_at_fail.into_inner().map(|(p, o)| (gen(&mut Tape::new(&p)), gen(&mut Tape::new(&o)))) } else { None };
                    results.lock().unwrap().push((shard, st, found, pre, calls_at_fail.get()));
                });
            }
        });
        let mut stage = Stats::default();
        let mut first: Option<(C, Fail)> = None;
        let mut pre: Option<(C, C)> = None;
        let mut fail_calls: Option<u64> = None;
        // merge in shard order so that samples and the reported failure do not depend on thread timing
        let mut shard_results = results.into_inner().unwrap();
        shard_results.sort_by_key(|x| x.0);
        for (_, st, f, p, ac) in shard_results {
            stage.merge(st);
            if first.is_none() && f.is_some() {
                first = f;
                pre = p;
                fail_calls = ac;
            }
        }
        self.fail_arena_calls = fail_calls;
        self.finish_stage(name, "random(proptest tape)", stage, None, t0);
        if let Some((c, f)) = first {
            self.record_violation(name, c, f, judge, pre);
        } else if self.cold && self.violations.is_empty() && self.only.is_none() {
            self.cold_parent(name);
        }
    }

    /// Cold-start child: the first cases of this stage, judged one after the other on the main thread of a process that
    /// has made no other call into the code under test (no self-test, no saved cases, no other stage). Never returns.
    fn cold_child_run<C: CaseIo>(&mut self, name: &'static str, cc: &ColdChild, tape_len: usize, gen: &(dyn Fn(&mut Tape) -> C + Sync), judge: &(dyn Fn(&C, &mut Stats) -> Verdict + Sync)) -> ! {
        use std::io::Write;
        let cfg = Config { failure_persistence: None, rng_seed: RngSeed::Fixed(mix(self.seed, self.prop, name, 1_000_000 + cc.index)), ..Config::default() };
        let mut runner = TestRunner::new(cfg);
        let strat = proptest::collection::vec(proptest::num::u32::ANY, tape_len);
        let mut st = Stats::default();
        let out = std::io::stdout();
        for j in 0..cc.count {
            let tape = match strat.new_tree(&mut runner) {
                Ok(t) => t.current(),
                Err(_) => break,
            };
            if let Some(k) = &cc.keep {
                if !k.contains(&j) {
                    continue;
                }
            }
            {
                let mut o = out.lock();
                let _ = writeln!(o, "COLD-AT {}", j);
                let _ = o.flush();
            }
            let c = gen(&mut Tape::new(&tape));
            let r = match guard(|| judge(&c, &mut st)) {
                Ok(r) => r,
                Err(p) => Err(Fail::new("harness-panic", "", name, "judge returns", format!("judge panicked: {}", p))),
            };
            if let Err(f) = r {
                if self.is_known(&f.sig) {
                    continue;
                }
                let body = json!({"at": j, "sig": f.sig, "kind": f.kind, "entry": f.entry, "expected": f.expected, "observed": f.observed, "case": c.to_json()});
                println!("COLD-FAIL {}", body);
                std::process::exit(1);
            }
        }
        println!("COLD-OK evals={} nontrivial={} discarded={}", st.evals, st.nontrivial.len() as u64 + st.nontrivial_counted, st.discarded);
        std::process::exit(0);
    }

    fn cold_spawn(&self, name: &str, index: u64, keep: Option<&[u64]>) -> Option<std::process::Child> {
        let exe = std::env::current_exe().ok()?;
        let mut cmd = std::process::Command::new(exe);
        cmd.arg(self.prop)
            .arg("--tier")
            .arg(if self.quick() { "quick" } else { "thorough" })
            .arg("--cold-stage")
            .arg(name)
            .arg("--cold-index")
            .arg(index.to_string())
            .arg("--cold-count")
            .arg(COLD_CASES.to_string());
        if let Some(k) = keep {
            cmd.arg("--cold-keep").arg(k.iter().map(|v| v.to_string()).collect::<Vec<_>>().join(","));
        }
        cmd.env("VERIF_DIR", &self.verif_dir)
            .env("VERIF_SEED", (self.seed as i64).to_string())
            .env("VERIF_WORKER", "1")
            .stdout(std::process::Stdio::piped())
            .stderr(std::process::Stdio::null())
            .spawn()
            .ok()
    }

    /// Waits for a cold-start child: (exit code or None for a signal / a kill after the deadline, stdout, timed out).
    fn cold_wait(child: std::process::Child) -> (Option<i32>, String, bool) {
        use std::io::Read;
        let mut child = child;
        let limit = hang_secs();
        let mut so = child.stdout.take();
        let reader = std::thread::spawn(move || {
            let mut s = String::new();
            if let Some(o) = so.as_mut() {
                let _ = o.read_to_string(&mut s);
            }
            s
        });
        let t0 = Instant::now();
        let mut timed_out = false;
        let code = loop {
            match child.try_wait() {
                Ok(Some(status)) => break status.code(),
                Ok(None) => {
                    if t0.elapsed().as_secs() >= limit {
                        let _ = child.kill();
                        let _ = child.wait();
                        timed_out = true;
                        break None;
                    }
                    std::thread::sleep(std::time::Duration::from_millis(2));
                }
                Err(_) => break Some(2),
            }
        };
        (code, reader.join().unwrap_or_default(), timed_out)
    }

    /// What one finished cold-start child says: Ok((evals, nontrivial, discarded)) or Err((position, sig, fail, case json)).
    fn cold_outcome(&self, name: &str, code: Option<i32>, out: &str, timed_out: bool) -> Result<(u64, u64, u64), Option<(u64, Fail, Value)>> {
        let last_at = out.lines().rev().find_map(|l| l.strip_prefix("COLD-AT ").and_then(|v| v.trim().parse::<u64>().ok()));
        match code {
            Some(0) => {
                let mut nums = (0u64, 0u64, 0u64);
                if let Some(l) = out.lines().rev().find(|l| l.starts_with("COLD-OK")) {
                    for w in l.split_whitespace() {
                        if let Some(v) = w.strip_prefix("evals=") {
                            nums.0 = v.parse().unwrap_or(0);
                        } else if let Some(v) = w.strip_prefix("nontrivial=") {
                            nums.1 = v.parse().unwrap_or(0);
                        } else if let Some(v) = w.strip_prefix("discarded=") {
                            nums.2 = v.parse().unwrap_or(0);
                        }
                    }
                }
                Ok(nums)
            }
            Some(1) => {
                let body = out.lines().rev().find_map(|l| l.strip_prefix("COLD-FAIL ")).and_then(|b| serde_json::from_str::<Value>(b).ok());
                match body {
                    Some(b) => {
                        let mut f = Fail::new(b["kind"].as_str().unwrap_or(""), "", b["entry"].as_str().unwrap_or(""), b["expected"].as_str().unwrap_or(""), b["observed"].as_str().unwrap_or(""));
                        f.sig = b["sig"].as_str().unwrap_or("").to_string();
                        Err(Some((b["at"].as_u64().unwrap_or(0), f, b["case"].clone())))
                    }
                    None => Err(None),
                }
            }
            None => {
                // died on a signal, or had to be killed after the deadline: the code under test crashed or hangs on the
                // case announced last
                let kind = if timed_out { "hang" } else { "crash" };
                let f = Fail::new(format!("{}:{}", kind, name), "", "the calls this check makes on the generated cases, in a fresh process", "returns normally", if timed_out { format!("no result after {} s", hang_secs()) } else { "the process died (stack overflow, abort or fatal signal)".to_string() });
                Err(Some((last_at.unwrap_or(0), f, json!({"cold_start_position": last_at}))))
            }
            Some(_) => Err(None),
        }
    }

    /// Cold-start runs of the stage that has just finished: a few fresh processes each judge the first cases of their own
    /// stream, so that state the code under test builds up early in a process (a table filled by the first N calls, a
    /// value latched from the first input, a lazily initialised static) is met while it is still being built. A failure
    /// is replayed by re-running the same prefix in another fresh process; the prefix is minimised first.
    fn cold_parent(&mut self, name: &'static str) {
        let t0 = Instant::now();
        let nproc: u64 = if self.quick() { 16 } else { 64 };
        let mut stage = Stats::default();
        let mut failure: Option<(u64, u64, Fail, Value)> = None;
        let mut idx = 0u64;
        while idx < nproc && failure.is_none() {
            let batch: Vec<(u64, std::process::Child)> = (idx..(idx + THREADS as u64).min(nproc)).filter_map(|i| self.cold_spawn(name, i, None).map(|c| (i, c))).collect();
            idx += THREADS as u64;
            for (i, child) in batch {
                let (code, out, timed_out) = Self::cold_wait(child);
                match self.cold_outcome(name, code, &out, timed_out) {
                    Ok((e, n, d)) => {
                        stage.evals += e;
                        stage.nontrivial_counted += n;
                        stage.discarded += d;
                        stage.class("cold-start-process");
                    }
                    Err(Some((at, f, case))) => {
                        if failure.is_none() && !self.is_known(&f.sig) {
                            failure = Some((i, at, f, case));
                        }
                    }
                    Err(None) => self.inconclusive.push(format!("cold-start process {} of stage {} ended with exit code {:?} and no verdict", i, name, code)),
                }
            }
        }
        let label = format!("{}#cold", name);
        // the children's discards were already accounted for by the stage proper
        stage.discarded = 0;
        self.finish_stage(&label, "random(proptest tape), first cases in fresh processes", stage, None, t0);
        let (index, at, fail, case) = match failure {
            Some(x) => x,
            None => return,
        };
        // minimise the history: which of the earlier cases does the failure need?
        let same = |this: &Self, keep: &[u64]| -> bool {
            match this.cold_spawn(name, index, Some(keep)) {
                Some(child) => {
                    let (code, out, timed_out) = Self::cold_wait(child);
                    matches!(this.cold_outcome(name, code, &out, timed_out), Err(Some((a, f, _))) if f.sig == fail.sig && (a == at || code.is_none()))
                }
                None => false,
            }
        };
        let mut keep: Vec<u64> = (0..=at).collect();
        if same(self, &[at]) {
            keep = vec![at];
        } else if same(self, &keep) {
            let mut chunk = (keep.len() - 1 + 1) / 2;
            while chunk >= 1 && keep.len() > 1 {
                let mut start = 0usize;
                let mut removed_any = false;
                while start < keep.len() - 1 {
                    let end = (start + chunk).min(keep.len() - 1);
                    let cand: Vec<u64> = keep[..start].iter().chain(keep[end..].iter()).cloned().collect();
                    if same(self, &cand) {
                        keep = cand;
                        removed_any = true;
                    } else {
                        start = end;
                    }
                }
                if chunk == 1 && !removed_any {
                    break;
                }
                chunk = if chunk == 1 { if removed_any { 1 } else { 0 } } else { (chunk + 1) / 2 };
                if chunk == 0 {
                    break;
                }
            }
        }
        let dir = format!("{}/replays", self.verif_dir);
        let _ = std::fs::create_dir_all(&dir);
        let body = json!({
            "property": self.prop, "check": name, "sig": fail.sig, "entry_point": fail.entry, "expected": fail.expected, "observed": fail.observed,
            "seed": self.seed, "tier": if self.quick() {"quick"} else {"thorough"}, "found_by": "cold-start run (fresh process)",
            "history_note": "the failure shows in a process that has made no other call into the library; the replay re-runs the listed positions of the same case stream in a fresh process",
            "cold": {"stage": name, "index": index, "count": COLD_CASES, "keep": keep},
            "case": case,
        });
        let path = format!("{}/{}-{}-cold-{:016x}.json", dir, self.prop, name.replace('.', "_"), hash_str(&body.to_string()));
        let _ = std::fs::write(&path, serde_json::to_string_pretty(&body).unwrap());
        self.violations.push(Violation { stage: name.to_string(), fail, case, replay_path: path });
    }

    /// Bulk stage: `work(shard, nshards, stats)` enumerates its slice of a space with plain loops
    /// and returns the first failing case. `judge` re-evaluates a single case (shrinking, replay).
    pub fn bulk<C: CaseIo>(
        &mut self,
        name: &'static str,
        exhaustive_space: Option<&str>,
        work: &(dyn Fn(usize, usize, &mut Stats, &AtomicBool) -> Option<(C, Fail)> + Sync),
        judge: &(dyn Fn(&C, &mut Stats) -> Verdict + Sync),
    ) {
        if self.skip(name) {
            return;
        }
        if self.replay.is_some() {
            return self.do_replay(name, judge);
        }
        if self.triage || self.replay_tape.is_some() {
            return; // enumeration stages keep no journal
        }
        self.run_regress(name, judge);
        let t0 = Instant::now();
        let results: Mutex<Vec<(usize, Stats, Option<(C, Fail)>)>> = Mutex::new(Vec::new());
        let stop = AtomicBool::new(false);
        std::thread::scope(|s| {
            for shard in 0..THREADS {
                let (results, stop) = (&results, &stop);
                s.spawn(move || {
                    let mut st = Stats::default();
                    let r = match guard(|| work(shard, THREADS, &mut st, stop)) {
                        Ok(r) => r,
                        Err(p) => {
                            eprintln!("harness panic in bulk stage {}: {}", name, p);
                            std::process::exit(2);
                        }
                    };
                    if r.is_some() {
                        stop.store(true, Ordering::Relaxed);
                    }
                    results.lock().unwrap().push((shard, st, r));
                });
            }
        });
        let mut v = results.into_inner().unwrap();
        v.sort_by_key(|x| x.0);
        let mut stage = Stats::default();
        let mut fails: Vec<(C, Fail)> = Vec::new();
        for (_, st, f) in v {
            stage.merge(st);
            if let Some(x) = f {
                fails.push(x);
            }
        }
        let stopped_early = !fails.is_empty();
        self.finish_stage(name, "bulk(enumeration)", stage, if stopped_early { None } else { exhaustive_space }, t0);
        // report the first failure whose signature is not known; count the known ones
        let mut reported = false;
        for (c, f) in fails {
            if self.is_known(&f.sig) {
                *self.stats.known_hits.entry(f.sig.clone()).or_insert(0) += 1;
                continue;
            }
            if !reported {
                self.record_violation(name, c, f, judge, None);
                reported = true;
            }
        }
    }

    /// Filter for bulk workers: true if this failure is listed as known (the worker should
    /// count it and carry on instead of returning it).
    pub fn known_sigs(&self) -> Vec<String> {
        self.known.iter().filter(|k| k.property == self.prop).map(|k| k.sig.clone()).collect()
    }

    fn finish_stage(&mut self, name: &str, kind: &str, stage: Stats, space: Option<&str>, t0: Instant) {
        let nontriv = stage.nontrivial.len() as u64 + stage.nontrivial_counted;
        // too many discards make a stage inconclusive, never a violation
        if stage.evals + stage.discarded > 0 && stage.discarded * 5 > (stage.evals + stage.discarded) {
            self.inconclusive.push(format!(
                "stage {} discarded {} of {} candidates (> 20 %)",
                name,
                stage.discarded,
                stage.evals + stage.discarded
            ));
        }
        self.stages.push(StageReport {
            name: name.to_string(),
            kind: kind.to_string(),
            evals: stage.evals,
            nontrivial: nontriv,
            discarded: stage.discarded,
            exhaustive_space: space.map(|s| s.to_string()),
            wall_s: t0.elapsed().as_secs_f64(),
        });
        self.stats.merge(stage);
    }

    pub fn evidence(&self, level: &str) -> Value {
        let mut samples: Vec<Value> = Vec::new();
        for (class, v) in &self.stats.samples {
            for s in v {
                if samples.len() < 40 {
                    samples.push(json!({"class": class, "case": s}));
                }
            }
        }
        let stages: Vec<Value> = self
            .stages
            .iter()
            .map(|s| {
                json!({"stage": s.name, "engine": s.kind, "evaluations": s.evals, "distinct_nontrivial": s.nontrivial,
                       "discarded": s.discarded, "exhaustive_space": s.exhaustive_space, "wall_s": (s.wall_s*1000.0).round()/1000.0})
            })
            .collect();
        let exhaustive_spaces: Vec<String> = self.stages.iter().filter_map(|s| s.exhaustive_space.clone()).collect();
        let mut cov = serde_json::Map::new();
        cov.insert("evaluations".into(), json!(self.stats.evals));
        cov.insert("distinct_nontrivial".into(), json!(self.stats.nontrivial.len() as u64 + self.stats.nontrivial_counted));
        cov.insert("rule".into(), json!(self.rule));
        cov.insert("samples".into(), json!(samples));
        cov.insert("classes".into(), json!(self.stats.classes));
        cov.insert("stages".into(), json!(stages));
        cov.insert("discarded".into(), json!(self.stats.discarded));
        cov.insert("exhaustive".into(), json!(self.exhaustive_all));
        cov.insert("exhaustive_subspaces".into(), json!(exhaustive_spaces));
        cov.insert("known_finding_hits".into(), json!(self.stats.known_hits));
        cov.insert("build_profile".into(), json!(self.profile));
        if let Some(o) = &self.only {
            cov.insert("partial_run_only_stages_matching".into(), json!(o));
        }
        for (k, v) in &self.extra {
            cov.insert(k.clone(), v.clone());
        }
        json!({
            "property_id": self.prop,
            "tier": if self.quick() {"quick"} else {"thorough"},
            "seed": self.seed,
            "level": level,
            "coverage": Value::Object(cov),
            "assumptions": self.assumptions,
            "wall_s": (self.started.elapsed().as_secs_f64()*1000.0).round()/1000.0,
            "violations": self.violations.len(),
            "inconclusive": self.inconclusive,
        })
    }
}

pub fn load_known(verif_dir: &str) -> Vec<Known> {
    let mut out = Vec::new();
    let path = format!("{}/KNOWN_FINDINGS.txt", verif_dir);
    if let Ok(text) = std::fs::read_to_string(&path) {
        for line in text.lines() {
            let line = line.trim();
            if !line.starts_with("known:") {
                continue;
            }
            let rest = line["known:".len()..].trim();
            let mut property = String::new();
            let mut sig = String::new();
            let mut words: Vec<&str> = Vec::new();
            for w in rest.split_whitespace() {
                if let Some(p) = w.strip_prefix("property=") {
                    if property.is_empty() {
                        property = p.to_string();
                        continue;
                    }
                }
                if let Some(s) = w.strip_prefix("sig=") {
                    if sig.is_empty() {
                        sig = s.to_string();
                        continue;
                    }
                }
                words.push(w);
            }
            if !property.is_empty() && !sig.is_empty() {
                out.push(Known { property, sig, text: words.join(" ") });
            }
        }
    }
    out
}

// Keep the unused-import lint quiet for items used only through the trait objects above.
#[allow(dead_code)]
fn _unused(_: &dyn ValueTree<Value = u8>, _: &dyn Fn() -> Box<dyn Strategy<Value = u8, Tree = proptest::num::u8::BinarySearch>>) {}

pub fn load_regress(verif_dir: &str, prop: &str) -> Vec<(String, Value, String)> {
    let mut out = Vec::new();
    let dir = format!("{}/regress/{}", verif_dir, prop);
    let mut names: Vec<String> = match std::fs::read_dir(&dir) {
        Ok(rd) => rd.filter_map(|e| e.ok()).map(|e| e.path().to_string_lossy().to_string()).filter(|p| p.ends_with(".json")).collect(),
        Err(_) => return out,
    };
    names.sort();
    for p in names {
        if let Some(v) = std::fs::read(&p).ok().and_then(|t| serde_json::from_slice::<Value>(&t).ok()) {
            if let (Some(check), Some(case)) = (v.get("check").and_then(|c| c.as_str()), v.get("case")) {
                out.push((check.to_string(), case.clone(), p.clone()));
            }
        }
    }
    out
}
