use ppp_verif::engine::{load_known, Runner, Tier};
use ppp_verif::{props, selftest};
use std::process::exit;

fn usage() -> ! {
    eprintln!("usage: ppp-verif <C01..C20> [--tier quick|thorough] [--replay <file>] [--only <stage-substring>] [--evidence-out <file>] [--no-evidence] [--triage] [--replay-tape <file> --stage <name>]");
    exit(2);
}

fn main() {
    std::panic::set_hook(Box::new(|_| {}));
    let args: Vec<String> = std::env::args().skip(1).collect();
    if args.is_empty() {
        usage();
    }
    let id = args[0].to_uppercase();
    let prop: &'static str = match props::ALL.iter().find(|p| **p == id) {
        Some(p) => p,
        None => usage(),
    };
    let mut tier = match std::env::var("VERIF_TIER").as_deref() {
        Ok("thorough") => Tier::Thorough,
        _ => Tier::Quick,
    };
    let mut replay: Option<String> = None;
    let mut only: Option<String> = None;
    let mut evidence_out: Option<String> = None;
    let mut no_evidence = false;
    let mut merge_evidence: Option<String> = None;
    let mut triage = false;
    let mut replay_tape: Option<String> = None;
    let mut stage: Option<String> = None;
    let mut cold: Option<ppp_verif::engine::ColdChild> = None;
    let mut i = 1;
    while i < args.len() {
        match args[i].as_str() {
            "--tier" => {
                i += 1;
                tier = match args.get(i).map(|s| s.as_str()) {
                    Some("quick") => Tier::Quick,
                    Some("thorough") => Tier::Thorough,
                    _ => usage(),
                };
            }
            "--replay" => {
                i += 1;
                replay = Some(args.get(i).cloned().unwrap_or_else(|| usage()));
            }
            "--only" => {
                i += 1;
                only = Some(args.get(i).cloned().unwrap_or_else(|| usage()));
            }
            "--evidence-out" => {
                i += 1;
                evidence_out = Some(args.get(i).cloned().unwrap_or_else(|| usage()));
            }
            "--no-evidence" => no_evidence = true,
            "--triage" => {
                triage = true;
                no_evidence = true;
            }
            "--fuzz-input" => {
                // judge one input of a fuzz target (a saved corpus unit / slow unit) in this non-sanitised build and say how long it took
                i += 1;
                let path = args.get(i).cloned().unwrap_or_else(|| usage());
                let data = std::fs::read(&path).unwrap_or_default();
                let t0 = std::time::Instant::now();
                let f = match ppp_verif::fuzzapi::target_of(prop) {
                    Some("fz_tape") => ppp_verif::fuzzapi::judge_tape(prop, &data),
                    Some("fz_pair") => ppp_verif::fuzzapi::judge_pair(prop, &data),
                    _ => ppp_verif::fuzzapi::judge_bytes(prop, &data),
                };
                println!("fuzz input {} ({} bytes): {} in {:?}", path, data.len(), if f.is_some() { "FINDING" } else { "no finding" }, t0.elapsed());
                exit(if f.is_some() { 1 } else { 0 });
            }
            "--replay-tape" => {
                i += 1;
                replay_tape = Some(args.get(i).cloned().unwrap_or_else(|| usage()));
                no_evidence = true;
            }
            "--stage" => {
                i += 1;
                stage = Some(args.get(i).cloned().unwrap_or_else(|| usage()));
            }
            "--cold-stage" => {
                i += 1;
                let st = args.get(i).cloned().unwrap_or_else(|| usage());
                cold = Some(ppp_verif::engine::ColdChild { stage: st, index: 0, count: ppp_verif::engine::COLD_CASES, keep: None });
                no_evidence = true;
            }
            "--cold-index" | "--cold-count" => {
                let which = args[i].clone();
                i += 1;
                let v: u64 = args.get(i).and_then(|s| s.parse().ok()).unwrap_or_else(|| usage());
                match cold.as_mut() {
                    Some(c) if which == "--cold-index" => c.index = v,
                    Some(c) => c.count = v,
                    None => usage(),
                }
            }
            "--cold-keep" => {
                i += 1;
                let list: Vec<u64> = args.get(i).map(|s| s.split(',').filter_map(|x| x.trim().parse().ok()).collect()).unwrap_or_else(|| usage());
                match cold.as_mut() {
                    Some(c) => c.keep = Some(list),
                    None => usage(),
                }
            }
            "--merge-evidence" => {
                i += 1;
                merge_evidence = Some(args.get(i).cloned().unwrap_or_else(|| usage()));
            }
            _ => usage(),
        }
        i += 1;
    }
    let seed: u64 = std::env::var("VERIF_SEED").ok().and_then(|s| s.trim().parse::<i64>().ok()).map(|v| v as u64).unwrap_or(1);
    let verif_dir = std::env::var("VERIF_DIR").unwrap_or_else(|_| "/verif".to_string());

    // Supervision (every check since round 12; C03 and C11 before): the check proper runs in a child process; if the child dies on a signal, aborts or stalls,
    // this process runs the triage of the journalled cases and reports the culprit (engine::triage_stage).
    let supervised = replay.is_none() && !triage && replay_tape.is_none() && std::env::var("VERIF_WORKER").is_err();
    if supervised {
        // stale journals from an earlier run would confuse the triage
        if let Ok(rd) = std::fs::read_dir(format!("{}/replays", verif_dir)) {
            for e in rd.flatten() {
                let n = e.file_name().to_string_lossy().to_string();
                if n.starts_with(&format!(".journal-{}-", prop)) {
                    let _ = std::fs::remove_file(e.path());
                }
            }
        }
        let exe = std::env::current_exe().unwrap();
        let status = std::process::Command::new(&exe).args(&args).env("VERIF_WORKER", "1").status();
        let code = status.ok().and_then(|s| s.code());
        match code {
            Some(c @ (0 | 1 | 2)) => exit(c),
            other => {
                eprintln!("  abnormal end of the worker process ({:?}): triage of the journalled cases", other);
                triage = true;
                no_evidence = true;
            }
        }
    }

    // a cold-start child makes no call into the library before its stage: no self-test, no saved cases
    if cold.is_none() {
        if let Err(e) = selftest::run() {
            eprintln!("HARNESS-ERROR oracle self-test failed: {}", e);
            exit(2);
        }
    }

    let mut r = Runner::new(prop, tier, seed, verif_dir.clone());
    r.known = load_known(&verif_dir);
    if replay.is_none() && !triage && replay_tape.is_none() && cold.is_none() {
        r.regress = ppp_verif::engine::load_regress(&verif_dir, prop);
    }
    r.cold_child = cold.clone();
    r.triage = triage;
    if let Some(path) = &replay_tape {
        let cells: Option<Vec<u32>> = std::fs::read(path).ok().and_then(|b| {
            if b.len() < 4 {
                return None;
            }
            let n = u32::from_le_bytes([b[0], b[1], b[2], b[3]]) as usize;
            if b.len() < 4 + 4 * n {
                return None;
            }
            Some((0..n).map(|i| u32::from_le_bytes([b[4 + 4 * i], b[5 + 4 * i], b[6 + 4 * i], b[7 + 4 * i]])).collect())
        });
        r.replay_arena_calls = std::fs::read(path).ok().and_then(|b| ppp_verif::engine::journal_arena_calls(&b));
        match (cells, stage.clone()) {
            (Some(c), Some(s)) => r.replay_tape = Some((s, c)),
            _ => {
                eprintln!("HARNESS-ERROR --replay-tape needs a readable tape file and --stage");
                exit(2);
            }
        }
    }
    // a saved cold-start failure is replayed by running the same positions of the same case stream in a fresh process
    if let Some(path) = &replay {
        let v: Option<serde_json::Value> = std::fs::read(path).ok().and_then(|t| serde_json::from_slice(&t).ok());
        if let Some(cv) = v.as_ref().and_then(|v| v.get("cold")).filter(|c| c.is_object()) {
            let v = v.as_ref().unwrap();
            let exe = std::env::current_exe().unwrap();
            let keep: Vec<String> = cv["keep"].as_array().map(|a| a.iter().filter_map(|x| x.as_u64()).map(|x| x.to_string()).collect()).unwrap_or_default();
            let child = std::process::Command::new(exe)
                .arg(prop)
                .arg("--tier")
                .arg(v["tier"].as_str().unwrap_or("quick"))
                .arg("--cold-stage")
                .arg(cv["stage"].as_str().unwrap_or(""))
                .arg("--cold-index")
                .arg(cv["index"].as_u64().unwrap_or(0).to_string())
                .arg("--cold-count")
                .arg(cv["count"].as_u64().unwrap_or(ppp_verif::engine::COLD_CASES).to_string())
                .arg("--cold-keep")
                .arg(keep.join(","))
                .env("VERIF_SEED", (v["seed"].as_u64().unwrap_or(1) as i64).to_string())
                .env("VERIF_WORKER", "1")
                .stdout(std::process::Stdio::piped())
                .stderr(std::process::Stdio::null())
                .spawn()
                .unwrap();
            let t0 = std::time::Instant::now();
            let limit = ppp_verif::engine::hang_secs();
            let mut child = child;
            let verdict: Result<Option<i32>, ()> = loop {
                match child.try_wait() {
                    Ok(Some(st)) => break Ok(st.code()),
                    Ok(None) => {
                        if t0.elapsed().as_secs() >= limit {
                            let _ = child.kill();
                            let _ = child.wait();
                            break Ok(None);
                        }
                        std::thread::sleep(std::time::Duration::from_millis(20));
                    }
                    Err(_) => break Err(()),
                }
            };
            let mut out = String::new();
            if let Some(mut o) = child.stdout.take() {
                use std::io::Read;
                let _ = o.read_to_string(&mut out);
            }
            match verdict {
                Ok(Some(0)) => {
                    println!("REPLAY-PASS property={}", prop);
                    exit(0);
                }
                Ok(Some(1)) | Ok(None) => {
                    println!("VIOLATION property={} replay={}", prop, path);
                    println!("  sig={}", v["sig"].as_str().unwrap_or(""));
                    if let Some(l) = out.lines().rev().find(|l| l.starts_with("COLD-FAIL")) {
                        println!("  {}", ppp_verif::imp::short(l));
                    } else {
                        println!("  observed: the fresh process died or gave no result again");
                    }
                    exit(1);
                }
                _ => {
                    eprintln!("HARNESS-ERROR the cold-start replay process ended without a verdict");
                    exit(2);
                }
            }
        }
    }
    // a saved crash / stall case is replayed in a child process, so that the verdict survives the crash
    if let Some(path) = &replay {
        let is_child = std::env::var("VERIF_REPLAY_CHILD").is_ok();
        let sig = std::fs::read(path).ok().and_then(|t| serde_json::from_slice::<serde_json::Value>(&t).ok()).and_then(|v| v.get("sig").and_then(|s| s.as_str()).map(|s| s.to_string())).unwrap_or_default();
        if !is_child && (sig.starts_with("crash:") || sig.starts_with("hang:")) {
            let exe = std::env::current_exe().unwrap();
            let mut child = std::process::Command::new(exe).args(&args).env("VERIF_REPLAY_CHILD", "1").stdout(std::process::Stdio::null()).stderr(std::process::Stdio::null()).spawn().unwrap();
            let t0 = std::time::Instant::now();
            let limit = ppp_verif::engine::hang_secs();
            let verdict = loop {
                match child.try_wait() {
                    Ok(Some(st)) => break match st.code() { Some(0) | Some(1) | Some(2) => None, _ => Some("the process died again") },
                    Ok(None) => {
                        if t0.elapsed().as_secs() >= limit {
                            let _ = child.kill();
                            let _ = child.wait();
                            break Some("no result again");
                        }
                        std::thread::sleep(std::time::Duration::from_millis(50));
                    }
                    Err(_) => break None,
                }
            };
            match verdict {
                Some(what) => {
                    println!("VIOLATION property={} replay={}", prop, path);
                    println!("  sig={}", sig);
                    println!("  observed: {}", what);
                    exit(1);
                }
                None => {
                    println!("REPLAY-PASS property={}", prop);
                    exit(0);
                }
            }
        }
    }
    r.only = only;
    if let Some(path) = &replay {
        let text = match std::fs::read(path) {
            Ok(t) => t,
            Err(e) => {
                eprintln!("HARNESS-ERROR cannot read replay file {}: {}", path, e);
                exit(2);
            }
        };
        let parsed: Option<serde_json::Value> = serde_json::from_slice(&text).ok();
        match parsed {
            Some(v) if v.get("check").is_some() && v.get("case").is_some() => {
                let check = v["check"].as_str().unwrap_or("").to_string();
                r.replay = Some((check, v["case"].clone()));
                r.replay_pre = v.get("preceded_by").and_then(|p| p.as_array()).cloned().unwrap_or_default();
                r.replay_arena_calls = v.get("arena_calls").and_then(|a| a.as_u64());
            }
            _ => {
                // raw bytes (e.g. a libFuzzer artifact): judged by the property's byte-level check
                let check = props::raw_check(prop).unwrap_or_else(|| {
                    eprintln!("HARNESS-ERROR {} has no byte-level check for a raw replay file", prop);
                    exit(2);
                });
                let hexs = ppp_verif::engine::hex(&text);
                r.replay = Some((check.to_string(), serde_json::json!({"input_hex": hexs, "trailer_hex": ""})));
            }
        }
        r.extra.insert("replay_source".into(), serde_json::json!(path));
    }

    let level = match ppp_verif::engine::guard(|| props::run(prop, &mut r)) {
        Ok(Some(l)) => l,
        Ok(None) => {
            eprintln!("HARNESS-ERROR property {} has no check", prop);
            exit(2);
        }
        Err(p) => {
            eprintln!("HARNESS-ERROR harness panicked: {}", p);
            exit(2);
        }
    };

    if triage {
        for v in &r.violations {
            println!("VIOLATION property={} replay={}", prop, v.replay_path);
            println!("  check={} sig={}", v.stage, v.fail.sig);
            println!("  expected: {}", v.fail.expected);
            println!("  observed: {}", v.fail.observed);
            println!("  case: {}", ppp_verif::imp::short(&v.case.to_string()));
        }
        if r.violations.is_empty() {
            eprintln!("INCONCLUSIVE {}: the run ended abnormally but no journalled case reproduces a crash or a stall", prop);
            exit(2);
        }
        exit(1);
    }
    if replay_tape.is_some() {
        exit(if r.violations.is_empty() { 0 } else { 1 });
    }
    if replay.is_some() && !r.replay_hit {
        eprintln!("HARNESS-ERROR replay file names check {:?} which {} does not have", r.replay.as_ref().unwrap().0, prop);
        exit(2);
    }

    if replay.is_none() && !no_evidence {
        // a second build configuration of the same check ran before this one: fold its numbers in
        if let Some(path) = &merge_evidence {
            match std::fs::read(path).ok().and_then(|t| serde_json::from_slice::<serde_json::Value>(&t).ok()) {
                Some(other) => {
                    let oc = &other["coverage"];
                    let evals = oc["evaluations"].as_u64().unwrap_or(0);
                    r.extra.insert(
                        "other_configurations".into(),
                        serde_json::json!([{"build_profile": oc["build_profile"], "evaluations": evals, "distinct_nontrivial": oc["distinct_nontrivial"],
                                            "stages": oc["stages"], "violations": other["violations"], "wall_s": other["wall_s"]}]),
                    );
                    r.extra.insert("evaluations_all_configurations".into(), serde_json::json!(evals + r.stats.evals));
                }
                None => r.inconclusive.push(format!("evidence of the other build configuration ({}) is missing or unreadable", path)),
            }
        }
        let ev = r.evidence(level);
        let path = evidence_out.unwrap_or_else(|| format!("{}/evidence/{}.json", verif_dir, prop));
        if let Some(dir) = std::path::Path::new(&path).parent() {
            let _ = std::fs::create_dir_all(dir);
        }
        if let Err(e) = std::fs::write(&path, serde_json::to_string_pretty(&ev).unwrap() + "\n") {
            eprintln!("HARNESS-ERROR cannot write evidence {}: {}", path, e);
            exit(2);
        }
    }

    // known findings that this run actually re-observed
    for k in r.known.iter().filter(|k| k.property == prop) {
        let hits = r.stats.known_hits.get(&k.sig).copied().unwrap_or(0);
        println!("KNOWN-FINDING: property={} {} [sig={} hits={}]", prop, k.text, k.sig, hits);
    }
    for s in &r.stages {
        eprintln!(
            "  stage {:<28} {:>12} evals {:>10} nontrivial {:>8} discarded {:>7.2}s{}",
            s.name,
            s.evals,
            s.nontrivial,
            s.discarded,
            s.wall_s,
            s.exhaustive_space.as_ref().map(|x| format!("  exhaustive: {}", x)).unwrap_or_default()
        );
    }
    if !r.violations.is_empty() {
        for v in &r.violations {
            println!("VIOLATION property={} replay={}", prop, v.replay_path);
            println!("  check={} sig={}", v.stage, v.fail.sig);
            println!("  entry={}", v.fail.entry);
            println!("  expected: {}", v.fail.expected);
            println!("  observed: {}", v.fail.observed);
            println!("  case: {}", ppp_verif::imp::short(&v.case.to_string()));
        }
        exit(1);
    }
    if !r.inconclusive.is_empty() {
        for m in &r.inconclusive {
            eprintln!("INCONCLUSIVE {}: {}", prop, m);
        }
        exit(2);
    }
    if replay.is_some() {
        println!("REPLAY-PASS property={}", prop);
    } else {
        println!(
            "PASS property={} tier={} seed={} evaluations={} distinct_nontrivial={}",
            prop,
            if r.quick() { "quick" } else { "thorough" },
            seed,
            r.stats.evals,
            r.stats.nontrivial.len() as u64 + r.stats.nontrivial_counted
        );
    }
}
