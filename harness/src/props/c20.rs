//! C20 — every encodable value appends exactly its wire encoding and reports its size.

use crate::bld::{self, Val};
use crate::engine::{fill, CaseIo, Fail, Runner, Stats, Tape, Verdict};
use crate::imp;
use ppp::v2::{WriteToHeader, Writer};
use serde_json::json;
use std::sync::atomic::AtomicBool;

/// The writer refuses once it holds more than a full-size header (16 + 65535 bytes).
const LIMIT: usize = 65551;

#[derive(Clone, Debug)]
pub struct Case {
    pub val: Val,
    pub prefill_len: usize,
    pub prefill_seed: u32,
    /// when set, the writer first holds the 16-byte fixed part of a v2 header with these control bytes
    /// (what the builder hands to `write_to`), followed by `prefill_len` filler bytes
    pub head: Option<(u8, u8)>,
}

impl Case {
    pub fn prefill(&self) -> Vec<u8> {
        let mut p = Vec::new();
        if let Some((vc, afp)) = self.head {
            p.extend_from_slice(&crate::oracle::v2::SIG);
            // the length field of that fixed part: zero (what the builder writes first), or - for an odd filler seed - already
            // the final payload size, as when the caller stated the length up front
            let fin = self.prefill_len + bld::ref_size(&self.val);
            let l = if self.prefill_seed % 2 == 1 && fin <= 65535 { fin as u16 } else { 0 };
            p.extend_from_slice(&[vc, afp, (l >> 8) as u8, l as u8]);
        }
        p.extend(fill(self.prefill_seed, self.prefill_len));
        p
    }
}

impl CaseIo for Case {
    fn to_json(&self) -> serde_json::Value {
        json!({"value": self.val.to_json(), "prefill_len": self.prefill_len, "prefill_seed": self.prefill_seed, "prefill_head": self.head.map(|(a, b)| vec![a, b])})
    }
    fn from_json(v: &serde_json::Value) -> Option<Self> {
        let head = v.get("prefill_head").and_then(|h| h.as_array()).and_then(|a| Some((a.first()?.as_u64()? as u8, a.get(1)?.as_u64()? as u8)));
        Some(Case { val: Val::from_json(v.get("value")?)?, prefill_len: v.get("prefill_len")?.as_u64()? as usize, prefill_seed: v.get("prefill_seed")?.as_u64()? as u32, head })
    }
    fn simpler(&self) -> Vec<Self> {
        let mut out = Vec::new();
        if self.prefill_len > 0 {
            out.push(Case { prefill_len: 0, ..self.clone() });
            out.push(Case { prefill_len: self.prefill_len / 2, ..self.clone() });
        }
        if self.prefill_seed != 0 {
            out.push(Case { prefill_seed: 0, ..self.clone() });
        }
        if self.head.is_some() {
            out.push(Case { head: None, ..self.clone() });
        }
        let mut v = self.val.clone();
        if bld::shrink_val_pub(&mut v) {
            out.push(Case { val: v, ..self.clone() });
        }
        out
    }
}

fn shape(c: &Case) -> String {
    let name = match &c.val {
        Val::Int { ty, .. } => bld::INT_NAMES[*ty].to_string(),
        Val::Bytes { .. } => "bytes".into(),
        Val::Addr(a) => format!("addresses-fam{}", crate::oracle::enc::family_code(a)),
        Val::Tlv { .. } => "tlv".into(),
        Val::TupleU8 { .. } => "tuple_u8".into(),
        Val::TupleType { .. } => "tuple_type".into(),
        Val::Section { .. } => "section".into(),
        Val::Type(_) => "type".into(),
        Val::Custom { .. } => "custom".into(),
        Val::Tlvs { advance, .. } => if *advance > 0 { "tlvs-advanced".into() } else { "tlvs".into() },
    };
    let size = bld::ref_size(&c.val);
    let fits = c.prefill().len() + size <= LIMIT;
    format!("{}{}{}{}", name, if bld::must_refuse(&c.val) { ",oversize" } else { "" }, if fits { "" } else { ",past-limit" }, if c.head.is_some() { ",after-fixed-part" } else { "" })
}

pub fn judge(c: &Case, st: &mut Stats) -> Verdict {
    st.eval();
    let entry = "WriteToHeader::write_to / to_bytes";
    let enc = bld::ref_encoding(&c.val);
    let data = bld::content(&c.val);
    let prefill = c.prefill();
    let fail = |kind: &str, exp: String, obs: String| Err(Fail::new(kind, shape(c), entry, exp, obs));
    // a byte buffer of one of the listed sizes is also written while held as an array, a Vec, a box
    if let Val::Bytes { len, seed } = &c.val {
        if let Some(r) = holders_dispatch(*len, *seed, &prefill) {
            st.class("byte-holders");
            r?;
        }
    }
    let run = crate::engine::guard(|| {
        // the writer's buffer has 0 .. 70 000 bytes of spare capacity (a Vec that was reserved, resized or reused), by seed
        let spare = [0usize, 0, 1, 13, 64, 100, 4096, 70_000][(c.prefill_seed as usize / 2) % 8];
        let mut buf = Vec::with_capacity(prefill.len() + spare);
        buf.extend_from_slice(&prefill);
        // one writer in three starts from `Writer::default()` and receives what it "already holds" through its own
        // `io::Write` impl (the way the builder fills it) instead of being made from a Vec
        let mut w = if (c.prefill_seed as usize / 14) % 3 == 1 {
            let mut d = Writer::default();
            if std::io::Write::write_all(&mut d, &prefill).is_ok() {
                d
            } else {
                Writer::from(buf)
            }
        } else {
            Writer::from(buf)
        };
        let r = bld::write_val(&c.val, &data, &mut w);
        // flushing is a no-op on an in-memory writer: it must succeed and change nothing
        let flushed = std::io::Write::flush(&mut w).is_ok();
        let out = w.finish();
        if !flushed {
            return (Err("flush() failed".to_string()), out);
        }
        (r.map_err(|e| format!("{:?}", e.kind())), out)
    });
    let (r, out) = match run {
        Ok(x) => x,
        Err(p) => return fail("panic", "returns".into(), format!("panic: {}", p)),
    };
    let tb = crate::engine::guard(|| bld::to_bytes_val(&c.val, &data).map_err(|e| format!("{:?}", e.kind())));
    let tb = match tb {
        Ok(x) => x,
        Err(p) => return fail("panic", "to_bytes returns".into(), format!("panic: {}", p)),
    };
    let cls = shape(c);
    st.class(&cls);
    st.sample(&cls, || imp::short(&c.to_json().to_string()));
    st.nontrivial(c.digest());
    match enc {
        None => {
            // too large for a 16-bit length: refused, nothing written
            if r.is_ok() || out != prefill {
                return fail(
                    "oversize-not-refused-cleanly",
                    "Err and the writer unchanged".into(),
                    format!("{:?}, writer grew by {} bytes", r, out.len() as i64 - prefill.len() as i64),
                );
            }
            if tb.is_ok() {
                return fail("oversize-to_bytes", "to_bytes() Err".into(), "Ok".into());
            }
            Ok(())
        }
        Some(e) => {
            let mut want = prefill.clone();
            want.extend_from_slice(&e);
            if prefill.len() + e.len() <= LIMIT {
                if r != Ok(e.len()) || out != want {
                    return fail(
                        "append",
                        format!("Ok({}) and contents = prefill ++ encoding {}", e.len(), crate::engine::hex(&e[..e.len().min(24)])),
                        format!("{:?}, writer holds {} bytes, appended {}", r, out.len(), crate::engine::hex(&out[prefill.len().min(out.len())..][..out.len().saturating_sub(prefill.len()).min(24)])),
                    );
                }
            } else if matches!(c.val, Val::Bytes { .. } | Val::Int { .. }) && prefill.len() < LIMIT {
                // a byte slice is one piece, and so is an integer: a writer that is still below its limit takes all of it, even
                // across the limit
                if r != Ok(e.len()) || out != want {
                    return fail(
                        "append-across-limit",
                        format!("Ok({}) and contents = prefill ++ the bytes (the writer held {} bytes, below its limit)", e.len(), prefill.len()),
                        format!("{:?}, writer holds {} bytes", r, out.len()),
                    );
                }
            } else if let Ok(n) = r {
                // beyond a full-size header the outcome is open, but an Ok must still be honest
                if n != e.len() || out != want {
                    return fail("append-past-limit", format!("if Ok then Ok({}) with exactly the encoding appended", e.len()), format!("Ok({}), {} bytes held", n, out.len()));
                }
            }
            match &tb {
                Ok(b) if *b == e => {}
                other => {
                    return fail(
                        "to_bytes",
                        format!("to_bytes() == encoding ({} bytes)", e.len()),
                        match other {
                            Ok(b) => format!("{} bytes: {}", b.len(), crate::engine::hex(&b[..b.len().min(24)])),
                            Err(x) => format!("Err({})", x),
                        },
                    )
                }
            }
            // inside a container type of the caller's own (an SSL-style TLV that holds other TLVs): its `write_to` obtains the
            // encoding of what it holds with `to_bytes()`, and the container itself is converted with `to_bytes()` as well as
            // written into a writer - conversions nest
            if e.len() + 5 <= 65535 {
                struct Container<'a>(&'a Val, &'a [u8]);
                impl<'a> WriteToHeader for Container<'a> {
                    fn write_to(&self, w: &mut Writer) -> std::io::Result<usize> {
                        let inner = bld::to_bytes_val(self.0, self.1)?;
                        std::io::Write::write_all(w, &[0x01, 0, 0, 0, 0])?;
                        std::io::Write::write_all(w, &inner)?;
                        Ok(5 + inner.len())
                    }
                }
                let mut want = vec![0x01u8, 0, 0, 0, 0];
                want.extend_from_slice(&e);
                let nested = crate::engine::guard(|| {
                    let c2 = Container(&c.val, &data);
                    let tb = c2.to_bytes().map_err(|e| format!("{:?}", e.kind()));
                    let mut w = Writer::default();
                    let r = c2.write_to(&mut w).map_err(|e| format!("{:?}", e.kind()));
                    (tb, r, w.finish())
                });
                match nested {
                    Ok((Ok(tb), Ok(n), out)) if tb == want && out == want && n == want.len() => {}
                    other => {
                        return fail(
                            "nested-conversion",
                            format!("a caller's container that calls to_bytes() on this value inside its own write_to: {} bytes both ways", want.len()),
                            match other {
                                Ok((tb, r, out)) => format!("to_bytes {:?} bytes, write_to {:?} with {} bytes", tb.map(|b| b.len()), r, out.len()),
                                Err(p) => format!("panic: {}", p),
                            },
                        )
                    }
                }
            }
            // through a reference
            let by_ref = crate::engine::guard(|| {
                let mut w = Writer::from(prefill.clone());
                let any = bld::AnyP(&c.val, &data);
                let r = (&any).write_to(&mut w);
                (r.map_err(|e| format!("{:?}", e.kind())), w.finish())
            });
            if let Ok((r2, out2)) = by_ref {
                if r2 != r || out2 != out {
                    return fail("by-reference", "identical outcome through &T".into(), format!("{:?} vs {:?}", r2, r));
                }
            }
            Ok(())
        }
    }
}

/// A byte buffer of N bytes held in other ways than as a slice - a fixed-size array, a boxed array, a Vec, a boxed slice - and
/// written by calling the trait method on the holder itself. Whatever the method call resolves to, the bytes appended and
/// the refusal above 65535 bytes are those of the byte-slice encoding.
fn holders<const N: usize>(seed: u32, prefill: &[u8]) -> Result<(), Fail> {
    let bytes = fill(seed, N);
    let mut arr = Box::new([0u8; N]);
    arr.copy_from_slice(&bytes);
    let vec: Vec<u8> = bytes.clone();
    let boxed: Box<[u8]> = bytes.clone().into_boxed_slice();
    let run = |name: &str, f: &dyn Fn(&mut Writer) -> std::io::Result<usize>, tb: &dyn Fn() -> std::io::Result<Vec<u8>>| -> Result<(), Fail> {
        let shape = format!("{} of {} bytes, prefill {}", name, N, prefill.len());
        let fail = |kind: &str, exp: String, obs: String| Err(Fail::new(format!("{}:{}", kind, name), &shape, "WriteToHeader::write_to / to_bytes on the holder", exp, obs));
        let got = crate::engine::guard(|| {
            let mut w = Writer::from(prefill.to_vec());
            let r = f(&mut w);
            (r.map_err(|e| format!("{:?}", e.kind())), w.finish())
        });
        let (r, out) = match got {
            Ok(x) => x,
            Err(p) => return fail("holder-panic", "returns".into(), format!("panic: {}", p)),
        };
        let t = crate::engine::guard(|| tb().map_err(|e| format!("{:?}", e.kind())));
        if N > 65535 {
            if r.is_ok() || out != prefill {
                return fail("holder-oversize-not-refused-cleanly", "Err and the writer unchanged".into(), format!("{:?}, writer grew by {} bytes", r, out.len() as i64 - prefill.len() as i64));
            }
            if matches!(t, Ok(Ok(_))) {
                return fail("holder-oversize-to_bytes", "to_bytes() Err".into(), "Ok".into());
            }
        } else if prefill.len() + N <= LIMIT {
            let mut want = prefill.to_vec();
            want.extend_from_slice(&bytes);
            if r != Ok(N) || out != want {
                return fail("holder-append", format!("Ok({}) and contents = prefill ++ the bytes", N), format!("{:?}, writer holds {} bytes", r, out.len()));
            }
            match t {
                Ok(Ok(b)) if b == bytes => {}
                other => return fail("holder-to_bytes", format!("to_bytes() == the {} bytes", N), imp::short(&format!("{:?}", other))),
            }
        }
        Ok(())
    };
    run("[u8; N]", &|w| arr.write_to(w), &|| arr.to_bytes())?;
    run("&[u8; N]", &|w| (&*arr).write_to(w), &|| (&*arr).to_bytes())?;
    run("Vec<u8>", &|w| vec.write_to(w), &|| vec.to_bytes())?;
    run("Box<[u8]>", &|w| boxed.write_to(w), &|| boxed.to_bytes())?;
    run("&&[u8]", &|w| (&&bytes[..]).write_to(w), &|| (&&bytes[..]).to_bytes())?;
    Ok(())
}

fn holders_dispatch(len: usize, seed: u32, prefill: &[u8]) -> Option<Result<(), Fail>> {
    macro_rules! go {
        ($($n:literal),*) => {
            match len {
                $($n => Some(holders::<$n>(seed, prefill)),)*
                _ => None,
            }
        };
    }
    go!(0, 1, 2, 3, 4, 7, 8, 12, 16, 36, 108, 216, 255, 256, 257, 4096, 65534, 65535, 65536, 65537, 70000, 131072)
}

/// Several values written one after the other into the SAME writer (a refused value in between must leave it usable).
#[derive(Clone, Debug)]
pub struct SeqCase {
    pub vals: Vec<Val>,
    pub prefill_len: usize,
    pub prefill_seed: u32,
}

impl CaseIo for SeqCase {
    fn to_json(&self) -> serde_json::Value {
        json!({"values": self.vals.iter().map(|v| v.to_json()).collect::<Vec<_>>(), "prefill_len": self.prefill_len, "prefill_seed": self.prefill_seed})
    }
    fn from_json(v: &serde_json::Value) -> Option<Self> {
        let vals: Option<Vec<Val>> = v.get("values")?.as_array()?.iter().map(Val::from_json).collect();
        Some(SeqCase { vals: vals?, prefill_len: v.get("prefill_len")?.as_u64()? as usize, prefill_seed: v.get("prefill_seed")?.as_u64()? as u32 })
    }
    fn simpler(&self) -> Vec<Self> {
        let mut out = Vec::new();
        if self.vals.len() > 300 {
            // very long sequences are shrunk by dropping chunks only (one candidate per value would be a copy of the whole
            // sequence each: tens of thousands of copies)
            let n = self.vals.len();
            for parts in [2usize, 4, 8] {
                let size = n / parts;
                for k in 0..parts {
                    let mut c = self.clone();
                    c.vals.drain(k * size..(k + 1) * size);
                    out.push(c);
                }
            }
            return out;
        }
        for i in 0..self.vals.len() {
            let mut c = self.clone();
            c.vals.remove(i);
            out.push(c);
            let mut c = self.clone();
            if bld::shrink_val_pub(&mut c.vals[i]) {
                out.push(c);
            }
        }
        if self.prefill_len > 0 {
            out.push(SeqCase { prefill_len: 0, ..self.clone() });
        }
        out
    }
}

pub fn judge_seq(c: &SeqCase, st: &mut Stats) -> Verdict {
    st.eval();
    let entry = "several WriteToHeader::write_to calls on one Writer";
    let kinds: Vec<String> = c.vals.iter().take(8).map(|v| shape(&Case { val: v.clone(), prefill_len: 0, prefill_seed: 0, head: None })).collect();
    let sh = if c.vals.len() > 8 { format!("{}+...({} values)", kinds.join("+"), c.vals.len()) } else { kinds.join("+") };
    let fail = |kind: &str, exp: String, obs: String| Err(Fail::new(kind, &sh, entry, exp, obs));
    if c.vals.len() >= 2 {
        st.nontrivial(c.digest());
    }
    if c.vals.iter().any(bld::must_refuse) {
        st.class("sequence-with-a-refused-value");
    }
    st.class("sequence");
    let datas: Vec<Vec<u8>> = c.vals.iter().map(bld::content).collect();
    let run = crate::engine::guard(|| {
        let mut w = Writer::from(fill(c.prefill_seed, c.prefill_len));
        let mut results = Vec::new();
        for (v, d) in c.vals.iter().zip(&datas) {
            results.push(bld::write_val(v, d, &mut w).map_err(|e| format!("{:?}", e.kind())));
        }
        (results, w.finish())
    });
    let (results, out) = match run {
        Ok(x) => x,
        Err(p) => return fail("panic", "returns".into(), format!("panic: {}", p)),
    };
    // model: each accepted value appends its encoding; a refused one leaves the writer as it was
    let mut want = fill(c.prefill_seed, c.prefill_len);
    let mut open = true; // false once the model cannot tell what the writer holds (a write past the limit failed part-way)
    for (i, (v, r)) in c.vals.iter().zip(&results).enumerate() {
        match bld::ref_encoding(v) {
            None => {
                if r.is_ok() {
                    return fail("oversize-not-refused-cleanly", format!("value {}: Err", i), "Ok".into());
                }
            }
            Some(e) => {
                if want.len() + e.len() <= LIMIT {
                    if *r != Ok(e.len()) {
                        return fail("append-in-sequence", format!("value {} of {}: Ok({}) - the writer holds {} bytes, far below its limit", i, c.vals.len(), e.len(), want.len()), format!("{:?}", r));
                    }
                    want.extend_from_slice(&e);
                } else {
                    // beyond a full-size header the outcome is open
                    match r {
                        Ok(n) if *n == e.len() => want.extend_from_slice(&e),
                        _ => {
                            open = false;
                            break;
                        }
                    }
                }
            }
        }
    }
    if open && out != want {
        let at = out.iter().zip(want.iter()).position(|(a, b)| a != b).unwrap_or(out.len().min(want.len()));
        return fail("sequence-contents", format!("prefill ++ the encodings of the accepted values ({} bytes)", want.len()), format!("{} bytes, first difference at {}", out.len(), at));
    }
    Ok(())
}

pub fn gen_seq(t: &mut Tape) -> SeqCase {
    let n = t.usize_in(2, 5);
    let mut vals = Vec::new();
    if t.chance(1, 8) {
        // address blocks of one flow and its neighbours, back to back: the same block, then blocks that differ from it in the
        // destination address only / the source address only / one port only (an encoder that remembers the last block must
        // compare all of it)
        use crate::oracle::v2::RefAddr2;
        let base = bld::gen_addr(t);
        vals.push(Val::Addr(base.clone()));
        for _ in 0..t.usize_in(1, 3) {
            let mut v = base.clone();
            match &mut v {
                RefAddr2::V4 { src, dst, sport, dport } => match t.below(4) {
                    0 => dst[3] = dst[3].wrapping_add(1 + t.below(200) as u8),
                    1 => src[0] = src[0].wrapping_add(1 + t.below(200) as u8),
                    2 => *dport = dport.wrapping_add(1),
                    _ => *sport = sport.wrapping_add(1),
                },
                RefAddr2::V6 { src, dst, sport, dport } => match t.below(4) {
                    0 => *dst ^= 1u128 << t.below(128),
                    1 => *src ^= 1u128 << t.below(128),
                    2 => *dport = dport.wrapping_add(1),
                    _ => *sport = sport.wrapping_add(1),
                },
                RefAddr2::Unix { src, dst } => {
                    if t.coin() {
                        dst[107] = dst[107].wrapping_add(1);
                    } else {
                        src[t.below(108) as usize] ^= 0x20;
                    }
                }
                RefAddr2::Unspec => {}
            }
            vals.push(Val::Addr(v));
        }
        return SeqCase { vals, prefill_len: if t.coin() { 0 } else { t.usize_in(0, 40) }, prefill_seed: crate::engine::gen_seed(t) };
    }
    if t.chance(1, 6) {
        // the shape real headers have: an SSL container TLV (exactly its 5 fixed bytes, or with sub-TLVs inside), followed by
        // TLVs of the SSL sub-types, possibly with an ALPN / authority TLV in front
        if t.coin() {
            vals.push(Val::TupleU8 { kind: *t.pick(&[0x01u8, 0x02, 0x05]), len: t.usize_in(0, 12), seed: crate::engine::gen_seed(t) });
        }
        let ssl_len = *t.pick(&[5usize, 5, 5, 0, 4, 6, 15]);
        let ssl_seed = crate::engine::gen_seed(t);
        vals.push(match t.below(3) {
            0 => Val::Tlv { kind: 0x20, len: ssl_len, seed: ssl_seed },
            1 => Val::TupleU8 { kind: 0x20, len: ssl_len, seed: ssl_seed },
            _ => Val::TupleType { ty: crate::oracle::enc::TYPE_CODES.iter().position(|(_, c)| *c == 0x20).unwrap_or(0), len: ssl_len, seed: ssl_seed },
        });
        for _ in 0..t.usize_in(1, 3) {
            let kind = 0x21 + t.below(5) as u8;
            let len = t.usize_in(0, 12);
            let seed = crate::engine::gen_seed(t);
            vals.push(match t.below(3) {
                0 => Val::Tlv { kind, len, seed },
                1 => Val::TupleU8 { kind, len, seed },
                _ => Val::TupleType { ty: crate::oracle::enc::TYPE_CODES.iter().position(|(_, c)| *c == kind).unwrap_or(0), len, seed },
            });
        }
        return SeqCase { vals, prefill_len: if t.coin() { 0 } else { t.usize_in(0, 40) }, prefill_seed: crate::engine::gen_seed(t) };
    }
    for _ in 0..n {
        // an oversize (refused) value one time in six
        let v = if t.chance(1, 6) {
            let len = *t.pick(&[65_536usize, 65_537, 70_000]);
            match t.below(4) {
                0 => Val::Bytes { len, seed: 1 },
                1 => Val::Tlv { kind: bld::gen_kind(t), len, seed: 1 },
                2 => Val::TupleU8 { kind: bld::gen_kind(t), len, seed: 1 },
                _ => Val::TupleType { ty: t.below(12) as usize, len, seed: 1 },
            }
        } else {
            bld::gen_val(t, 10)
        };
        vals.push(v);
    }
    SeqCase { vals, prefill_len: if t.coin() { 0 } else { t.usize_in(0, 40) }, prefill_seed: crate::engine::gen_seed(t) }
}

pub fn gen_case(t: &mut Tape) -> Case {
    let val = bld::gen_val(t, 40);
    let size = bld::ref_size(&val);
    let (prefill_len, prefill_seed) = match t.weighted(&[3, 4, 3, 1, 1]) {
        0 => (0, 0),
        1 => (t.usize_in(0, 64), crate::engine::gen_seed(t)),
        2 => {
            // land prefill + encoding on the limit and just around it
            let delta = t.usize_in(0, 6) as i64 - 3;
            let target = LIMIT as i64 - delta - size as i64;
            (target.clamp(0, LIMIT as i64 + 4) as usize, t.u32())
        }
        3 => (t.usize_in(65_000, 65_560), t.u32()),
        // a writer a few bytes below its limit, whatever the size of the value
        _ => (LIMIT - t.usize_in(0, 24), t.u32()),
    };
    // one case in five: the writer holds the fixed part of a v2 header (any control bytes, mostly valid ones),
    // alone or followed by filler - the state in which the builder hands its buffer to `write_to`
    let head = if t.chance(1, 5) {
        let vc = if t.chance(3, 4) { 0x20 | t.below(2) as u8 } else { t.byte() };
        let afp = if t.chance(3, 4) { ((t.below(4) as u8) << 4) | t.below(3) as u8 } else { t.byte() };
        Some((vc, afp))
    } else {
        None
    };
    let prefill_len = if head.is_some() && t.coin() { *t.pick(&[0usize, 0, 12, 36, 216, 1]) } else if head.is_some() { prefill_len.saturating_sub(16) } else { prefill_len };
    Case { val, prefill_len, prefill_seed, head }
}

pub fn run(r: &mut Runner) -> &'static str {
    r.rule = "inputs: a value of every WriteToHeader type (12 integer types at 0/min/max/random, address blocks of 4 families, TypeLengthValue, (u8,&[u8]), (Type,&[u8]), TypeLengthValues, [u8], Type; \
              value lengths 0..65536+) x writer prefill (empty, <= 64 random bytes, sized to land prefill+encoding at the 65551-byte limit -3..+3, 65000..65560). oracle: reference encoders R-ENC: \
              below the limit Ok(|enc|) and contents == prefill ++ enc, to_bytes() == enc, &T identical; oversize TLV value / slice -> Err, writer unchanged; beyond the limit only 'an Ok is honest'. \
              non-trivial = every case (each is a (value, prefill) pair); distinct by SipHash Added later: writers that hold a header's fixed part, every value length 0..=2200, sequences of writes into one writer (a refused value in between), owned TLVs."
        .into();
    let n = r.n(200_000, 4_000_000);
    r.random("c20.values", n, 96, &gen_case, &judge);
    let n = r.n(60_000, 1_500_000);
    r.random("c20.sequences", n, 160, &gen_seq, &judge_seq);
    // every integer type at its extremes, every Type code, every TLV kind byte: exhaustive small sweep
    let work = |shard: usize, _n: usize, st: &mut Stats, _stop: &AtomicBool| -> Option<(Case, Fail)> {
        if shard != 0 {
            return None;
        }
        let mut cases: Vec<Case> = Vec::new();
        for ty in 0..12 {
            let w = bld::INT_WIDTHS[ty];
            let mask = if w == 16 { u128::MAX } else { (1u128 << (8 * w)) - 1 };
            for image in [0u128, 1, mask, mask >> 1, (mask >> 1) + 1, 0x0102030405060708090a0b0c0d0e0f10 & mask, 0x80 & mask, 0xff00 & mask] {
                for prefill_len in [0usize, 5] {
                    cases.push(Case { val: Val::Int { ty, image }, prefill_len, prefill_seed: 9, head: None });
                }
            }
        }
        for ty in 0..12 {
            cases.push(Case { val: Val::Type(ty), prefill_len: 3, prefill_seed: 1, head: None });
            for len in [0usize, 1, 255, 256, 65535, 65536] {
                cases.push(Case { val: Val::TupleType { ty, len, seed: 5 }, prefill_len: 0, prefill_seed: 0, head: None });
            }
        }
        for kind in 0..=255u8 {
            for len in [0usize, 2, 300] {
                cases.push(Case { val: Val::Tlv { kind, len, seed: kind as u32 + 1 }, prefill_len: 1, prefill_seed: 2, head: None });
                cases.push(Case { val: Val::TupleU8 { kind, len, seed: kind as u32 + 1 }, prefill_len: 1, prefill_seed: 2, head: None });
            }
        }
        // every registered type x short lengths x content classes (zeros, ones, random), as TLV struct and as (Type, bytes) pair,
        // into a writer that holds a fixed part whose length field is zero / already final
        for ty in 0..12usize {
            for len in [0usize, 1, 2, 4, 5, 8, 16] {
                for seed in [0u32, crate::engine::SEED_ONES, 77] {
                    for prefill_seed in [2u32, 3] {
                        cases.push(Case { val: Val::TupleType { ty, len, seed }, prefill_len: 0, prefill_seed, head: Some((0x21, 0x11)) });
                        cases.push(Case { val: Val::Tlv { kind: crate::oracle::enc::TYPE_CODES[ty].1, len, seed }, prefill_len: 12, prefill_seed, head: Some((0x21, 0x11)) });
                    }
                }
            }
        }
        for len in [65534usize, 65535, 65536, 65537, 70000] {
            for v in [Val::Bytes { len, seed: 3 }, Val::Tlv { kind: 7, len, seed: 3 }, Val::TupleU8 { kind: 7, len, seed: 3 }, Val::Section { len, seed: 3 }] {
                for prefill_len in [0usize, 10, 16] {
                    cases.push(Case { val: v.clone(), prefill_len, prefill_seed: 4, head: None });
                }
            }
        }
        // byte slices (and TLV values, sections) whose content is a complete v2 header that describes its own size, at every
        // size from just below to just above the 16-bit limit and the limit plus the fixed part
        for len in (65530usize..=65556).chain([16, 28, 232, 4096]) {
            for v in [Val::Bytes { len, seed: crate::engine::SEED_V2HEADER }, Val::Tlv { kind: 0xEA, len, seed: crate::engine::SEED_V2HEADER }, Val::Section { len, seed: crate::engine::SEED_V2HEADER }] {
                cases.push(Case { val: v, prefill_len: 0, prefill_seed: 4, head: None });
            }
        }
        for c in cases {
            if let Err(f) = judge(&c, st) {
                return Some((c, f));
            }
        }
        None
    };
    r.bulk("c20.sweep", Some("12 integer types x 8 extreme images x 2 prefills; 12 Type codes x 6 lengths; 256 TLV kind bytes x 3 lengths x 2 spellings; size boundaries 65534..70000 x 4 kinds x 3 prefills; self-describing v2 headers of 65530..=65556 bytes as slice / TLV value / section"), &work, &judge);
    // byte buffers held as arrays, vectors and boxes, at the sizes around the limits
    let hold = |shard: usize, _n: usize, st: &mut Stats, _stop: &AtomicBool| -> Option<(Case, Fail)> {
        if shard != 0 {
            return None;
        }
        for (pl, ps) in [(0usize, 0u32), (16, 5), (40, 9)] {
            for n in [0usize, 1, 2, 3, 4, 7, 8, 12, 16, 36, 108, 216, 255, 256, 257, 4096, 65534, 65535, 65536, 65537, 70000, 131072] {
                let c = Case { val: Val::Bytes { len: n, seed: n as u32 * 2 + 1 }, prefill_len: pl, prefill_seed: ps, head: None };
                if let Err(f) = judge(&c, st) {
                    return Some((c, f));
                }
            }
        }
        None
    };
    r.bulk("c20.holders", Some("byte buffers of 22 sizes (0..131072, both sides of 65535) held as [u8; N], &[u8; N], Vec<u8>, Box<[u8]> and &&[u8], into 3 writers"), &hold, &judge);
    // every value length in a contiguous range, for each kind that carries a length
    let top: usize = if r.quick() { 2200 } else { 65_537 };
    let lens = |shard: usize, nshards: usize, st: &mut Stats, stop: &AtomicBool| -> Option<(Case, Fail)> {
        let mut len = shard;
        while len <= top {
            if stop.load(std::sync::atomic::Ordering::Relaxed) {
                return None;
            }
            let seed = if len % 5 == 0 { 0 } else { len as u32 * 2 + 1 };
            for v in [
                Val::Bytes { len, seed },
                Val::Tlv { kind: (len % 251) as u8, len, seed },
                Val::TupleU8 { kind: (len % 253) as u8, len, seed },
                Val::TupleType { ty: len % 12, len, seed },
                Val::Section { len, seed },
            ] {
                for (prefill_len, head) in [(0usize, None), (len % 7, Some((0x21u8, 0x11u8)))] {
                    let c = Case { val: v.clone(), prefill_len, prefill_seed: 7, head };
                    if let Err(f) = judge(&c, st) {
                        return Some((c, f));
                    }
                }
            }
            len += nshards;
        }
        None
    };
    let lspace = format!("every value length 0..={} for [u8], TypeLengthValue, (u8,&[u8]), (Type,&[u8]) and TypeLengthValues, into an empty writer and into one holding a header's fixed part", top);
    r.bulk("c20.lengths", Some(&lspace), &lens, &judge);
    // address blocks of each family into a writer that holds exactly a fixed part with every family/protocol byte
    let heads = |shard: usize, _n: usize, st: &mut Stats, _stop: &AtomicBool| -> Option<(Case, Fail)> {
        if shard != 0 {
            return None;
        }
        let addrs = [
            crate::oracle::v2::RefAddr2::Unspec,
            crate::oracle::v2::RefAddr2::V4 { src: [1, 2, 3, 4], dst: [5, 6, 7, 8], sport: 9, dport: 10 },
            crate::oracle::v2::RefAddr2::V6 { src: 1, dst: 2, sport: 3, dport: 4 },
            crate::oracle::v2::RefAddr2::Unix { src: vec![b'a'; 108], dst: vec![b'b'; 108] },
        ];
        for afp in 0..=255u8 {
            for vc in [0x20u8, 0x21, 0x00, 0xff] {
                for a in &addrs {
                    for prefill_len in [0usize, 1] {
                        let c = Case { val: Val::Addr(a.clone()), prefill_len, prefill_seed: 3, head: Some((vc, afp)) };
                        if let Err(f) = judge(&c, st) {
                            return Some((c, f));
                        }
                    }
                }
            }
        }
        None
    };
    // very many small writes into one writer: whatever the writer counts besides bytes (pieces, calls) must not run out before
    // the byte limit does
    let many = |shard: usize, n: usize, st: &mut Stats, _stop: &AtomicBool| -> Option<(SeqCase, Fail)> {
        let all: Vec<SeqCase> = vec![
            SeqCase { vals: (0..65_551u32).map(|i| Val::Int { ty: 0, image: (i % 251) as u128 }).collect(), prefill_len: 0, prefill_seed: 1 },
            SeqCase { vals: (0..32_775u32).map(|i| Val::Int { ty: 1, image: (i * 7 % 65521) as u128 }).collect(), prefill_len: 1, prefill_seed: 3 },
            SeqCase { vals: (0..21_850u32).map(|i| Val::Tlv { kind: (i % 256) as u8, len: 0, seed: 1 }).collect(), prefill_len: 0, prefill_seed: 5 },
            SeqCase { vals: (0..65_540u32).map(|i| Val::Bytes { len: 1, seed: i | 1 }).collect(), prefill_len: 11, prefill_seed: 7 },
            SeqCase { vals: (0..70_000u32).map(|i| if i % 1000 == 999 { Val::Int { ty: 2, image: i as u128 } } else { Val::Bytes { len: 0, seed: 1 } }).collect(), prefill_len: 16, prefill_seed: 9 },
        ];
        for (i, c) in all.into_iter().enumerate() {
            if i % n.max(1) != shard {
                continue;
            }
            if let Err(f) = judge_seq(&c, st) {
                return Some((c, f));
            }
        }
        None
    };
    r.bulk("c20.many-writes", Some("5 sequences of 21 850 .. 70 000 small writes (u8, u16, empty TLVs, one-byte and empty slices) into one writer, up to its byte limit"), &many, &judge_seq);
    r.bulk("c20.after-fixed-part", Some("address blocks of the 4 families written into a writer holding exactly a v2 fixed part (4 version/command bytes x all 256 family/protocol bytes), alone and followed by one byte"), &heads, &judge);
    "exploration"
}
