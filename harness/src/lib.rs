pub mod engine;
pub mod gen;
pub mod imp;
pub mod oracle;
pub mod props;
pub mod selftest;
pub mod bld;
