//! C15 — v1 header views reconstruct the header text.

use crate::engine::{esc, CaseIo, Fail, Runner, Stats, Tape, Verdict};
use crate::gen;
use crate::imp;
use crate::oracle::v1::{shape, v1_ref, V1Ref};
use ppp::v1;

fn views(raw: &[u8], h: &v1::Header<'_>, which: &str) -> Verdict {
    let entry = "v1::Header::{protocol, addresses_str, to_string}";
    let fail = |kind: &str, exp: String, obs: String| Err(Fail::new(format!("{}:{}", kind, which), shape(raw), entry, exp, obs));
    // from the raw text: the second field
    let rest = &raw[6.min(raw.len())..];
    let end = rest.iter().position(|&b| b == b' ' || b == b'\r').unwrap_or(rest.len());
    let proto_field = &rest[..end];
    let proto = h.protocol();
    if proto.as_bytes() != proto_field {
        return fail("protocol-field", format!("{:?} (second field of the line)", esc(proto_field)), format!("{:?}", proto));
    }
    let kw = match h.addresses {
        v1::Addresses::Unknown => "UNKNOWN",
        v1::Addresses::Tcp4(_) => "TCP4",
        v1::Addresses::Tcp6(_) => "TCP6",
    };
    if proto != kw || h.addresses.protocol() != kw {
        return fail("protocol-kind", format!("{:?} (kind of the decoded addresses)", kw), format!("{:?}", proto));
    }
    let between = &raw[6 + proto_field.len()..raw.len() - 2];
    let want: &[u8] = if between.first() == Some(&b' ') { &between[1..] } else { between };
    let got = h.addresses_str();
    if got.as_bytes() != want {
        return fail("addresses_str", format!("{:?}", esc(want)), format!("{:?}", esc(got.as_bytes())));
    }
    let mut re = b"PROXY ".to_vec();
    re.extend_from_slice(proto.as_bytes());
    if !got.is_empty() || between.first() == Some(&b' ') {
        re.push(b' ');
    }
    re.extend_from_slice(got.as_bytes());
    re.extend_from_slice(b"\r\n");
    let text = h.to_string();
    if re != raw || text.as_bytes() != raw || h.header.as_bytes() != raw {
        return fail(
            "reassembly",
            format!("PROXY + SP + protocol + separated address text + CRLF == header text == to_string() == {:?}", esc(raw)),
            format!("reassembled {:?}, to_string {:?}", esc(&re), esc(text.as_bytes())),
        );
    }
    Ok(())
}

/// The identities on the header's OWN reported text (whatever route accepted it, whatever the reference thinks of the
/// input): PROXY, a space, protocol(), the separated address text and CRLF re-assemble to `header`, which is also what
/// formatting prints.
fn intrinsic(x: &[u8], h: &v1::Header<'_>, route: &str) -> Verdict {
    let text: &str = h.header.as_ref();
    let proto = h.protocol();
    let a = h.addresses_str();
    let fail = |exp: String, obs: String| Err(Fail::new(format!("reassembly-of-reported-text:{}", route), shape(x), "v1::Header::{protocol, addresses_str, to_string}", exp, obs));
    let head = format!("PROXY {}", proto);
    if !text.starts_with(&head) || !text.ends_with("\r\n") || text.len() < head.len() + 2 {
        return fail(format!("header text = \"PROXY \" + {:?} + address text + CRLF", proto), format!("{:?}", esc(text.as_bytes())));
    }
    let between = &text[head.len()..text.len() - 2];
    let want = between.strip_prefix(' ').unwrap_or(between);
    if a != want || (!between.is_empty() && !between.starts_with(' ')) {
        return fail(format!("addresses_str() == {:?} (what lies between the keyword and the CRLF, one space removed)", want), format!("{:?} for header text {:?}", a, esc(text.as_bytes())));
    }
    let printed = h.to_string();
    if printed != text {
        return fail(format!("to_string() == header text {:?}", esc(text.as_bytes())), format!("{:?}", esc(printed.as_bytes())));
    }
    // format flags that mean nothing for text (sign, alternate form, zero flag with a width below the line's length): an
    // implementation that writes the text, delegates to `str` or pads prints the very same line under them
    for (spec, got) in [("{:#}", format!("{:#}", h)), ("{:+}", format!("{:+}", h)), ("{:+#}", format!("{:+#}", h)), ("{:06}", format!("{:06}", h))] {
        if got != text {
            return fail(format!("format!({:?}, header) == header text {:?}", spec, esc(text.as_bytes())), format!("{:?}", esc(got.as_bytes())));
        }
    }
    Ok(())
}

pub fn judge(x: &Vec<u8>, st: &mut Stats) -> Verdict {
    // every route's accepted header satisfies the identities on its own reported text
    if let Ok(Ok(h)) = crate::engine::guard(|| imp::v1_bytes(x)).unwrap_or(Err("panic".into())) {
        if let Ok(v) = crate::engine::guard(|| intrinsic(x, &h, "try_from(&[u8])")) {
            v?;
        }
    }
    if let Ok(sx) = std::str::from_utf8(x) {
        if let Ok(Ok(h)) = imp::v1_str(sx) {
            if let Ok(v) = crate::engine::guard(|| intrinsic(x, &h, "try_from(&str)")) {
                v?;
            }
        }
        if let Ok(Ok(h)) = imp::v1_fromstr_header(sx) {
            if let Ok(v) = crate::engine::guard(|| intrinsic(x, &h, "str::parse::<Header>")) {
                v?;
            }
        }
    }
    let r = imp::v1_bytes(x);
    let h = match &r {
        Ok(Ok(h)) => h,
        _ => {
            if matches!(v1_ref(x), V1Ref::Accept { .. }) {
                st.discard();
            } else {
                st.class("candidate-not-accepted");
            }
            return Ok(());
        }
    };
    st.eval();
    st.nontrivial(x.digest());
    let p = match x.iter().position(|&b| b == b'\r') {
        Some(p) if p + 2 <= x.len() => p + 2,
        _ => return Ok(()), // accepted without CRLF: C01/C04 report that
    };
    let raw = &x[..p];
    if raw.len() < 8 || !raw.starts_with(b"PROXY ") {
        return Ok(()); // wrongly accepted shape: C01's to report
    }
    let cls = match h.addresses {
        v1::Addresses::Unknown => {
            if raw.len() == 15 {
                "unknown-bare"
            } else if raw.len() >= 105 {
                "unknown-long"
            } else if raw.iter().any(|&b| b >= 0x80) {
                "unknown-non-ascii"
            } else {
                "unknown-text"
            }
        }
        v1::Addresses::Tcp4(_) => "tcp4",
        v1::Addresses::Tcp6(_) => "tcp6",
    };
    st.class(cls);
    st.sample(cls, || esc(raw));
    match crate::engine::guard(|| {
        views(raw, h, "borrowed")?;
        let o = h.to_owned();
        views(raw, &o, "owned")?;
        if let Ok(s) = std::str::from_utf8(x) {
            if let Ok(hs) = v1::Header::try_from(s) {
                views(raw, &hs, "from-str")?;
            }
            if let Ok(hf) = s.parse::<v1::Header<'static>>() {
                views(raw, &hf, "FromStr")?;
            }
        }
        // copies: a clone, and clone_from onto owned headers of each kind (another protocol keyword, a longer and a shorter text)
        views(raw, &h.clone(), "clone")?;
        for (name, text, addr) in [
            ("clone_from-onto-tcp4", "PROXY TCP4 127.0.1.2 192.168.1.101 80 443\r\n", v1::Addresses::new_tcp4([127, 0, 1, 2], [192, 168, 1, 101], 80, 443)),
            ("clone_from-onto-tcp6", "PROXY TCP6 1234:5678:90ab:cdef:fedc:ba09:8765:4321 4321:8765:ba09:fedc:cdef:90ab:5678:1234 443 65535\r\n", v1::Addresses::new_tcp6([0x1234u16, 0x5678, 0x90ab, 0xcdef, 0xfedc, 0xba09, 0x8765, 0x4321], [0x4321, 0x8765, 0xba09, 0xfedc, 0xcdef, 0x90ab, 0x5678, 0x1234], 443, 65535)),
            ("clone_from-onto-unknown", "PROXY UNKNOWN\r\n", v1::Addresses::Unknown),
        ] {
            let mut slot: v1::Header<'_> = v1::Header::new(text, addr).to_owned();
            slot.clone_from(h);
            views(raw, &slot, name)?;
        }
        Ok(())
    }) {
        Ok(v) => v,
        Err(p) => Err(Fail::new("view-panics", shape(raw), "v1::Header::{protocol, addresses_str, to_string}", "every view returns a value", format!("panic: {}", p))),
    }
}

fn gen_case(t: &mut Tape) -> Vec<u8> {
    let mut x = match t.weighted(&[8, 2, 2]) {
        0 => gen::gen_valid_line(t, false),
        // near-miss lines: only what some route accepts is judged, so these matter exactly when a route accepts too much
        2 => gen::gen_v1_mutant(t).0,
        _ => {
            // UNKNOWN tails with runs of spaces
            let mut l = b"PROXY UNKNOWN".to_vec();
            let n = t.usize_in(0, 10);
            for _ in 0..n {
                l.extend_from_slice(*t.pick(&[&b" "[..], b"  ", b"a", b"1.2.3.4", b"\n", b"\xc3\xa9", b"TCP4"]));
            }
            l.extend_from_slice(b"\r\n");
            l
        }
    };
    if t.coin() {
        x.extend(gen::gen_trailer(t, false).0);
    }
    x
}

pub fn run(r: &mut Runner) -> &'static str {
    r.rule = "inputs: accepted v1 lines - TCP4 / TCP6 in every spelling, UNKNOWN with no text, short text, text up to exactly 107 bytes, runs of spaces, non-ASCII text - with and without trailing bytes; borrowed, owned and via &str. \
              oracle: identities against the RAW line: protocol() == second field == keyword of the decoded kind; addresses_str() == the bytes between keyword and CRLF minus one leading space; \
              'PROXY' SP protocol [SP] addresses_str CRLF == the line == to_string() == header. non-trivial = every accepted line; distinct by SipHash Added later: UNKNOWN text made of protocol words, clone and clone_from copies onto headers of each kind, chains."
        .into();
    r.assumptions.push("conditioned on acceptance by the implementation (C01 owns acceptance)".into());
    let n = r.n(250_000, 6_000_000);
    r.random("c15.views", n, 200, &gen_case, &|x: &Vec<u8>, st: &mut Stats| crate::engine::in_arena(x, |v| judge(v, st)));
    // the same check over chains of related inputs judged back to back on one thread (history independence)
    let n = r.n(30000, 800000);
    r.random("c15.chains", n, 260, &|t| crate::gen::gen_chain(t, &gen_case), &|c: &crate::engine::Chain, st: &mut Stats| {
        // every member is parsed from this thread's reusable read buffer (same address, new contents)
        for x in &c.0 {
            crate::engine::in_arena(x, |v| judge(v, st))?;
        }
        Ok(())
    });
    // every UNKNOWN tail over a small alphabet up to 6 symbols
    let alpha: &[&[u8]] = &[b" ", b"a", b"\n", b"\xc3\xa9", b"T"];
    let k = if r.quick() { 6 } else { 8 };
    let work = |shard: usize, nshards: usize, st: &mut Stats, _stop: &std::sync::atomic::AtomicBool| -> Option<(Vec<u8>, Fail)> {
        for len in 0..=k {
            let total = (alpha.len() as u64).pow(len as u32);
            let mut idx = shard as u64;
            while idx < total {
                let mut l = b"PROXY UNKNOWN".to_vec();
                let mut q = idx;
                for _ in 0..len {
                    l.extend_from_slice(alpha[(q % alpha.len() as u64) as usize]);
                    q /= alpha.len() as u64;
                }
                l.extend_from_slice(b"\r\n");
                if let Err(f) = judge(&l, st) {
                    return Some((l, f));
                }
                idx += nshards as u64;
            }
        }
        None
    };
    let space = format!("every UNKNOWN line whose tail is a sequence of <= {} symbols over {{SP, a, LF, e-acute, T}}", k);
    r.bulk("c15.unknown-tails", Some(&space), &work, &judge);
    "exploration"
}
