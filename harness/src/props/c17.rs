//! C17 — v2 incomplete errors state exactly how many bytes are present and needed.

use crate::engine::{fill, hex, CaseIo, Fail, Runner, Stats, Tape, Verdict};
use crate::gen;
use crate::imp;
use crate::oracle::v2::{v2_ref, V2Ref, SIG};
use crate::props::c02::{shape2, valid_afp};
use ppp::v2::ParseError as E2;
use std::sync::atomic::{AtomicBool, Ordering};

/// Case: a (possibly truncated) input plus a seed for the completion bytes.
#[derive(Clone, Debug)]
pub struct Case {
    pub input: Vec<u8>,
    pub fill_seed: u32,
    /// when not empty: the bytes the header was cut off from (the completion is then taken from them - what the sender
    /// really sends next - as far as they reach)
    pub tail: Vec<u8>,
}

impl CaseIo for Case {
    fn to_json(&self) -> serde_json::Value {
        serde_json::json!({"input_hex": hex(&self.input), "fill_seed": self.fill_seed, "tail_hex": hex(&self.tail)})
    }
    fn from_json(v: &serde_json::Value) -> Option<Self> {
        Some(Case { input: crate::engine::unhex(v.get("input_hex")?.as_str()?)?, fill_seed: v.get("fill_seed").and_then(|x| x.as_u64()).unwrap_or(1) as u32, tail: v.get("tail_hex").and_then(|x| x.as_str()).and_then(crate::engine::unhex).unwrap_or_default() })
    }
    fn simpler(&self) -> Vec<Self> {
        let mut out = Vec::new();
        if self.input.len() > 16 {
            // drop payload bytes from the end
            for cut in [16usize, (self.input.len() + 16) / 2, self.input.len() - 1] {
                if cut < self.input.len() {
                    out.push(Case { input: self.input[..cut].to_vec(), fill_seed: self.fill_seed, tail: vec![] });
                }
            }
        }
        if self.fill_seed != 0 {
            out.push(Case { input: self.input.clone(), fill_seed: 0, tail: vec![] });
        }
        out
    }
    fn digest(&self) -> u64 {
        crate::engine::hash_bytes(&self.input)
    }
}

const ENTRY: &str = "v2::Header::try_from(&[u8])";

/// The bytes appended to complete a truncated header ("whatever their values"): by seed class either filler
/// bytes (random / all zero / all 0xFF / ASCII / signature-like, see engine::fill) or - one seed in four - a
/// run of well-formed TLVs with registered type codes and short values (so that a parser which starts to
/// interpret the completed TLV region, e.g. to verify a checksum TLV, is exercised), cut to exactly `n` bytes.
pub fn completion_bytes(seed: u32, n: usize) -> Vec<u8> {
    if seed % 4 != 3 || seed >= 0xffff_fff0 {
        return fill(seed, n);
    }
    crate::gen::tlv_run(seed, n)
}

/// The numbers a message states: maximal runs of decimal digits, and `0x`-prefixed hexadecimal numbers.
fn stated_numbers(msg: &str) -> Vec<u128> {
    let b = msg.as_bytes();
    let mut out = Vec::new();
    let mut i = 0;
    while i < b.len() {
        if b[i] == b'0' && i + 2 < b.len() && (b[i + 1] == b'x' || b[i + 1] == b'X') && b[i + 2].is_ascii_hexdigit() {
            let mut j = i + 2;
            while j < b.len() && b[j].is_ascii_hexdigit() {
                j += 1;
            }
            out.push(u128::from_str_radix(&msg[i + 2..j], 16).unwrap_or(u128::MAX));
            i = j;
        } else if b[i].is_ascii_digit() {
            let mut j = i;
            while j < b.len() && b[j].is_ascii_digit() {
                j += 1;
            }
            // a digit run glued to letters (`1C`, `a3`) is not a decimal number
            let glued = (i > 0 && b[i - 1].is_ascii_alphabetic()) || (j < b.len() && b[j].is_ascii_alphabetic());
            out.push(if glued { u128::MAX } else { msg[i..j].parse().unwrap_or(u128::MAX) });
            i = j;
        } else {
            i += 1;
        }
    }
    out
}

/// The error's own text is how the counts reach a log or an operator: if it states numbers at all, the exact counts are
/// among them (a message without numbers is fine; so is any wording).
fn message_states(e: &E2, counts: &[usize], x: &[u8]) -> Verdict {
    let msg = match crate::engine::guard(|| e.to_string()) {
        Ok(m) => m,
        Err(_) => return Ok(()),
    };
    let nums = stated_numbers(&msg);
    if nums.is_empty() {
        return Ok(());
    }
    for c in counts {
        if !nums.contains(&(*c as u128)) {
            return Err(Fail::new("message-states-other-numbers", shape2(x), "Display for v2::ParseError", format!("a text that states {:?}", counts), format!("{:?}", msg)));
        }
    }
    Ok(())
}

/// Check one input against the statement; `deep` also runs the completion metamorphic steps.
pub fn judge_with(c: &Case, st: &mut Stats, deep: bool) -> Verdict {
    judge_with_at(c, &c.input, st, deep)
}

/// `x` holds the bytes of `c.input` (possibly at another address: the thread's reusable read buffer).
pub fn judge_with_at(c: &Case, x: &Vec<u8>, st: &mut Stats, deep: bool) -> Verdict {
    st.eval();
    let got = imp::v2_parse(x);
    let want = v2_ref(x);
    // the auto-detecting entry point hands on the v2 parser's incomplete results: their counts must be the same exact
    // ones - also right after it has accepted a text header (one case in four)
    if st.evals % 4 == 0 {
        let _ = imp::auto(b"PROXY TCP4 127.0.0.1 192.168.1.1 80 443\r\n");
    }
    let through_auto = imp::auto(x);
    if let (Ok(ppp::HeaderResult::V1(Err(e1))), V2Ref::Incomplete(_) | V2Ref::Partial(..)) = (&through_auto, &want) {
        // a truncated v2 header answered by the text parser: only legitimate when the binary parser has ruled it out
        if x.len() <= 12 || ((x[12] == 0x20 || x[12] == 0x21) && (x.len() < 14 || valid_afp(x[13]))) {
            return Err(Fail::new("counts-through-auto-detection", shape2(x), "HeaderResult::parse", format!("V2(Err({:?}))", want), format!("V1(Err({:?}))", e1)));
        }
    }
    // ... nor by a success of either version: the buffer is a truncated v2 header and nothing else
    if let (Ok(a), V2Ref::Incomplete(_) | V2Ref::Partial(..)) = (&through_auto, &want) {
        let valid_so_far = x.len() <= 12 || ((x[12] == 0x20 || x[12] == 0x21) && (x.len() < 14 || valid_afp(x[13])));
        if valid_so_far && matches!(a, ppp::HeaderResult::V1(Ok(_)) | ppp::HeaderResult::V2(Ok(_))) {
            return Err(Fail::new("counts-through-auto-detection", shape2(x), "HeaderResult::parse", format!("V2(Err({:?}))", want), crate::imp::short(&format!("{:?}", a))));
        }
    }
    if let Ok(ppp::HeaderResult::V2(Err(e))) = through_auto {
        let exact = match (&e, &want) {
            (E2::Incomplete(n), V2Ref::Incomplete(m)) => n == m,
            (E2::Partial(a, b), V2Ref::Partial(c2, d)) => a == c2 && b == d,
            (E2::Incomplete(_), _) | (E2::Partial(..), _) => false,
            _ => true,
        };
        if !exact {
            return Err(Fail::new("counts-through-auto-detection", shape2(x), "HeaderResult::parse", format!("{:?}", want), format!("V2(Err({:?}))", e)));
        }
    }
    let r = match &got {
        Ok(r) => r,
        Err(_) => return Ok(()), // C03's business
    };
    // "reports an incomplete result": the error value itself, asked with method syntax (which an inherent method of the same
    // name would intercept), and the Result that carries it, flag it incomplete and not complete
    if let Err(e @ (E2::Incomplete(_) | E2::Partial(..))) = r {
        use ppp::PartialResult;
        let flags = crate::engine::guard(|| (e.is_incomplete(), e.is_complete(), r.is_incomplete(), r.is_complete()));
        if let Ok(f) = flags {
            if f != (true, false, true, false) {
                return Err(Fail::new("incomplete-result-not-flagged", shape2(x), ENTRY, "error.is_incomplete(), !error.is_complete(), and the same on the Result", format!("{:?}: (error.is_incomplete, error.is_complete, result.is_incomplete, result.is_complete) = {:?}", e, f)));
            }
        }
    }
    match r {
        Err(E2::Incomplete(n)) => {
            st.nontrivial(c.digest());
            st.class("incomplete-fixed-part");
            st.sample("incomplete-fixed-part", || hex(x));
            if x.len() >= 16 || *n != x.len() {
                return Err(Fail::new(
                    "incomplete-count",
                    shape2(x),
                    ENTRY,
                    format!("Incomplete({}) only while fewer than 16 bytes are present (reference: {:?})", x.len(), want),
                    format!("Incomplete({}) for {} bytes", n, x.len()),
                ));
            }
            message_states(r.as_ref().err().unwrap(), &[*n], x)
        }
        Err(E2::Partial(have, need)) => {
            st.nontrivial(c.digest());
            st.class("partial-payload");
            st.sample("partial-payload", || format!("{} ({} bytes)", hex(&x[..x.len().min(24)]), x.len()));
            let ok = x.len() >= 16 && *have == x.len() - 16 && *need == (((x[14] as usize) << 8) | x[15] as usize) && have < need;
            if !ok {
                return Err(Fail::new(
                    "partial-count",
                    shape2(x),
                    ENTRY,
                    format!("reference: {:?}", want),
                    format!("Partial({}, {}) for {} bytes present", have, need, x.len()),
                ));
            }
            message_states(r.as_ref().err().unwrap(), &[*have, *need], x)?;
            if !deep {
                return Ok(());
            }
            let missing = need - have;
            let mut extra = completion_bytes(c.fill_seed, missing);
            if !c.tail.is_empty() {
                let k = c.tail.len().min(missing);
                extra[..k].copy_from_slice(&c.tail[..k]);
            }
            // supplying exactly the missing bytes gives a success
            let mut full = x.clone();
            full.extend_from_slice(&extra);
            match imp::v2_parse(&full) {
                Ok(Ok(h)) if h.header.len() == 16 + need => {}
                other => {
                    return Err(Fail::new(
                        "completion",
                        shape2(x),
                        ENTRY,
                        format!("after appending exactly the {} missing bytes: Ok with {} header bytes", missing, 16 + need),
                        imp::show(&other),
                    ))
                }
            }
            // supplying fewer leaves it incomplete with updated counts
            let mut ks = vec![1usize, missing / 2, missing - 1];
            ks.retain(|k| *k >= 1 && *k < missing);
            ks.dedup();
            for k in ks {
                let mut part = x.clone();
                part.extend_from_slice(&extra[..k]);
                match imp::v2_parse(&part) {
                    Ok(Err(E2::Partial(h2, n2))) if h2 == have + k && n2 == *need => {}
                    other => {
                        return Err(Fail::new(
                            "partial-update",
                            shape2(x),
                            ENTRY,
                            format!("after appending {} of the {} missing bytes: Partial({}, {})", k, missing, have + k, need),
                            imp::show(&other),
                        ))
                    }
                }
            }
            Ok(())
        }
        _ => {
            st.class("not-incomplete");
            // The statement quantifies over truncated v2 headers (valid control bytes, any declared length, any number
            // of bytes present): for those the parser owes an incomplete result carrying the exact counts. A truncated
            // header that draws anything else - a terminal error, a success - has no counts at all.
            let truncated_valid_header = match want {
                V2Ref::Incomplete(_) | V2Ref::Partial(..) => {
                    x.len() <= 12 || ((x[12] == 0x20 || x[12] == 0x21) && (x.len() < 14 || valid_afp(x[13])))
                }
                _ => false,
            };
            if truncated_valid_header {
                return Err(Fail::new(
                    "truncated-header-without-counts",
                    shape2(x),
                    ENTRY,
                    format!("{:?} for a truncated header of {} bytes", want, x.len()),
                    imp::show(&got),
                ));
            }
            if matches!(want, V2Ref::Incomplete(_) | V2Ref::Partial(..)) {
                st.discard();
            }
            Ok(())
        }
    }
}

pub fn judge(c: &Case, st: &mut Stats) -> Verdict {
    // parsed from this thread's reusable read buffer (same start address for consecutive cases)
    crate::engine::in_arena(&c.input, |v| judge_with_at(c, v, st, true))?;
    // the same buffer reused at once for another connection whose first segment has the SAME size but announces another
    // length (and, half of the time, another family / command): an answer remembered per (buffer, size) would be stale
    if c.input.len() >= 16 {
        let mut y = c.input.clone();
        let have = y.len() - 16;
        let old = ((y[14] as usize) << 8) | y[15] as usize;
        let mut l2 = (have + 1 + (c.fill_seed as usize % 977)).min(65535);
        if l2 == old {
            l2 = if l2 < 65535 { l2 + 1 } else { l2 - 1 };
        }
        y[14] = (l2 >> 8) as u8;
        y[15] = l2 as u8;
        if c.fill_seed & 0x100 != 0 {
            y[12] = 0x20 | (c.fill_seed as u8 >> 7 & 1);
            y[13] = ((c.fill_seed >> 9) as u8 % 4) << 4 | ((c.fill_seed >> 11) as u8 % 3);
        }
        let c2 = Case { input: y, fill_seed: c.fill_seed ^ 0x5a5a, tail: vec![] };
        st.class("same-size-follow-up");
        // the receiver's last look at the first connection's segment (still short), then the buffer is handed to the next one
        crate::engine::in_arena(&c.input, |v| {
            let _ = imp::v2_parse(v);
        });
        crate::engine::in_arena(&c2.input, |v| judge_with_at(&c2, v, st, true))?;
    }
    Ok(())
}

/// A complete, well-formed header whose length field is written little-endian (a host-order sender). Where the swapped
/// value is larger than the payload the input reads as a truncated header with exactly `payload` bytes present.
fn little_endian_length(t: &mut Tape) -> Vec<u8> {
    let fam = 1 + t.below(3) as u8;
    let need = crate::oracle::v2::NEED[fam as usize];
    let mut payload = gen::gen_addr_block(t, fam);
    match t.below(3) {
        0 => payload.extend(gen::tlv_run(t.u32() | 3, t.usize_in(3, 60))),
        1 => {
            // whole TLVs only
            let n = t.usize_in(1, 5);
            for _ in 0..n {
                let kind = *t.pick(&[0x01u8, 0x02, 0x03, 0x04, 0x05, 0x20, 0x21, 0x22, 0x30]);
                let len = *t.pick(&[0usize, 1, 4, 4, 7, 32]);
                payload.push(kind);
                payload.extend_from_slice(&(len as u16).to_be_bytes());
                payload.extend(fill(crate::engine::gen_seed(t), len));
            }
        }
        _ => payload.extend(gen::enc_tlv_list(&gen::gen_tlv_list(t, 300))),
    }
    let _ = need;
    let mut h = SIG.to_vec();
    h.push(0x20 | t.below(2) as u8);
    h.push((fam << 4) | t.below(3) as u8);
    h.extend_from_slice(&(payload.len() as u16).to_le_bytes());
    h.extend_from_slice(&payload);
    h
}

fn gen_case(t: &mut Tape) -> Case {
    if t.chance(1, 12) {
        let mut h = little_endian_length(t);
        match t.below(4) {
            0 => {
                h.pop();
            }
            1 => h.push(0),
            _ => {}
        }
        let fill_seed = if t.chance(1, 3) { t.u32() | 3 } else { crate::engine::gen_seed(t) };
        return Case { input: h, fill_seed, tail: vec![] };
    }
    let h = match t.weighted(&[6, 2, 2]) {
        0 => gen::gen_v2_header(t).bytes,
        1 => {
            // valid control bytes, arbitrary declared length, possibly nothing behind it
            let mut h = SIG.to_vec();
            h.push(0x20 | t.below(2) as u8);
            h.push(((t.below(4) as u8) << 4) | t.below(3) as u8);
            let l = match t.weighted(&[3, 3, 2]) {
                0 => t.usize_in(0, 300),
                1 => t.u16() as usize,
                _ => *t.pick(&[65535usize, 65534, 12, 36, 216, 217]),
            };
            h.extend_from_slice(&(l as u16).to_be_bytes());
            h.extend(fill(crate::engine::gen_seed(t), l));
            h
        }
        _ => gen::gen_v2_mutant(t).0,
    };
    let cut = match t.weighted(&[3, 3, 2, 1, 3]) {
        0 => t.below(h.len() as u32 + 1) as usize,
        1 => t.below(17.min(h.len() as u32 + 1)) as usize,
        2 => h.len().saturating_sub(t.usize_in(1, 3)),
        3 => h.len(),
        // right behind the address block (or a few TLV-sized steps further): the completion bytes then start
        // on a TLV boundary, so a TLV-structured completion is seen as TLVs by a parser that looks at them
        _ => {
            let fam = if h.len() > 13 { (h[13] >> 4) as usize & 3 } else { 0 };
            16 + crate::oracle::v2::NEED[fam] + *t.pick(&[0usize, 0, 0, 3, 7])
        }
    };
    // completion content: one case in three uses the TLV-structured class (seed = 3 mod 4)
    let fill_seed = if t.chance(1, 3) { t.u32() | 3 } else { crate::engine::gen_seed(t) };
    let cut = cut.min(h.len());
    // one case in three is completed with the bytes it was cut off from
    let tail = if cut < h.len() && t.chance(1, 3) { h[cut..].to_vec() } else { vec![] };
    Case { input: h[..cut].to_vec(), fill_seed, tail }
}

pub fn run(r: &mut Runner) -> &'static str {
    r.rule = "inputs: truncated v2 headers - every valid control-byte pair x every declared length x a set of bytes-present counts (all of 0..15, and 16+{0,1,2,L/2,L-2,L-1}), \
              invalid control pairs with 12-15 bytes, random truncations of random headers and mutants; oracle: R-V2's exact counts for every incomplete result the parser reports, \
              then the completion relation (append exactly the missing bytes -> success of 16+L bytes; append fewer -> updated counts). non-trivial = cases on which the parser \
              reported an incomplete result; distinct by SipHash of the input (enumeration stage: distinct by construction) Added later: completion bytes in content classes and as runs of well-formed TLVs at the address/TLV boundary, truncated valid headers must draw counts at all, counts through the auto-detecting entry point."
        .into();
    r.assumptions.push("C17 is conditional on the parser reporting an incomplete result; whether it must do so is C05/C02".into());

    let n = r.n(150_000, 3_000_000);
    r.random("c17.random", n, 200, &gen_case, &judge);

    let quick = r.quick();
    let seed = r.seed as u32;
    let work = |shard: usize, nshards: usize, st: &mut Stats, stop: &AtomicBool| -> Option<(Case, Fail)> {
        let mut buf = SIG.to_vec();
        buf.extend_from_slice(&[0, 0, 0, 0]);
        buf.extend(fill(seed.wrapping_mul(40503).wrapping_add(shard as u32) | 1, 65535));
        let mut pairs: Vec<(u8, u8)> = Vec::new();
        for vc in [0x20u8, 0x21] {
            for afp in 0..=0x32u8 {
                if valid_afp(afp) {
                    pairs.push((vc, afp));
                }
            }
        }
        let mut evals = 0u64;
        let mut nontrivial = 0u64;
        for (pi, (vc, afp)) in pairs.iter().enumerate() {
            buf[12] = *vc;
            buf[13] = *afp;
            let fam = (*afp >> 4) as usize;
            let need = crate::oracle::v2::NEED[fam];
            let mut l = shard as u32;
            while l < 65536 {
                if l % 1024 < nshards as u32 && stop.load(Ordering::Relaxed) {
                    return None;
                }
                buf[14] = (l >> 8) as u8;
                buf[15] = l as u8;
                let lu = l as usize;
                let mut haves: Vec<usize> = (0..16).collect();
                if lu >= need.max(1) {
                    for k in [0usize, 1, 2, need, lu / 2, lu.saturating_sub(2), lu - 1] {
                        if k < lu {
                            haves.push(16 + k);
                        }
                    }
                }
                haves.sort();
                haves.dedup();
                for &have in &haves {
                    let x = &buf[..have];
                    evals += 1;
                    // cheap exact comparison; the full judge only on disagreement or on the sampled deep cases
                    let got = imp::v2_parse(x);
                    let exact = match (&got, have) {
                        (Ok(Err(E2::Incomplete(n))), h) if h < 16 => *n == h,
                        (Ok(Err(E2::Partial(a, b))), h) if h >= 16 => *a == h - 16 && *b == lu,
                        _ => false,
                    };
                    nontrivial += 1;
                    // completion relation: in place, on the shared buffer (the bytes behind the cut are the seed-derived payload)
                    let mut completion_ok = true;
                    if exact && have >= 16 {
                        completion_ok = matches!(imp::v2_parse(&buf[..16 + lu]), Ok(Ok(ref h)) if h.header.len() == 16 + lu);
                    }
                    let deep = !quick || (l as usize + pi) % 64 == 0;
                    let boundary = have == 16 + need && lu > need;
                    if !exact || !completion_ok || (deep && have >= 16 && (have + 1 == 16 + lu || boundary)) {
                        // on the address/TLV boundary the completion is TLV-structured (seed = 3 mod 4)
                        let c = Case { input: x.to_vec(), fill_seed: if boundary { (seed ^ l) | 3 } else { seed ^ l }, tail: vec![] };
                        let mut scratch = Stats { frozen: true, ..Stats::default() };
                        if let Err(f) = judge_with(&c, &mut scratch, true) {
                            return Some((c, f));
                        }
                        if !exact {
                            // the parser did not report an incomplete result here: not C17's to judge
                            nontrivial -= 1;
                            st.discard();
                        }
                    }
                }
                l += nshards as u32;
            }
        }
        // invalid control pairs with 12..=15 bytes present
        let mut pair = shard as u32;
        while pair < 65536 {
            buf[12] = (pair >> 8) as u8;
            buf[13] = pair as u8;
            for have in 12..16usize {
                evals += 1;
                let c_in = &buf[..have];
                if let Ok(Err(e)) = imp::v2_parse(c_in) {
                    let bad = match e {
                        E2::Incomplete(n) => n != have,
                        E2::Partial(..) => true,
                        _ => false,
                    };
                    if bad {
                        let c = Case { input: c_in.to_vec(), fill_seed: 1, tail: vec![] };
                        let mut scratch = Stats { frozen: true, ..Stats::default() };
                        if let Err(f) = judge_with(&c, &mut scratch, true) {
                            return Some((c, f));
                        }
                    }
                }
            }
            pair += nshards as u32;
        }
        st.evals_n(evals);
        st.nontrivial_counted += nontrivial;
        None
    };
    r.bulk(
        "c17.enumerate",
        Some("24 valid control pairs x all 65536 declared lengths x bytes present in {0..15} U 16+{0,1,2,address block size,L/2,L-2,L-1}; all 65536 control pairs x 12..15 bytes present"),
        &work,
        &judge,
    );
    "exploration"
}
