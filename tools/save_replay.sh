#!/bin/sh
# tools/save_replay.sh <seeded dir> : run the seeded change's OWN check (quick tier, current harness) against a scratch copy with
# the change applied and keep the shrunk failing case it reports as <seeded dir>/replay.json (the file the VIOLATION line
# names). tools/install_regress.py turns those files into the committed replay tier regress/<ID>/seeded-<id>.json: cases that
# are re-judged first in every run, whatever the random stages happen to generate.
set -u
D=$(readlink -f "$1"); NAME=$(basename "$D"); ID=$(echo "$NAME" | cut -c1-3)
W=$(mktemp -d /tmp/rep.XXXXXX)
trap 'rm -rf "$W"' EXIT
export CARGO_NET_OFFLINE=true
mkdir -p "$W/repo" "$W/vd"
git -C /repo archive HEAD | tar -x -C "$W/repo" || exit 2
(cd "$W/repo" && git init -q . && git apply --whitespace=nowarn "$D/patch.diff") || { echo "REPLAY $NAME apply=FAILED"; exit 2; }
rsync -a --exclude target /verif/harness/ "$W/harness/"
sed -i "s#path = \"/repo\"#path = \"$W/repo\"#" "$W/harness/Cargo.toml"
cp /verif/KNOWN_FINDINGS.txt "$W/vd/"
cp -r /verif/harness/target "$W/ht" 2>/dev/null
if ! (cd "$W/harness" && CARGO_TARGET_DIR="$W/ht" cargo build --release --quiet >"$W/build.log" 2>&1); then echo "REPLAY $NAME build=FAILED"; exit 2; fi
out=$(VERIF_DIR="$W/vd" timeout 1500 "$W/ht/release/ppp-verif" "$ID" --tier quick --no-evidence 2>/dev/null); rc=$?
case "$ID" in C03|C07|C09|C10|C13|C20)
  if [ $rc = 0 ]; then
    (cd "$W/harness" && CARGO_TARGET_DIR="$W/ht" cargo build --profile checked --quiet >>"$W/build.log" 2>&1) && { out=$(VERIF_SCALE=0.25 VERIF_DIR="$W/vd" timeout 1500 "$W/ht/checked/ppp-verif" "$ID" --tier quick --no-evidence 2>/dev/null); rc=$?; }
  fi ;;
esac
f=$(echo "$out" | grep -m1 -o 'replay=[^ ]*' | sed 's/replay=//')
if [ $rc = 1 ] && [ -n "$f" ] && [ -f "$f" ]; then
  cp "$f" "$D/replay.json"
  echo "REPLAY $NAME saved $(wc -c < "$D/replay.json") bytes $(echo "$out" | grep -m1 -o 'sig=[^ ]*' | cut -c1-120)"
else
  echo "REPLAY $NAME none (rc=$rc)"
fi
