#!/usr/bin/env python3
"""Combine each seeded change's agent_meta.json and eval.txt into meta.json, and write seeded/TABLE.md."""
import json, os, re, glob
root = os.path.join(os.path.dirname(os.path.abspath(__file__)), "..", "seeded")
rows = []
for d in sorted(glob.glob(os.path.join(root, "*/"))):
    name = os.path.basename(d.rstrip("/"))
    am = {}
    try:
        am = json.load(open(os.path.join(d, "agent_meta.json")))
    except Exception:
        pass
    ev = open(os.path.join(d, "eval.txt")).read() if os.path.exists(os.path.join(d, "eval.txt")) else ""
    m = re.search(r"unit_tests=\[(.*?)\] doctests=(\S+) demo_without_change=(\S+) demo_with_change=(\S+)", ev)
    s = re.search(r"SUMMARY caught_by=\[(.*?)\] silent=\[(.*?)\]", ev)
    sigs = dict(re.findall(r"caught_by=(C\d+) check=(\S+ sig=\S+)", ev))
    prop = am.get("property", name[:3])
    caught = s.group(1).split() if s else []
    # the own check re-run with the current harness (tools/own_check_now.sh) overrides the own-check column of eval.txt
    own_now = ""
    try:
        own_now = open(os.path.join(d, "own_now.txt")).read()
    except Exception:
        pass
    if "verdict=CAUGHT" in own_now and prop not in caught:
        caught = sorted(set(caught + [prop]))
        mm = re.search(r"check=(\S+) sig=(\S+)", own_now)
        if mm:
            sigs[prop] = "%s sig=%s" % (mm.group(1), mm.group(2))
    elif "verdict=missed" in own_now and prop in caught:
        caught = [c for c in caught if c != prop]
    meta = {
        "id": name,
        "property_broken": prop,
        "summary": am.get("summary", ""),
        "needs_to_manifest": am.get("needs", ""),
        "source": "written by an independent sub-agent that saw only the property text and a scratch worktree of /repo (nothing from /verif)",
        "confirmed_by_me": {
            "how": "tools/mutant_eval.sh on scratch copies of /repo HEAD outside /repo and /verif: git apply patch.diff; cargo test --offline --lib; cargo test --offline --doc; tests/demo.rs run on the unchanged copy and on the changed copy; then the quick tier of all 20 checks against the changed copy",
            "unit_tests_with_change": m.group(1) if m else "not run",
            "doctests_with_change": m.group(2) if m else "not run",
            "demo_without_change": m.group(3) if m else "not run",
            "demo_with_change": m.group(4) if m else "not run",
        },
        "checks_that_catch_it": caught,
        "caught_by_own_property_check": prop in caught,
        "first_signature_per_check": sigs,
        "agent_commands_run": am.get("commands_run", []),
    }
    json.dump(meta, open(os.path.join(d, "meta.json"), "w"), indent=1)
    rows.append((name, prop, am.get("summary", "")[:110].replace("|", "/"), " ".join(caught), "yes" if prop in caught else "NO"))
with open(os.path.join(root, "TABLE.md"), "w") as f:
    f.write("| seeded change | breaks | what was changed | quick checks that report a VIOLATION | own check catches |\n|---|---|---|---|---|\n")
    for r in rows:
        f.write("| %s | %s | %s | %s | %s |\n" % r)
print("wrote meta.json for", len(rows), "seeded changes;", sum(1 for r in rows if r[4] == "yes"), "caught by their own property's check")
