//! C18 — the v1 verdict is final once the first line break or 107 bytes have been seen.

use crate::engine::{esc, CaseIo, Fail, Pair, Runner, Stats, Tape, Verdict};
use crate::gen;
use crate::imp;
use crate::oracle::v1::{closed, first_cr, shape};
use ppp::PartialResult;
use std::sync::atomic::{AtomicBool, Ordering};

pub fn judge(c: &Pair, st: &mut Stats) -> Verdict {
    crate::engine::in_arena(&c.0, |x| judge_at(x, &c.1, st))
}

fn judge_at(x: &Vec<u8>, t: &Vec<u8>, st: &mut Stats) -> Verdict {
    if !closed(x) {
        st.class("not-closed-skipped");
        return Ok(());
    }
    st.eval();
    // closed by its first CR and the byte behind it (as opposed to: by 107 CR-free bytes, whatever follows those)
    let by_cr = first_cr(x).map_or(false, |p| p + 1 < x.len() && p < 107);
    if x.starts_with(b"PROXY") || (!by_cr && (x.len() == 107 || x.len() == 108)) {
        st.nontrivial(x.digest());
    }
    let cls = if by_cr {
        let p = first_cr(x).unwrap();
        if x[p + 1] == b'\n' {
            "closed-by-CRLF"
        } else {
            "closed-by-CR+other-byte"
        }
    } else {
        "closed-by-107-bytes-without-CR"
    };
    st.class(cls);
    st.sample(cls, || esc(&x[..x.len().min(120)]));
    let fail = |entry: &str, obs: String| {
        Err(Fail::new(
            format!("incomplete-although-closed:{}", entry),
            shape(x),
            entry,
            "a complete result (success or terminal error): the first CR and the byte after it, or 107 bytes without CR, have been seen",
            obs,
        ))
    };
    let rb = imp::v1_bytes(x);
    if let Ok(r) = &rb {
        if !r.is_complete() || r.is_incomplete() {
            return fail("v1::try_from(&[u8])", format!("{:?}", r));
        }
    }
    if let Ok(s) = std::str::from_utf8(x) {
        st.class("utf8");
        if let Ok(r) = imp::v1_str(s) {
            if !r.is_complete() {
                return fail("v1::try_from(&str)", format!("{:?}", r));
            }
        }
        if let Ok(r) = imp::v1_fromstr_header(s) {
            if !r.is_complete() {
                return fail("parse::<v1::Header>", format!("{:?}", r));
            }
        }
        if let Ok(r) = imp::v1_fromstr_addr(s) {
            if r.is_incomplete() {
                return fail("parse::<v1::Addresses>", format!("{:?}", r));
            }
        }
    }
    // a receiver sees the verdict through the auto-detecting entry point: whenever the v2 parser has ruled the input
    // out for good, the v1 verdict on a closed input must come through as complete there too
    if let (Ok(a), Ok(r2)) = (imp::auto(x), imp::v2_parse(x)) {
        if r2.is_err() && r2.is_complete() && (a.is_incomplete() || !a.is_complete()) {
            return fail("HeaderResult::parse", imp::short(&format!("{:?}", a)));
        }
    }
    // the verdict was final when the byte behind the first CR arrived: the input cut right there gets the very same result
    // through every route (whatever else the input already holds - a later CRLF, more fields - came too late to matter)
    if by_cr {
        let p = first_cr(x).unwrap();
        if p + 2 < x.len() {
            let cutb = &x[..p + 2];
            if let (Ok(a), Ok(b)) = (imp::v1_bytes(cutb), &rb) {
                if a != *b {
                    return Err(Fail::new("verdict-changes-after-closure:minimal-closed-prefix", shape(x), "v1::try_from(&[u8])", format!("the result for the first {} bytes: {:?}", p + 2, a), format!("{:?}", b)));
                }
            }
            if let (Ok(sc), Ok(sx)) = (std::str::from_utf8(cutb), std::str::from_utf8(x)) {
                if let (Ok(a), Ok(b)) = (imp::v1_str(sc), imp::v1_str(sx)) {
                    if a != b {
                        return Err(Fail::new("verdict-changes-after-closure:minimal-closed-prefix:v1::try_from(&str)", shape(x), "v1::try_from(&str)", format!("the result for the first {} bytes: {:?}", p + 2, a), format!("{:?}", b)));
                    }
                }
                if let (Ok(a), Ok(b)) = (imp::v1_fromstr_addr(sc), imp::v1_fromstr_addr(sx)) {
                    if a != b {
                        return Err(Fail::new("verdict-changes-after-closure:minimal-closed-prefix:parse::<Addresses>", shape(x), "str::parse::<v1::Addresses>", format!("the result for the first {} bytes: {:?}", p + 2, a), format!("{:?}", b)));
                    }
                }
                if let (Ok(a), Ok(b)) = (imp::v1_fromstr_header(sc), imp::v1_fromstr_header(sx)) {
                    if a != b {
                        return Err(Fail::new("verdict-changes-after-closure:minimal-closed-prefix:parse::<Header>", shape(x), "str::parse::<v1::Header>", format!("the result for the first {} bytes: {:?}", p + 2, a), format!("{:?}", b)));
                    }
                }
            }
        }
    }
    // frozen window: once CR-closed, later bytes cannot change the result
    if by_cr && !t.is_empty() {
        let mut xt = x.clone();
        xt.extend_from_slice(t);
        // what the previous connection may have sent: the same bytes with an ordinary character where this input has its
        // first CR (if that is a well-formed line, the parser has just accepted a line of this very shape)
        if let Some(p) = first_cr(x) {
            let mut prev = xt.clone();
            prev[p] = [b' ', b'1', b'x', b':'][(x.digest() % 4) as usize];
            let _ = imp::v1_bytes(&prev);
        }
        let r2 = imp::v1_bytes(&xt);
        if let (Ok(a), Ok(b)) = (&rb, &r2) {
            if a != b {
                return Err(Fail::new(
                    "verdict-changes-after-closure",
                    shape(x),
                    "v1::try_from(&[u8])",
                    format!("the same result with {} more bytes: {:?}", t.len(), a),
                    format!("{:?}", b),
                ));
            }
        }
        // the text routes freeze at the same point (when x and x ++ t are both valid UTF-8)
        if let (Ok(sx), Ok(sxt)) = (std::str::from_utf8(x), std::str::from_utf8(&xt)) {
            let diff = |entry: &str, a: String, b: String| {
                Err(Fail::new(format!("verdict-changes-after-closure:{}", entry), shape(x), entry, format!("the same result with {} more bytes: {}", t.len(), a), b))
            };
            if let (Ok(a), Ok(b)) = (imp::v1_str(sx), imp::v1_str(sxt)) {
                if a != b {
                    return diff("v1::try_from(&str)", format!("{:?}", a), format!("{:?}", b));
                }
            }
            if let (Ok(a), Ok(b)) = (imp::v1_fromstr_header(sx), imp::v1_fromstr_header(sxt)) {
                if a != b {
                    return diff("parse::<v1::Header>", format!("{:?}", a), format!("{:?}", b));
                }
            }
            if let (Ok(a), Ok(b)) = (imp::v1_fromstr_addr(sx), imp::v1_fromstr_addr(sxt)) {
                if a != b {
                    return diff("parse::<v1::Addresses>", format!("{:?}", a), format!("{:?}", b));
                }
            }
            st.class("frozen-window-checked-text-routes");
        }
        st.class("frozen-window-checked");
    }
    Ok(())
}

/// The beginnings a v1 line can have: every prefix of three valid lines (the keyword alone, part of the protocol, part of a
/// field, ...).
fn line_beginnings() -> Vec<Vec<u8>> {
    let mut out: Vec<Vec<u8>> = Vec::new();
    for l in [&b"PROXY TCP4 1.2.3.4 5.6.7.8 80 443"[..], b"PROXY TCP6 ::1 2001:db8::2 1 2", b"PROXY UNKNOWN abc"] {
        for k in 1..=l.len() {
            if !out.iter().any(|o| o[..] == l[..k]) {
                out.push(l[..k].to_vec());
            }
        }
    }
    out
}

/// A CR-free input that BEGINS with `w`, in which `w` also stands right in front of byte offset `limit` (and, when `at_end`,
/// at the very end), `total` bytes long: to a parser that cuts at the limit, or looks at the end of what it has, the input
/// "still ends in an unfinished keyword" although the 107 bytes that decide are long there.
fn periodic(w: &[u8], limit: usize, total: usize, fill_kind: u8, at_end: bool) -> Vec<u8> {
    let mut l = w.to_vec();
    let unit: Vec<u8> = match fill_kind {
        0 => {
            let mut u = vec![b' '];
            u.extend_from_slice(w);
            u
        }
        1 => vec![b'x'],
        2 => vec![b' '],
        _ => b" 1.2.3.4".to_vec(),
    };
    let room = limit.saturating_sub(w.len() + 1);
    while l.len() < room {
        let take = (room - l.len()).min(unit.len());
        l.extend_from_slice(&unit[..take]);
    }
    if l.len() + 1 + w.len() == limit {
        l.push(b' ');
        l.extend_from_slice(w);
    }
    while l.len() < total {
        l.extend_from_slice(&unit);
    }
    l.truncate(total.max(limit.min(l.len())));
    if at_end && l.len() > w.len() + 1 {
        let n = l.len();
        l[n - w.len() - 1] = b' ';
        l[n - w.len()..].copy_from_slice(w);
    }
    l.retain(|&b| b != b'\r');
    l
}

/// true when `v` is not valid UTF-8 for another reason than a character cut short at its very end
fn multibyte_ok(v: &[u8]) -> bool {
    match std::str::from_utf8(v) {
        Ok(_) => true,
        Err(e) => e.error_len().is_some(),
    }
}

fn periodic_cr_free(t: &mut Tape) -> Vec<u8> {
    let ws = line_beginnings();
    // the five beginnings of the keyword itself half of the time
    let w = if t.coin() { ws[t.below(5) as usize].clone() } else { ws[t.below(ws.len() as u32) as usize].clone() };
    let limit = *t.pick(&[107usize, 107, 107, 106, 108, 105, 109]);
    let total = match t.below(4) {
        0 => limit,
        1 => limit + t.usize_in(1, 4),
        2 => *t.pick(&[128usize, 151, 255, 256, 257, 300, 512]),
        _ => t.usize_in(100, 140),
    };
    periodic(&w, limit, total, t.below(4) as u8, t.coin())
}

fn gen_case(t: &mut Tape) -> Pair {
    let x = match t.weighted(&[4, 4, 3, 3, 2, 2, 2]) {
        6 => {
            // inputs that are not text at all but hold a CR with more bytes behind it: every prefix (>= 2 bytes) of the v2
            // signature, whole v2 headers and their mutants, random bytes around a CR
            match t.below(4) {
                0 => crate::oracle::v2::SIG[..t.usize_in(2, 12)].to_vec(),
                1 => {
                    let mut v = crate::oracle::v2::SIG[..t.usize_in(2, 12)].to_vec();
                    v.extend(gen::gen_random_bytes(t, 40));
                    v
                }
                2 => gen::gen_v2_mutant(t).0,
                _ => {
                    let mut v = gen::gen_random_bytes(t, 30);
                    v.retain(|&b| b != b'\r');
                    v.push(b'\r');
                    v.push(t.byte());
                    v.extend(gen::gen_random_bytes(t, 10));
                    v
                }
            }
        }
        5 if t.chance(1, 4) => {
            // the read ended inside a multi-byte character that follows the CR directly: the lead byte (and perhaps a
            // continuation byte) is there, the rest arrives with the trailer
            let c = *t.pick(&['\u{e9}', '\u{20ac}', '\u{1f600}', '\u{a0}']);
            let mut buf = [0u8; 4];
            let enc = c.encode_utf8(&mut buf).as_bytes().to_vec();
            let keep = 1 + t.below(enc.len() as u32 - 1) as usize;
            let line = gen::gen_valid_line(t, true);
            let mut x = line[..line.len() - 1].to_vec();
            x.extend_from_slice(&enc[..keep]);
            let mut tr = enc[keep..].to_vec();
            match t.below(3) {
                0 => {}
                1 => tr.push(0xff),
                _ => tr.extend_from_slice(b"abc\r\n"),
            }
            return Pair(x, tr);
        }
        5 => {
            // valid UTF-8 with a multi-byte character right after (or before) the first CR: closed for the &str entry points too
            gen::gen_multibyte_cr(t).into_bytes()
        }
        0 => {
            // CRLF-terminated lines with 0..6 fields for each protocol
            let proto = *t.pick(&["TCP4", "TCP6", "UNKNOWN", "TCP", "", "tcp4"]);
            let n = t.usize_in(0, 6);
            let mut l = format!("PROXY {}", proto).into_bytes();
            for i in 0..n {
                l.push(b' ');
                let f: Vec<u8> = match (i, t.weighted(&[6, 2])) {
                    (0 | 1, 0) => {
                        if proto == "TCP6" {
                            gen::spell_v6(gen::gen_v6(t), t).into_bytes()
                        } else {
                            gen::spell_v4(gen::gen_v4(t)).into_bytes()
                        }
                    }
                    (_, 0) => gen::gen_port(t).to_string().into_bytes(),
                    _ => t.pick(&["", "x", "+1", "\n", "999999", "\u{e9}", "\u{20ac}", "1.2.3.\u{e9}", "\u{1f600}", "\u{feff}1"]).as_bytes().to_vec(),
                };
                l.extend(f);
            }
            l.extend_from_slice(if t.chance(1, 5) { b"\r" } else { b"\r\n" });
            if l.ends_with(b"\r") {
                l.push(t.byte());
            }
            l
        }
        1 => {
            // every prefix of a valid line, then CR and one arbitrary byte
            let line = gen::gen_valid_line(t, false);
            let body = &line[..line.len() - 2];
            let k = t.below(body.len() as u32 + 1) as usize;
            let mut l = body[..k].to_vec();
            // never cut inside a multi-byte character: that input is simply invalid UTF-8
            l.push(b'\r');
            l.push(match t.weighted(&[2, 1, 1]) {
                0 => b'\n',
                1 => *t.pick(&[b'X', b'\r', 0, b' ', b'T', b'P']),
                _ => t.byte(),
            });
            l
        }
        2 if t.chance(1, 4) => periodic_cr_free(t),
        2 if t.chance(1, 4) => {
            // 107 or more CR-free bytes, and only then a CR: as the very last byte supplied so far, or with LF / text behind it
            let total = t.usize_in(107, 140);
            let mut l = match t.below(3) {
                0 => b"PROXY UNKNOWN ".to_vec(),
                1 => b"PROXY TCP4 ".to_vec(),
                _ => {
                    let v = gen::gen_valid_line(t, true);
                    v[..v.len() - 2].to_vec()
                }
            };
            while l.len() < total {
                l.push(if l.starts_with(b"PROXY TCP4 ") && l.len() < 30 { b'1' } else { b'a' + (l.len() % 26) as u8 });
            }
            l.push(b'\r');
            match t.below(3) {
                0 => {}
                1 => l.push(b'\n'),
                _ => l.extend_from_slice(b"\nGET / HTTP/1.1\r\n"),
            }
            l
        }
        2 => {
            // CR-free inputs around the limit
            let total = t.usize_in(100, 120);
            let mut l = match t.weighted(&[2, 2, 1]) {
                0 => b"PROXY UNKNOWN ".to_vec(),
                1 => {
                    let v = gen::gen_valid_line(t, false);
                    v[..v.len() - 2].to_vec()
                }
                _ => vec![],
            };
            let multibyte = t.chance(1, 3);
            while l.len() < total {
                let left = total - l.len();
                match t.weighted(&[6, 1, 1, if multibyte { 4 } else { 0 }]) {
                    0 => l.push(b'a' + (l.len() % 26) as u8),
                    1 => l.push(b' '),
                    2 => l.push(t.range(0x21, 0x7e) as u8),
                    _ => {
                        // valid UTF-8 all the way: a multi-byte character only where it still fits
                        let c = *t.pick(&['\u{e9}', '\u{20ac}', '\u{1f600}', '\u{7ff}', '\u{800}']);
                        if c.len_utf8() <= left {
                            let mut buf = [0u8; 4];
                            l.extend_from_slice(c.encode_utf8(&mut buf).as_bytes());
                        } else {
                            l.push(b'z');
                        }
                    }
                }
            }
            l.truncate(total);
            l.retain(|&b| b != b'\r');
            // one input in six begins with characters that text tooling ignores or adds (a byte order mark, a zero-width space,
            // blanks, a NUL): they count towards the 107 bytes like anything else
            if t.chance(1, 6) {
                let pre: &[u8] = *t.pick(&[&b"\xef\xbb\xbf"[..], b"\xe2\x80\x8b", b" ", b"\t", b"\0", b"\n", b"\xc2\xa0", b"\xef\xbb\xbf\xef\xbb\xbf"]);
                let keep = if t.coin() { total } else { total + pre.len() };
                let mut v = pre.to_vec();
                v.extend_from_slice(&l);
                v.truncate(keep.max(pre.len()));
                // never cut inside a multi-byte character of the tail: drop a dangling partial character
                while std::str::from_utf8(&v).is_err() && !multibyte_ok(&v) {
                    v.pop();
                }
                l = v;
            }
            l
        }
        3 => {
            let (mut m, _) = gen::gen_v1_mutant(t);
            if !closed(&m) {
                m.extend_from_slice(b"\r\n");
            }
            m
        }
        _ => {
            let mut m = gen::gen_tokens(t);
            if !closed(&m) {
                m.extend_from_slice(*t.pick(&[&b"\r\n"[..], b"\rX", b"\r\r"]));
            }
            m
        }
    };
    // trailers: half of them valid UTF-8 (so that the text routes see x ++ t too), some of those short and CRLF-terminated
    let tr = match t.below(6) {
        0 | 1 => vec![],
        2 | 3 => gen::gen_trailer(t, true).0,
        4 => {
            let mut v = t.pick(&["QUIT", "", "x", "PROXY UNKNOWN", "GET / HTTP/1.1", "1", " "]).as_bytes().to_vec();
            v.extend_from_slice(b"\r\n");
            v
        }
        _ => gen::gen_trailer(t, false).0,
    };
    Pair(x, tr)
}

pub fn run(r: &mut Runner) -> &'static str {
    r.rule = "inputs closed BY CONSTRUCTION: CRLF- (or CR+byte-) terminated lines with 0-6 fields for TCP4 / TCP6 / UNKNOWN / bad protocols; every prefix of a valid line + CR + one byte (LF, stray byte, any byte); CR-free inputs of \
              100-120 bytes (valid-looking and random); closed one-step mutants and token sequences; plus a trailer for the frozen-window relation. oracle: is_complete() on try_from(&[u8]) and, for UTF-8 inputs, try_from(&str) and both \
              FromStr impls; for CR-closed x: parse(x ++ t) == parse(x). Exhaustive sub-stage: token sequences closed by CRLF / CR+X. non-trivial = closed inputs starting with PROXY, or CR-free inputs of exactly 107 / 108 bytes; distinct by SipHash Added later: multi-byte text around 107 bytes, the frozen window on the text routes, the verdict through the auto-detecting entry point."
        .into();
    let n = r.n(300_000, 8_000_000);
    r.random("c18.closed", n, 200, &gen_case, &judge);
    // exhaustive: all token sequences of <= k tokens, each closed three ways
    const ALPHA: &[&[u8]] = &[b"PROXY", b" ", b"UNKNOWN", b"TCP4", b"TCP6", b"1.2.3.4", b"::1", b"80", b"x", b"T", b"P", b"\n"];
    let k = if r.quick() { 5 } else { 6 };
    let work = |shard: usize, nshards: usize, st: &mut Stats, stop: &AtomicBool| -> Option<(Pair, Fail)> {
        for len in 0..=k {
            let total = (ALPHA.len() as u64).pow(len as u32);
            let mut idx = shard as u64;
            while idx < total {
                if idx % 4096 < nshards as u64 && stop.load(Ordering::Relaxed) {
                    return None;
                }
                let mut l = Vec::new();
                let mut q = idx;
                for _ in 0..len {
                    l.extend_from_slice(ALPHA[(q % ALPHA.len() as u64) as usize]);
                    q /= ALPHA.len() as u64;
                }
                for end in [&b"\r\n"[..], b"\rX", b"\r\r"] {
                    let mut x = l.clone();
                    x.extend_from_slice(end);
                    let c = Pair(x, vec![]);
                    if let Err(f) = judge(&c, st) {
                        return Some((c, f));
                    }
                }
                idx += nshards as u64;
            }
        }
        None
    };
    let space = format!("all sequences of <= {} tokens over a 12-token alphabet, each closed by CRLF, CR X and CR CR", k);
    r.bulk("c18.closed-token-sequences", Some(&space), &work, &judge);
    // exhaustive: CR-free inputs that begin with every beginning a line can have and show the same text again right in front
    // of the 107-byte limit / at their end, for every total length around the limit and some far beyond it
    let work_p = |shard: usize, nshards: usize, st: &mut Stats, stop: &AtomicBool| -> Option<(Pair, Fail)> {
        let ws = line_beginnings();
        for (i, w) in ws.iter().enumerate() {
            if i % nshards != shard {
                continue;
            }
            if stop.load(Ordering::Relaxed) {
                return None;
            }
            for total in (100usize..=132).chain([151, 200, 255, 256, 257, 300, 512, 1024]) {
                for limit in [107usize, 108, 106] {
                    for fk in 0..4u8 {
                        for at_end in [false, true] {
                            let c = Pair(periodic(w, limit, total, fk, at_end), vec![]);
                            if let Err(f) = judge(&c, st) {
                                return Some((c, f));
                            }
                        }
                    }
                }
            }
        }
        None
    };
    r.bulk("c18.periodic-cr-free", Some("every beginning of 3 valid lines (75 texts) repeated in front of byte 106 / 107 / 108 and at the end x 41 total lengths 100..=132, 151..1024 x 4 fillers"), &work_p, &judge);
    "exploration"
}
