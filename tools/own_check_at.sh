#!/bin/sh
# tools/own_check_at.sh <verif-commit> <seeded dir> : run only the seeded change's OWN property check (quick tier) with the
# harness as it was at <verif-commit> (a git worktree of /verif under /tmp, removed afterwards). Used to record which
# changes the harness missed BEFORE a round of strengthening. Prints "BEFORE <id> own=<ID> verdict=CAUGHT|missed|...".
set -u
COMMIT="$1"; D=$(readlink -f "$2"); NAME=$(basename "$D"); ID=$(echo "$NAME" | cut -c1-3)
W=$(mktemp -d /tmp/own.XXXXXX)
trap 'git -C /verif worktree remove --force "$W/verif" >/dev/null 2>&1; rm -rf "$W"' EXIT
export CARGO_NET_OFFLINE=true
git -C /verif worktree add --detach "$W/verif" "$COMMIT" >/dev/null 2>&1 || { echo "BEFORE $NAME worktree failed"; exit 2; }
mkdir -p "$W/mut" "$W/vd"
git -C /repo archive HEAD | tar -x -C "$W/mut"
(cd "$W/mut" && git init -q . && git apply --whitespace=nowarn "$D/patch.diff") || { echo "BEFORE $NAME apply=FAILED"; exit 2; }
sed -i "s#path = \"/repo\"#path = \"$W/mut\"#" "$W/verif/harness/Cargo.toml"
cp "$W/verif/KNOWN_FINDINGS.txt" "$W/vd/"; cp -r "$W/verif/regress" "$W/vd/" 2>/dev/null
cp -r /verif/harness/target "$W/ht" 2>/dev/null
if ! (cd "$W/verif/harness" && CARGO_TARGET_DIR="$W/ht" cargo build --release --quiet >"$W/build.log" 2>&1); then echo "BEFORE $NAME build=FAILED"; exit 2; fi
out=$(VERIF_DIR="$W/vd" timeout 1500 "$W/ht/release/ppp-verif" "$ID" --tier quick --no-evidence 2>/dev/null); rc=$?
if [ "$ID" = C03 ] && [ $rc = 0 ]; then
  (cd "$W/verif/harness" && CARGO_TARGET_DIR="$W/ht" cargo build --profile checked --quiet >>"$W/build.log" 2>&1) && { out=$(VERIF_DIR="$W/vd" timeout 1500 "$W/ht/checked/ppp-verif" "$ID" --tier quick --no-evidence 2>/dev/null); rc=$?; }
fi
case "$ID" in C07|C09|C10|C13|C20)
  if [ $rc = 0 ] && grep -q "checked" "$W/verif/check" 2>/dev/null && grep -q "C07|C09|C10|C13|C20" "$W/verif/check" 2>/dev/null; then
    (cd "$W/verif/harness" && CARGO_TARGET_DIR="$W/ht" cargo build --profile checked --quiet >>"$W/build.log" 2>&1) && { out=$(VERIF_SCALE=0.25 VERIF_DIR="$W/vd" timeout 1500 "$W/ht/checked/ppp-verif" "$ID" --tier quick --no-evidence 2>/dev/null); rc=$?; }
  fi ;;
esac
case $rc in 0) v=missed ;; 1) v=CAUGHT ;; *) v="inconclusive(rc=$rc)" ;; esac
echo "BEFORE $NAME own=$ID harness=$COMMIT verdict=$v $(echo "$out" | grep -m1 'sig=' | sed 's/^ *//')"
