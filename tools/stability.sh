#!/bin/sh
# tools/stability.sh [seeds...] : every quick check on the unchanged tree with several seeds, fresh processes.
# Any VIOLATION or non-zero exit here is a broken check (or a new genuine defect) and must be investigated.
cd "$(dirname "$0")/.." || exit 2
SEEDS="${*:-1 2 3 7 11 1234567 4294967295}"
bad=0
for s in $SEEDS; do
  for i in 01 02 03 04 05 06 07 08 09 10 11 12 13 14 15 16 17 18 19 20; do
    out=$(VERIF_SEED=$s ./check C$i --tier quick 2>/dev/null); rc=$?
    if [ $rc != 0 ]; then bad=1; echo "seed=$s C$i rc=$rc"; echo "$out" | head -8; fi
  done
  echo "seed $s done"
done
[ $bad = 0 ] && echo "STABLE: all checks silent on the unchanged tree for seeds: $SEEDS"
exit $bad
