//! Generators. All randomness comes from the proptest-drawn tape (engine::Tape); a zero tape
//! yields the simplest case of each generator. Generators construct, they do not filter.
//! Renderers here are the harness's own (never `Display` of the code under test).

use crate::engine::{fill, gen_seed, Tape};
use crate::oracle::v2::{NEED, SIG};

// ------------------------------------------------------------------------------------------
// addresses and ports

pub fn gen_port(t: &mut Tape) -> u16 {
    match t.weighted(&[3, 2, 5]) {
        0 => *t.pick(&[80u16, 443, 8080, 1, 12345]),
        1 => *t.pick(&[0u16, 1, 9, 10, 99, 100, 999, 1000, 9999, 10000, 65534, 65535, 256, 255, 0x5000, 0xbb01, 0x901f, 0xfb20, 0x0150, 0x1600, 0x3500, 22, 53, 1023, 1024, 336, 20480]),
        _ => t.u16(),
    }
}

pub fn gen_v4(t: &mut Tape) -> [u8; 4] {
    match t.weighted(&[4, 4, 12, 3]) {
        3 => {
            // inside one of the IANA special-purpose blocks (this network, shared address space, loopback, link-local, DS-Lite
            // 192.0.0.0/29, the TEST-NETs, 6to4 relay, benchmarking, multicast, reserved, broadcast), random host part
            let (base, bits): ([u8; 4], u32) = *t.pick(&[
                ([0, 0, 0, 0], 8),
                ([10, 0, 0, 0], 8),
                ([100, 64, 0, 0], 10),
                ([127, 0, 0, 0], 8),
                ([169, 254, 0, 0], 16),
                ([172, 16, 0, 0], 12),
                ([192, 0, 0, 0], 29),
                ([192, 0, 0, 0], 24),
                ([192, 0, 2, 0], 24),
                ([192, 88, 99, 0], 24),
                ([192, 168, 0, 0], 16),
                ([198, 18, 0, 0], 15),
                ([198, 51, 100, 0], 24),
                ([203, 0, 113, 0], 24),
                ([224, 0, 0, 0], 4),
                ([240, 0, 0, 0], 4),
            ]);
            let host = if bits >= 32 { 0 } else { t.u32() >> bits };
            (u32::from_be_bytes(base) | host).to_be_bytes()
        }
        0 => *t.pick(&[[127, 0, 0, 1], [192, 168, 1, 101], [10, 0, 0, 1], [1, 2, 3, 4]]),
        1 => *t.pick(&[[0, 0, 0, 0], [255, 255, 255, 255], [0, 0, 0, 1], [1, 0, 0, 0], [255, 0, 255, 0], [100, 10, 9, 199]]),
        _ => t.u32().to_be_bytes(),
    }
}

pub fn gen_v6(t: &mut Tape) -> [u16; 8] {
    let mut g = [0u16; 8];
    match t.weighted(&[1, 2, 2, 5, 4, 2]) {
        5 => {
            // a well-known prefix (NAT64 and its local-use /48, 6to4, Teredo, documentation, link-local, multicast,
            // discard-only, IPv4-mapped) followed by random groups, some of them zero
            let prefix: &[u16] = *t.pick(&[&[0x64, 0xff9b][..], &[0x64, 0xff9b, 1], &[0x2002], &[0x2001, 0], &[0x2001, 0xdb8], &[0xfe80], &[0xff02], &[0x100], &[0, 0, 0, 0, 0, 0xffff], &[0x64, 0xff9b, 0, 0, 0, 0], &[0x2001, 2, 0], &[0x2001, 0x10], &[0x2001, 0x20], &[0, 0, 0, 0, 0xffff, 0], &[0, 0, 0, 0, 0xffff, 0], &[0, 0, 0, 0, 0, 0], &[0xfc00], &[0xfd00], &[0xfec0], &[0x2002, 0x0a00, 1], &[0x2002, 0xc0a8, 0x0101], &[0x2001, 0x0db8, 0, 0], &[0x3fff], &[0x5f00]]);
            for i in 0..8 {
                g[i] = if i < prefix.len() { prefix[i] } else if t.chance(1, 3) { 0 } else { t.u16() };
            }
        }
        0 => {
            g[7] = 1;
        }
        1 => {
            g = *t.pick(&[
                [0; 8],
                [0xffff; 8],
                [0, 0, 0, 0, 0, 0xffff, 0xc0a8, 0x0101],
                [0, 0, 0, 0, 0, 0, 0x0102, 0x0304],
                [0x2001, 0xdb8, 0, 0, 0, 0, 0, 1],
                [0xfe80, 0, 0, 0, 0x1234, 0x5678, 0x9abc, 0xdef0],
                [1, 0, 0, 0, 0, 0, 0, 0],
                [0, 0, 0, 0, 0, 0, 0, 0xffff],
            ]);
        }
        2 => {
            // IPv4-mapped / compatible with random tail
            if t.coin() {
                g[5] = 0xffff;
            }
            g[6] = t.u16();
            g[7] = t.u16();
        }
        3 => {
            // every zero-run shape: bit i of the mask set => group i is zero
            let mask = t.byte();
            for i in 0..8 {
                if mask & (1 << i) == 0 {
                    let v = t.u16();
                    g[i] = if v == 0 { 1 } else { v };
                    if t.chance(1, 4) {
                        g[i] &= *t.pick(&[0x000f, 0x00ff, 0x0fff]);
                        if g[i] == 0 {
                            g[i] = 1;
                        }
                    }
                }
            }
        }
        _ => {
            for i in 0..8 {
                g[i] = t.u16();
            }
        }
    }
    g
}

/// Source and destination of one connection. Mostly two independent draws; one time in five the two are RELATED the way
/// real endpoints are: the same address, a shared prefix of 1..=7 groups, or both inside one scoped range (link-local
/// fe80::/10, site-local, multicast ff0x) with the same KAME-style embedded zone index in the second group.
pub fn gen_v6_pair(t: &mut Tape) -> ([u16; 8], [u16; 8]) {
    let a = gen_v6(t);
    if !t.chance(1, 5) {
        return (a, gen_v6(t));
    }
    match t.below(5) {
        0 => (a, a),
        4 => {
            // interface identifiers with a structure of their own on one link (shared /64) or on two: ISATAP (0000:5efe or
            // 0200:5efe followed by an IPv4 address), modified EUI-64 (..ff:fe..), all-zero / ::1 / ::2 hosts
            let mut x = a;
            let mut y = if t.chance(3, 4) { a } else { gen_v6(t) };
            for (i, v) in [&mut x, &mut y].into_iter().enumerate() {
                match t.weighted(&[5, 2, 1]) {
                    0 => {
                        v[4] = if t.coin() { 0 } else { 0x0200 };
                        v[5] = 0x5efe;
                        let q = gen_v4(t);
                        v[6] = u16::from_be_bytes([q[0], q[1]]);
                        v[7] = u16::from_be_bytes([q[2], q[3]]);
                    }
                    1 => {
                        v[5] = (v[5] & 0xff00) | 0x00ff;
                        v[6] = 0xfe00 | (v[6] & 0x00ff);
                    }
                    _ => {
                        v[4] = 0;
                        v[5] = 0;
                        v[6] = 0;
                        v[7] = 1 + i as u16;
                    }
                }
            }
            (x, y)
        }
        1 => {
            let k = 1 + t.below(7) as usize;
            let mut b = a;
            for g in b.iter_mut().skip(k) {
                *g = if t.chance(1, 3) { 0 } else { t.u16() };
            }
            (a, b)
        }
        _ => {
            let top = *t.pick(&[0xfe80u16, 0xfe80, 0xfe80, 0xfe81, 0xfebf, 0xfec0, 0xff02, 0xff01, 0xff12]);
            let zone = match t.below(4) {
                0 => 0,
                1 => 1 + t.below(9) as u16,
                _ => t.u16(),
            };
            let mut x = [top, zone, 0, 0, 0, 0, 0, 0];
            let mut y = x;
            if t.chance(1, 6) {
                y[1] = t.u16();
            }
            for i in 4..8 {
                x[i] = if t.chance(1, 4) { 0 } else { t.u16() };
                y[i] = if t.chance(1, 4) { 0 } else { t.u16() };
            }
            if t.coin() {
                x[7] = 1;
                y[7] = 2;
                for i in 4..7 {
                    x[i] = 0;
                    y[i] = 0;
                }
            }
            (x, y)
        }
    }
}

/// IPv4 counterpart: independent, equal, same /24 or /16, or both in one special range (link-local 169.254/16, loopback,
/// multicast, "this network", broadcast).
pub fn gen_v4_pair(t: &mut Tape) -> ([u8; 4], [u8; 4]) {
    let a = gen_v4(t);
    if !t.chance(1, 5) {
        return (a, gen_v4(t));
    }
    match t.below(4) {
        0 => (a, a),
        1 => {
            let mut b = a;
            b[3] = t.byte();
            if t.coin() {
                b[2] = t.byte();
            }
            (a, b)
        }
        _ => {
            let top: [u8; 2] = *t.pick(&[[169, 254], [127, 0], [224, 0], [0, 0], [255, 255], [10, 0], [192, 168], [100, 64], [198, 18]]);
            ([top[0], top[1], t.byte(), t.byte()], [top[0], top[1], t.byte(), t.byte()])
        }
    }
}

pub fn spell_v4(a: [u8; 4]) -> String {
    format!("{}.{}.{}.{}", a[0], a[1], a[2], a[3])
}

fn hexgroup(v: u16, style: u32) -> String {
    match style {
        0 => format!("{:x}", v),
        1 => format!("{:X}", v),
        2 => format!("{:04x}", v),
        3 => format!("{:04X}", v),
        4 => format!("{:02x}", v),
        _ => format!("{:03x}", v),
    }
}

/// RFC 5952-like canonical text (longest run of >= 2 zero groups compressed, lower case).
pub fn spell_v6_canonical(g: [u16; 8]) -> String {
    let (mut best, mut best_len) = (0usize, 0usize);
    let mut i = 0;
    while i < 8 {
        if g[i] == 0 {
            let mut j = i;
            while j < 8 && g[j] == 0 {
                j += 1;
            }
            if j - i > best_len {
                best = i;
                best_len = j - i;
            }
            i = j;
        } else {
            i += 1;
        }
    }
    if best_len >= 2 {
        render_v6(g, Some((best, best + best_len)), false, &mut |v| hexgroup(v, 0))
    } else {
        render_v6(g, None, false, &mut |v| hexgroup(v, 0))
    }
}

/// Render with an optional compressed range [i, j) (all zero) and optional dotted-quad tail.
fn render_v6(g: [u16; 8], compress: Option<(usize, usize)>, quad: bool, grp: &mut dyn FnMut(u16) -> String) -> String {
    let last_hex = if quad { 6 } else { 8 };
    let mut render_range = |from: usize, to: usize| -> String {
        let mut parts: Vec<String> = Vec::new();
        for k in from..to.min(last_hex) {
            parts.push(grp(g[k]));
        }
        if quad && to == 8 {
            parts.push(format!("{}.{}.{}.{}", g[6] >> 8, g[6] & 0xff, g[7] >> 8, g[7] & 0xff));
        }
        parts.join(":")
    };
    match compress {
        None => render_range(0, 8),
        Some((i, j)) => {
            let head = render_range(0, i);
            let tail = if j < 8 { render_range(j, 8) } else { String::new() };
            format!("{}::{}", head, tail)
        }
    }
}

/// The longest legal spelling: six four-digit groups and a dotted quad (up to 45 bytes).
pub fn spell_v6_long_quad(g: [u16; 8], upper: bool) -> String {
    render_v6(g, None, true, &mut |v| hexgroup(v, if upper { 3 } else { 2 }))
}

/// A corruption DERIVED from a valid address text by one small edit that can never yield a valid address
/// (a letter that is no hex digit, an octet above 255, a fifth digit in a group, a foreign character at the end).
/// `where_` biases the edit position: 0 anywhere, 1 within the last six bytes, 2 within the first six bytes.
pub fn corrupt_addr_text(t: &mut Tape, valid: &str) -> Vec<u8> {
    let mut s = valid.as_bytes().to_vec();
    let n = s.len();
    let pos = |t: &mut Tape, n: usize| -> usize {
        match t.weighted(&[2, 2, 1]) {
            0 => t.below(n as u32) as usize,
            1 => n - 1 - t.below(n.min(6) as u32) as usize,
            _ => t.below(n.min(6) as u32) as usize,
        }
    };
    match t.weighted(&[4, 3, 3, 2, 2, 2, 1]) {
        6 => {
            // every dotted-decimal octet written with three digits (the fixed-width form of appliances: 010.000.000.001)
            if let Some(start) = s.iter().rposition(|&b| b == b':').map(|p| p + 1).or(Some(0)).filter(|_| s.contains(&b'.')) {
                let quad = String::from_utf8_lossy(&s[start..]).to_string();
                let padded: Vec<String> = quad.split('.').map(|o| format!("{:0>3}", o)).collect();
                let joined = padded.join(".");
                if joined != quad {
                    s.truncate(start);
                    s.extend_from_slice(joined.as_bytes());
                } else {
                    s[n - 1] = b'g';
                }
            } else {
                s[n - 1] = b'g';
            }
        }
        5 => {
            // two edits that cancel in length: one numeral gains a leading zero or a digit (a five-digit group, a four-digit
            // octet) while another numeral loses a digit - the text is as long as a valid one and made of the same characters
            let is_sep = |b: u8| b == b':' || b == b'.';
            let mut runs: Vec<(usize, usize)> = Vec::new();
            let mut i = 0;
            while i < n {
                if is_sep(s[i]) {
                    i += 1;
                    continue;
                }
                let st = i;
                while i < n && !is_sep(s[i]) {
                    i += 1;
                }
                runs.push((st, i));
            }
            let long: Vec<usize> = (0..runs.len()).filter(|&r| runs[r].1 - runs[r].0 >= 2).collect();
            if runs.len() >= 2 && !long.is_empty() {
                let shrink = long[t.below(long.len() as u32) as usize];
                // grow the longest other run (a 4-digit group becomes 5 digits, a 3-digit octet 4)
                let grow = (0..runs.len()).filter(|&r| r != shrink).max_by_key(|&r| runs[r].1 - runs[r].0).unwrap();
                let (hi, lo) = if runs[grow].0 > runs[shrink].0 { (grow, shrink) } else { (shrink, grow) };
                for r in [hi, lo] {
                    if r == shrink {
                        s.remove(runs[r].1 - 1);
                    } else {
                        s.insert(runs[r].0, if t.coin() { b'0' } else { b'1' });
                    }
                }
            } else {
                s[n - 1] = b'g';
            }
        }
        0 => {
            let k = pos(t, n);
            s[k] = *t.pick(&[b'g', b'x', b'-', b'_', b'G', b'z']);
        }
        1 => {
            let k = pos(t, n);
            s.insert(k, *t.pick(&[b'g', b'x', b'-', b'z']));
        }
        2 => {
            // an octet above 255 (texts with a dotted part), else a letter in place of the last byte
            if let Some(dot) = s.iter().rposition(|&b| b == b'.') {
                let which = t.below(2);
                if which == 0 {
                    s.truncate(dot + 1);
                    s.extend_from_slice(t.pick(&["256", "299", "999", "1000", "300"]).as_bytes());
                } else {
                    // the octet before the last dot
                    let start = s[..dot].iter().rposition(|&b| b == b'.' || b == b':').map(|p| p + 1).unwrap_or(0);
                    let tail = s.split_off(dot);
                    s.truncate(start);
                    s.extend_from_slice(t.pick(&["256", "299", "999", "260"]).as_bytes());
                    s.extend(tail);
                }
            } else {
                s[n - 1] = b'g';
            }
        }
        3 => {
            s.extend_from_slice(t.pick(&["g", "%", "/", "x", "%1", "/64", "]"]).as_bytes());
        }
        _ => {
            // a fifth digit in a four-digit hex group, else a letter inserted at the front
            let mut done = false;
            let mut run = 0;
            for k in 0..=n {
                let hex = k < n && s[k].is_ascii_hexdigit();
                if hex {
                    run += 1;
                } else {
                    if run == 4 && (k == n || s[k] == b':') && !(k < n && s[k] == b'.') {
                        s.insert(k, b'f');
                        done = true;
                        break;
                    }
                    run = 0;
                }
            }
            if !done {
                s.insert(0, b'g');
            }
        }
    }
    s
}

/// A keyword (`PROXY`, `TCP4`, `TCP6`, `UNKNOWN`) after one small edit - a character inserted, replaced, dropped, doubled or
/// changed in case - that is never one of the valid keywords again.
pub fn corrupt_word(t: &mut Tape, word: &str) -> Vec<u8> {
    for _ in 0..8 {
        let mut s = word.as_bytes().to_vec();
        let n = s.len();
        let extra = *t.pick(&[b'0', b'+', b'-', b'4', b'6', b'x', b'.', b'_', b'1', b'P', b'T', b'N']);
        match t.below(6) {
            5 => {
                // the same number of BYTES, fewer characters: k consecutive ASCII characters give way to one k-byte character
                // (2, 3 or 4 bytes), anywhere in the word - also across the byte offset a parser may split the word at
                let k = 2 + t.below(3) as usize;
                if n >= k {
                    let at = t.below((n - k + 1) as u32) as usize;
                    let c = match k {
                        2 => *t.pick(&['\u{e9}', '\u{b5}', '\u{7ff}']),
                        3 => *t.pick(&['\u{20ac}', '\u{800}', '\u{ffff}']),
                        _ => *t.pick(&['\u{1f600}', '\u{10000}']),
                    };
                    let mut buf = [0u8; 4];
                    let enc = c.encode_utf8(&mut buf).as_bytes().to_vec();
                    s.splice(at..at + k, enc);
                } else {
                    s.push(b'x');
                }
            }
            0 => s.insert(t.below(n as u32 + 1) as usize, extra),
            1 => s[t.below(n as u32) as usize] = extra,
            2 => {
                s.remove(t.below(n as u32) as usize);
            }
            3 => {
                let k = t.below(n as u32) as usize;
                s.insert(k, s[k]);
            }
            _ => {
                let k = t.below(n as u32) as usize;
                s[k] = if s[k].is_ascii_uppercase() { s[k].to_ascii_lowercase() } else { s[k].to_ascii_uppercase() };
            }
        }
        if !matches!(&s[..], b"PROXY" | b"TCP4" | b"TCP6" | b"UNKNOWN") && !s.is_empty() {
            return s;
        }
    }
    let mut s = word.as_bytes().to_vec();
    s.push(b'x');
    s
}

/// A corruption derived from a valid port text: a non-digit in it, or more digits than 65535 allows.
pub fn corrupt_port_text(t: &mut Tape, valid: &str) -> Vec<u8> {
    let mut s = valid.as_bytes().to_vec();
    let n = s.len();
    match t.weighted(&[3, 2, 3, 2, 2]) {
        4 => {
            // the valid value plus a power of two: it comes out right again in arithmetic that wraps at 16, 32, 64 or 128 bits
            let v: u128 = valid.parse::<u128>().unwrap_or(443);
            s = match t.below(6) {
                0 => format!("{}", v + (1u128 << 16)),
                1 => format!("{}", v + (1u128 << 32)),
                2 | 3 => format!("{}", v + (1u128 << 64)),
                4 => format!("{}", v + (1u128 << 64) * (2 + t.below(5) as u128)),
                // 2^128 + v, written out: 340282366920938463463374607431768211456 + v
                _ => {
                    let base = "340282366920938463463374607431768211456";
                    let mut d: Vec<u8> = base.bytes().map(|b| b - b'0').collect();
                    let mut carry = v;
                    for x in d.iter_mut().rev() {
                        let sum = *x as u128 + carry % 10;
                        *x = (sum % 10) as u8;
                        carry = carry / 10 + sum / 10;
                    }
                    d.iter().map(|x| (b'0' + x) as char).collect()
                }
            }
            .into_bytes();
        }
        0 => {
            let k = t.below(n as u32) as usize;
            s[k] = *t.pick(&[b'x', b'o', b'-', b'.', b'a', b'+', b'_', b':', b';', b'<', b'=', b'>', b'?', b'/', b'@', b'`', 0x10, 0x19, b'p', b'y', b'P', b'Y']);
        }
        1 => {
            let k = t.below(n as u32 + 1) as usize;
            s.insert(k, *t.pick(&[b'x', b'.', b'-', b'_', b',', b'\t', 0x0b, 0x0c, b'\n', 0]));
        }
        2 => {
            // too many digits: 6 .. 24 of them, no leading zero
            if s[0] == b'0' {
                s[0] = b'1' + t.below(9) as u8;
            }
            let want = t.usize_in(6, 24);
            while s.len() < want {
                s.push(b'0' + t.below(10) as u8);
            }
        }
        _ => {
            // five digits just above 65535
            s = format!("{}", 65536 + t.below(34464)).into_bytes();
        }
    }
    s
}

/// One of the legal RFC 4291 spellings of `g`, chosen from the tape.
pub fn spell_v6(g: [u16; 8], t: &mut Tape) -> String {
    let style = t.weighted(&[4, 2, 2, 2, 4, 3, 2]);
    match style {
        0 => spell_v6_canonical(g),
        1 => render_v6(g, None, false, &mut |v| hexgroup(v, 0)),
        2 => render_v6(g, None, false, &mut |v| hexgroup(v, 2)),
        3 => spell_v6_canonical(g).to_uppercase(),
        4 | 5 | _ => {
            // "::" over any sub-run of a zero run (possibly a single group), optional quad tail,
            // per-group digit style from the tape
            let quad = style == 5 || (style == 6 && t.coin());
            let limit = if quad { 6 } else { 8 };
            let mut runs: Vec<(usize, usize)> = Vec::new();
            for i in 0..limit {
                for j in i + 1..=limit {
                    if g[i..j].iter().all(|&v| v == 0) {
                        runs.push((i, j));
                    }
                }
            }
            let compress = if runs.is_empty() || t.chance(1, 5) { None } else { Some(runs[t.below(runs.len() as u32) as usize]) };
            let mixed = style == 6;
            let mut styles = [0u32; 8];
            for s in styles.iter_mut() {
                *s = if mixed { t.below(6) } else { 0 };
            }
            let mut k = 0;
            render_v6(g, compress, quad, &mut |v| {
                let s = hexgroup(v, styles[k % 8]);
                k += 1;
                s
            })
        }
    }
}

// ------------------------------------------------------------------------------------------
// v1 lines

#[derive(Clone, Debug)]
pub struct V1Parts {
    pub keyword: Vec<u8>,
    pub proto: Vec<u8>,
    /// TCP: four fields. UNKNOWN: `tail` is used instead.
    pub fields: Vec<Vec<u8>>,
    /// UNKNOWN text including its leading space, or empty
    pub tail: Vec<u8>,
    pub ending: Vec<u8>,
}

impl V1Parts {
    pub fn render(&self) -> Vec<u8> {
        let mut out = self.keyword.clone();
        out.push(b' ');
        out.extend_from_slice(&self.proto);
        for f in &self.fields {
            out.push(b' ');
            out.extend_from_slice(f);
        }
        out.extend_from_slice(&self.tail);
        out.extend_from_slice(&self.ending);
        out
    }
}

fn text_char(t: &mut Tape, ascii_only: bool) -> Vec<u8> {
    let k = if ascii_only { t.weighted(&[10, 3, 1, 0]) } else { t.weighted(&[10, 3, 1, 4]) };
    match k {
        0 => vec![t.range(0x21, 0x7e) as u8],
        1 => vec![b' '],
        // control characters, with the neighbours of CR, LF and SP (0x0C/0x0E, 0x0B/0x09, 0x1F/0x21) that word-at-a-time
        // byte searches tend to confuse with them
        2 => vec![*t.pick(&[b'\t', b'\n', 0u8, 0x7f, 0x0b, 0x0c, 0x0c, 0x0e, 0x1f, 0x21, 0x01, 0x1b])],
        _ => {
            let c = *t.pick(&['\u{e9}', '\u{df}', '\u{20ac}', '\u{4e2d}', '\u{1f600}', '\u{10348}', '\u{7ff}', '\u{800}', '\u{ffff}', '\u{10d}', '\u{10a}', '\u{120}', '\u{200d}', '\u{2020}', '\u{ff0d}', '\u{3000}', '\u{100}', '\u{a0d}', '\u{200b}', '\u{feff}', '\u{202e}', '\u{2066}', '\u{2069}', '\u{ad}', '\u{200e}', '\u{2060}', '\u{a0}', '\u{2003}', '\u{3000}', '\u{85}', '\u{2028}']);
            c.to_string().into_bytes()
        }
    }
}

/// UNKNOWN tail text (without the leading space), never containing CR, valid UTF-8.
pub fn gen_unknown_text(t: &mut Tape, ascii_only: bool, max: usize) -> Vec<u8> {
    let mut out = Vec::new();
    match t.weighted(&[2, 3, 3, 2, 3]) {
        4 => {
            // words of the protocol itself (the keywords again, addresses, ports), single or double spaced
            let n = t.usize_in(1, 8);
            for i in 0..n {
                if i > 0 {
                    out.push(b' ');
                    if t.chance(1, 5) {
                        out.push(b' ');
                    }
                }
                out.extend_from_slice(t.pick(&["UNKNOWN", "PROXY", "TCP4", "TCP6", "UNKNOWN,", "1.2.3.4", "::1", "80", "0", "", "\n", "PROXY UNKNOWN", "unknown", "UNKNOWNS"]).as_bytes());
            }
        }
        0 => {}
        1 => {
            // looks like address fields
            let a = spell_v6(gen_v6(t), t);
            let b = spell_v6(gen_v6(t), t);
            out = format!("{} {} {} {}", a, b, gen_port(t), gen_port(t)).into_bytes();
            if t.chance(1, 3) {
                out.extend_from_slice(b" extra fields here");
            }
        }
        2 => {
            let n = t.usize_in(0, 24);
            for _ in 0..n {
                out.extend(text_char(t, ascii_only));
            }
        }
        _ => {
            let n = t.usize_in(0, max);
            for _ in 0..n {
                out.extend(text_char(t, ascii_only));
            }
        }
    }
    // one text in eight ends (right before the CR) in one to three control bytes next to CR / LF / SP in value
    if t.chance(1, 8) {
        for _ in 0..t.usize_in(1, 3) {
            out.push(*t.pick(&[0x0cu8, 0x0c, 0x0e, 0x0b, 0x09, 0x1f, 0x21, 0x0a]));
        }
    }
    while out.len() > max {
        out.pop();
    }
    // never end inside a multi-byte character
    while std::str::from_utf8(&out).is_err() {
        out.pop();
    }
    out
}


/// A TCP6 line, every field well-formed, whose total length including CRLF is exactly `target` (clamped to what
/// the grammar can reach: 48..=116). Built by construction: every hex group, dotted-quad octet and port gets a
/// width, widths are nudged until the total matches, then values of exactly those widths are drawn. Lines of
/// 105..=107 bytes (only reachable with a dotted-quad tail) and of 108 bytes exactly come from here.
pub fn gen_tcp6_line_of_len(t: &mut Tape, target: usize) -> Vec<u8> {
    // slots: (min width, max width, current)
    #[derive(Clone, Copy)]
    struct Slot {
        lo: usize,
        hi: usize,
        w: usize,
    }
    let quads = match t.below(4) {
        0 => [false, false],
        1 => [true, false],
        2 => [false, true],
        _ => [true, true],
    };
    // reachable range for this quad configuration
    let mut slots: Vec<Slot> = Vec::new();
    let mut fixed = 11 + 3 + 2; // "PROXY TCP6 " + three spaces + CRLF
    for q in quads {
        if q {
            fixed += 6 + 3; // six colons, three dots
            for _ in 0..6 {
                slots.push(Slot { lo: 1, hi: 4, w: 1 });
            }
            for _ in 0..4 {
                slots.push(Slot { lo: 1, hi: 3, w: 1 });
            }
        } else {
            fixed += 7;
            for _ in 0..8 {
                slots.push(Slot { lo: 1, hi: 4, w: 1 });
            }
        }
    }
    slots.push(Slot { lo: 1, hi: 5, w: 1 });
    slots.push(Slot { lo: 1, hi: 5, w: 1 });
    let lo: usize = fixed + slots.iter().map(|s| s.lo).sum::<usize>();
    let hi: usize = fixed + slots.iter().map(|s| s.hi).sum::<usize>();
    let target = target.clamp(lo, hi);
    // start from random widths, then nudge
    for s in slots.iter_mut() {
        s.w = t.usize_in(s.lo, s.hi);
    }
    let mut total: usize = fixed + slots.iter().map(|s| s.w).sum::<usize>();
    let mut guard = 0;
    while total != target && guard < 10_000 {
        guard += 1;
        let i = t.below(slots.len() as u32) as usize;
        if total < target && slots[i].w < slots[i].hi {
            slots[i].w += 1;
            total += 1;
        } else if total > target && slots[i].w > slots[i].lo {
            slots[i].w -= 1;
            total -= 1;
        }
    }
    // deterministic completion if the tape ran dry (zeros always pick slot 0)
    let mut i = 0;
    while total != target {
        let k = i % slots.len();
        if total < target && slots[k].w < slots[k].hi {
            slots[k].w += 1;
            total += 1;
        } else if total > target && slots[k].w > slots[k].lo {
            slots[k].w -= 1;
            total -= 1;
        }
        i += 1;
    }
    let mut k = 0;
    let mut hexgrp = |t: &mut Tape, w: usize| -> String {
        // value with s significant digits, zero-padded to w; upper or lower case
        let s = t.usize_in(1, w);
        let lo = if s == 1 { 0u32 } else { 1u32 << (4 * (s - 1)) };
        let hi = (1u32 << (4 * s)) - 1;
        let v = t.range(lo, hi);
        if t.chance(1, 4) {
            format!("{:0w$X}", v, w = w)
        } else {
            format!("{:0w$x}", v, w = w)
        }
    };
    let octet = |t: &mut Tape, w: usize| -> String {
        match w {
            1 => t.range(0, 9).to_string(),
            2 => t.range(10, 99).to_string(),
            _ => t.range(100, 255).to_string(),
        }
    };
    let port = |t: &mut Tape, w: usize| -> String {
        match w {
            1 => t.range(0, 9).to_string(),
            2 => t.range(10, 99).to_string(),
            3 => t.range(100, 999).to_string(),
            4 => t.range(1000, 9999).to_string(),
            _ => t.range(10000, 65535).to_string(),
        }
    };
    let mut line = String::from("PROXY TCP6 ");
    for q in quads {
        let nhex = if q { 6 } else { 8 };
        let mut parts: Vec<String> = Vec::new();
        for _ in 0..nhex {
            parts.push(hexgrp(t, slots[k].w));
            k += 1;
        }
        let mut a = parts.join(":");
        if q {
            let mut o: Vec<String> = Vec::new();
            for _ in 0..4 {
                o.push(octet(t, slots[k].w));
                k += 1;
            }
            a.push(':');
            a.push_str(&o.join("."));
        }
        line.push_str(&a);
        line.push(' ');
    }
    line.push_str(&port(t, slots[k].w));
    line.push(' ');
    line.push_str(&port(t, slots[k + 1].w));
    line.push_str("\r\n");
    line.into_bytes()
}

/// A line that R-V1 accepts (by construction; callers still ask the oracle).
pub fn gen_valid_parts(t: &mut Tape, ascii_only: bool) -> V1Parts {
    let mut p = V1Parts { keyword: b"PROXY".to_vec(), proto: vec![], fields: vec![], tail: vec![], ending: b"\r\n".to_vec() };
    match t.weighted(&[3, 4, 3]) {
        0 => {
            p.proto = b"TCP4".to_vec();
            let (a4, b4) = gen_v4_pair(t);
            p.fields = vec![
                spell_v4(a4).into_bytes(),
                spell_v4(b4).into_bytes(),
                gen_port(t).to_string().into_bytes(),
                gen_port(t).to_string().into_bytes(),
            ];
            // all four fields from one special class at once (wildcard endpoints of a health check; everything at its maximum)
            if t.chance(1, 24) {
                let (a, q) = if t.chance(2, 3) { ("0.0.0.0", "0") } else { ("255.255.255.255", "65535") };
                p.fields = vec![a.into(), a.into(), q.into(), q.into()];
            }
        }
        1 => {
            p.proto = b"TCP6".to_vec();
            let (a, b) = gen_v6_pair(t);
            let (pa, pb) = (gen_port(t), gen_port(t));
            let mut sa = spell_v6(a, t);
            let mut sb = spell_v6(b, t);
            // 11 + a + 1 + b + 1 + p + 1 + q + 2 <= 107
            let total = |sa: &str, sb: &str| 11 + sa.len() + 1 + sb.len() + 1 + pa.to_string().len() + 1 + pb.to_string().len() + 2;
            if total(&sa, &sb) > 107 {
                sb = spell_v6_canonical(b);
            }
            if total(&sa, &sb) > 107 {
                sa = spell_v6_canonical(a);
            }
            p.fields = vec![sa.into_bytes(), sb.into_bytes(), pa.to_string().into_bytes(), pb.to_string().into_bytes()];
            if t.chance(1, 24) {
                let z = ["::", "0:0:0:0:0:0:0:0", "::0", "0::", "::0.0.0.0", "0000:0000:0000:0000:0000:0000:0000:0000"];
                let (a, b, q): (&str, &str, &str) = if t.chance(2, 3) { (*t.pick(&z), *t.pick(&z), "0") } else { ("ffff:ffff:ffff:ffff:ffff:ffff:ffff:ffff", "FFFF:FFFF:FFFF:FFFF:FFFF:FFFF:255.255.255.255", "65535") };
                p.fields = vec![a.into(), b.into(), q.into(), q.into()];
            }
        }
        _ => {
            p.proto = b"UNKNOWN".to_vec();
            // "PROXY UNKNOWN" = 13, CRLF = 2  => tail (with its space) <= 92
            match t.weighted(&[2, 4, 3]) {
                0 => {}
                1 => {
                    let txt = gen_unknown_text(t, ascii_only, 91);
                    p.tail = vec![b' '];
                    p.tail.extend(txt);
                }
                _ => {
                    // land the whole line on 105 / 106 / 107 bytes exactly
                    let total = *t.pick(&[107usize, 106, 105, 104]);
                    let want = total - 15 - 1;
                    let mut txt = gen_unknown_text(t, ascii_only, want);
                    while txt.len() < want {
                        txt.push(b'x');
                    }
                    p.tail = vec![b' '];
                    p.tail.extend(txt);
                }
            }
        }
    }
    p
}

pub fn gen_valid_line(t: &mut Tape, ascii_only: bool) -> Vec<u8> {
    // one valid line in eight is a TCP6 line built to land exactly on 100..=107 bytes (the longest legal lines)
    if t.chance(1, 8) {
        let target = *t.pick(&[107usize, 106, 105, 104, 103, 102, 101, 100]);
        return gen_tcp6_line_of_len(t, target);
    }
    gen_valid_parts(t, ascii_only).render()
}

pub const BAD_PORTS: &[&str] = &[
    "+1", "-1", "+0", "-0", "-00", "-000", "+65535", "0_0", "1_000", "0b1", "0o7", "४", "۴", "00", "01", "080", "0000", "65536", "99999", "100000", "655350", "", "x", "8o", "1x", "x1", "1.0",
    "0x50", "1e3", "123456789012345678901", "\u{0661}", "1\t", "\t1", "1\n", "\u{ff11}", "٣", "4294967297", "18446744073709551617",
    // the six characters right behind '9' (a nibble test takes them for digits), right in front of '0', other "numeric" characters
    "44:", "4:4", ":44", "8;", "1<2", "=1", "9>", "?0", "4/", "/4", "\u{663}4", "4\u{663}", "\u{b2}", "1\u{b2}", "\u{bd}", "\u{2460}", "\u{ff11}\u{ff12}", "\u{2074}43", "4\u{0967}", "\u{1d7d8}",
];
pub const BAD_V4: &[&str] = &[
    "256.1.1.1", "1.1.1.256", "01.1.1.1", "010.000.000.001", "127.000.000.001", "001.002.003.004", "192.168.001.001", "255.255.255.0255", "1.1.1.01", "1.1.1", "1.1.1.1.1", "1..1.1", ".1.1.1", "1.1.1.", "", "::1", "1.1.1.1a", "a.b.c.d",
    "1.1.1.-1", "+1.1.1.1", "0x7f.0.0.1", "127.1", "2130706433", "1.1.1.1/24", "1.1.1.999", "1.1.1.1:80", "１.1.1.1", "1.1.1.1\t", "[", "[1.1.1.1]", "1.1.1.1]", "'1.1.1.1'", "[\u{e9}",
];
pub const BAD_V6: &[&str] = &[
    "", "1.2.3.4", ":", ":::", "1::2::3", "1:2:3:4:5:6:7", "1:2:3:4:5:6:7:8:9", "12345::", "g::", "::g", "1:2:3:4:5:6:7:8::", "::1:2:3:4:5:6:7:8",
    "1:2:3:4::5:6:7:8", ":1:2:3:4:5:6:7", "1:2:3:4:5:6:7:", "::1.2.3", "::1.2.3.256", "::01.2.3.4", "1.2.3.4::", "::1.2.3.4:5", "[::1]", "::1%eth0",
    "fe80::1%1", "fe80::1%eth0", "fe80::1%25eth0", "[", "]", "[]", "[::1", "::1]", "(::1)", "\"::1\"", "<::1>", "[\u{e9}", "::1/128", "1:2:3:4:5:6:7:1.2.3.4", "::ffff:1.2.3.4.5", "0x1::", "-1::", "+1::", "::\t1", "1:2:3:4:5:6:1.2.3.4:7", "::00001",
];

/// One structural mutation of a valid line (G-V1MUT). Returns the bytes and a label.
pub fn gen_v1_mutant(t: &mut Tape) -> (Vec<u8>, &'static str) {
    let mut p = gen_valid_parts(t, false);
    let tcp = p.proto != b"UNKNOWN";
    let v6 = p.proto == b"TCP6";
    let kind = t.below(34);
    let label: &'static str;
    match kind {
        0 => {
            label = "ending";
            p.ending = match t.below(12) {
                0 => b"\r".to_vec(),
                1 => b"\n".to_vec(),
                2 => b" \n".to_vec(),
                3 => b"\n\r".to_vec(),
                4 => b"\r\r\n".to_vec(),
                5 => vec![],
                6 => b" \r\n".to_vec(),
                7 => b"\r \n".to_vec(),
                8 => b"\r\n\r\n".to_vec(),
                9 => b" ".to_vec(),
                10 => b"\r\0".to_vec(),
                _ => vec![b'\r', t.byte()],
            };
        }
        1 => {
            label = "spacing";
            let mut line = p.render();
            let spaces: Vec<usize> = line.iter().enumerate().filter(|(_, &b)| b == b' ').map(|(i, _)| i).collect();
            if spaces.is_empty() {
                line.insert(0, b' ');
            } else {
                let at = spaces[t.below(spaces.len() as u32) as usize];
                match t.below(4) {
                    0 => line.insert(at, b' '),
                    1 => {
                        line.remove(at);
                    }
                    2 => line[at] = b'\t',
                    _ => line.insert(0, b' '),
                }
            }
            return (line, label);
        }
        2 => {
            label = "keyword";
            p.keyword = if t.chance(1, 3) {
                corrupt_word(t, "PROXY")
            } else {
                t.pick(&["proxy", "Proxy", "PROX", "PROXYY", "", "PROXY\0", "XPROXY", "PROXI", "PR0XY", "PROXYPROXY", "\u{feff}PROXY", "\r\nPROXY", "\nPROXY", " PROXY", "\0PROXY", "\u{200b}PROXY"]).as_bytes().to_vec()
            };
        }
        3 => {
            label = "protocol";
            p.proto = if t.chance(1, 2) {
                let w = String::from_utf8(p.proto.clone()).unwrap_or_default();
                corrupt_word(t, &w)
            } else if t.chance(1, 3) {
                // another family's keyword, or a datagram one, in front of this line's fields
                t.pick(&["UDP4", "UDP6", "TCP4", "TCP6", "UNKNOWN", "SCTP4", "UNIX", "UNSPEC", "INET", "INET6", "STREAM", "DGRAM", "LOCAL", "PROXY", "AF_INET", "AF_UNSPEC", "UNIX4", "TCP46", "IPV4", "IPV6", "NONE", "UNSPECIFIED", "QUIC4", "QUIC6"]).as_bytes().to_vec()
            } else {
                t.pick(&["tcp4", "TCP", "TCP5", "TCP44", "TCP4x", "unknown", "UNKNOW", "UNKNOWNN", "", "TCP6\0", "UDP4", "TCP 4", "T", "U", "Tcp6"]).as_bytes().to_vec()
            };
        }
        4 | 5 if tcp => {
            label = "port";
            let i = 2 + (kind - 4) as usize;
            p.fields[i] = t.pick(BAD_PORTS).as_bytes().to_vec();
        }
        6 | 7 if tcp => {
            label = "address";
            let i = (kind - 6) as usize;
            p.fields[i] = if v6 { t.pick(BAD_V6).as_bytes().to_vec() } else { t.pick(BAD_V4).as_bytes().to_vec() };
        }
        8 if tcp => {
            label = "other-family";
            let i = t.below(2) as usize;
            p.fields[i] = if v6 { spell_v4(gen_v4(t)).into_bytes() } else { spell_v6(gen_v6(t), t).into_bytes() };
        }
        9 if tcp => {
            label = "drop-field";
            let i = t.below(4) as usize;
            p.fields.remove(i);
        }
        10 if tcp => {
            label = "extra-field";
            let i = t.below(5) as usize;
            let extra = t.pick(&["1", "x", "1.2.3.4", "::1", "\n", "0"]).as_bytes().to_vec();
            p.fields.insert(i, extra);
        }
        11 if tcp => {
            label = "embedded";
            let i = t.below(4) as usize;
            let at = t.below(p.fields[i].len() as u32 + 1) as usize;
            let ins: &[u8] = *t.pick(&[&b"\0"[..], b"\n", b"\xc3\xa9", b"\xff", b"\t", b"\xe2\x82\xac", b"\x80"]);
            let mut f = p.fields[i][..at].to_vec();
            f.extend_from_slice(ins);
            f.extend_from_slice(&p.fields[i][at..]);
            p.fields[i] = f;
        }
        12 => {
            label = "invalid-utf8";
            let mut line = p.render();
            let cr = line.iter().position(|&b| b == b'\r').unwrap_or(line.len());
            let at = t.below(cr as u32 + 1) as usize;
            let bad: &[u8] = *t.pick(&[&b"\xff"[..], b"\xc3", b"\xe2\x82", b"\xf0\x90\x80", b"\xc0\xaf", b"\xed\xa0\x80", b"\x80"]);
            let mut out = line[..at].to_vec();
            out.extend_from_slice(bad);
            out.extend_from_slice(&line[at..]);
            line = out;
            return (line, label);
        }
        13 => {
            label = "pad-length";
            // UNKNOWN line padded to 105..=111 bytes, or far beyond (200..=700, around multiples of 256 in particular:
            // quantities kept in a byte wrap there)
            let total = match t.below(4) {
                0 => *t.pick(&[256usize, 257, 258, 270, 300, 362, 363, 364, 512, 520, 600]),
                1 => t.usize_in(200, 700),
                _ => t.usize_in(105, 111),
            };
            let mut line = b"PROXY UNKNOWN ".to_vec();
            while line.len() < total - 2 {
                line.push(b'a' + (line.len() % 26) as u8);
            }
            line.extend_from_slice(b"\r\n");
            return (line, label);
        }
        14 => {
            label = "byte-flip";
            let mut line = p.render();
            let at = t.below(line.len() as u32) as usize;
            line[at] ^= 1 << t.below(8);
            return (line, label);
        }
        15 => {
            label = "truncate";
            let mut line = p.render();
            let at = t.below(line.len() as u32 + 1) as usize;
            line.truncate(at);
            return (line, label);
        }
        16 => {
            label = "splice";
            let a = p.render();
            let b = gen_valid_line(t, false);
            let i = t.below(a.len() as u32 + 1) as usize;
            let j = t.below(b.len() as u32 + 1) as usize;
            let mut line = a[..i].to_vec();
            line.extend_from_slice(&b[j..]);
            return (line, label);
        }
        17 => {
            label = "byte-replace";
            let mut line = p.render();
            let at = t.below(line.len() as u32) as usize;
            line[at] = *t.pick(&[b' ', b'\r', b'\n', 0, b'+', b'-', b'0', b':', b'.', 0xff, b'\t', 0x0c, 0x0e, 0x8d, 0x8a, 0xa0, 0x0b]);
            return (line, label);
        }
        18 => {
            label = "byte-insert";
            let mut line = p.render();
            let at = t.below(line.len() as u32 + 1) as usize;
            line.insert(at, *t.pick(&[b' ', b'\r', b'\n', 0, b'+', b'-', b'0', b':', b'.', 0xff, b'\t', b'1', 0x0c, 0x0e, 0x8d, 0x8a, 0xa0, 0x0b]));
            return (line, label);
        }
        19 => {
            label = "long-nocr";
            // CR-free input around the 107 limit
            let total = t.usize_in(100, 120);
            let mut line = if t.coin() { p.render() } else { b"PROXY UNKNOWN ".to_vec() };
            line.retain(|&b| b != b'\r' && b != b'\n');
            while line.len() < total {
                line.push(b'a' + (line.len() % 26) as u8);
            }
            line.truncate(total);
            return (line, label);
        }
        20 => {
            label = "unknown-many-fields";
            let n = t.usize_in(1, 12);
            let mut line = b"PROXY UNKNOWN".to_vec();
            for _ in 0..n {
                line.push(b' ');
                line.extend_from_slice(t.pick(&["a", "1.2.3.4", "::1", "80", "", "\n", "TCP4"]).as_bytes());
            }
            line.extend_from_slice(if t.chance(1, 4) { b" \n" } else { b"\r\n" });
            return (line, label);
        }
        21 => {
            label = "lowercase-all";
            let line = p.render().to_ascii_lowercase();
            return (line, label);
        }
        24 | 25 => {
            // every field well-formed, but the fully expanded spelling (dotted-quad tail, padded groups) takes the
            // line past 107 bytes: 108..116
            label = "tcp6-too-long";
            if kind == 25 {
                let target = *t.pick(&[108usize, 108, 109, 110, 111, 112, 116]);
                return (gen_tcp6_line_of_len(t, target), label);
            }
            let grp = |t: &mut Tape| -> String {
                let v = match t.below(3) {
                    0 => 0xffffu16,
                    1 => t.u16() | 0x1000,
                    _ => t.u16(),
                };
                format!("{:04x}", v)
            };
            let addr = |t: &mut Tape| -> String {
                let g: Vec<String> = (0..6).map(|_| grp(t)).collect();
                let o = |t: &mut Tape| if t.coin() { 255u32 } else { 100 + t.below(156) };
                format!("{}:{}.{}.{}.{}", g.join(":"), o(t), o(t), o(t), o(t))
            };
            let (a, b) = (addr(t), addr(t));
            let pa = if t.coin() { 65535 } else { 10000 + t.below(55536) };
            let pb = if t.coin() { 65535 } else { t.below(65536) };
            let line = format!("PROXY TCP6 {} {} {} {}\r\n", a, b, pa, pb).into_bytes();
            return (line, label);
        }
        26 | 27 => {
            // valid UTF-8 rich in multi-byte characters, sized to land on 100..=125 bytes exactly; kind 26 has no CR
            // at all (the 107-byte rule decides), kind 27 ends in CRLF with the CR at index 100..=123, so that some
            // character straddles whatever byte offset (107, 108, ...) a parser might cut or count at
            label = if kind == 26 { "long-utf8-nocr" } else { "long-utf8-cr" };
            let total = if t.chance(1, 2) { *t.pick(&[106usize, 107, 108, 109]) } else { t.usize_in(100, 125) };
            let body_len = if kind == 26 { total } else { total - 2 };
            let mut line: Vec<u8> = match t.below(4) {
                0 => b"PROXY UNKNOWN ".to_vec(),
                1 => b"PROXY TCP4 ".to_vec(),
                2 => b"PROXY TCP6 ::1 ".to_vec(),
                _ => b"PROXY UNKNOWN".to_vec(),
            };
            let chars = ['\u{e9}', '\u{20ac}', '\u{1f600}', '\u{7ff}', '\u{800}', '\u{10348}', '\u{10d}', '\u{10a}', '\u{120}', '\u{200d}', '\u{100}'];
            while line.len() < body_len {
                let left = body_len - line.len();
                let c = *t.pick(&chars);
                if c.len_utf8() <= left && t.chance(2, 3) {
                    let mut buf = [0u8; 4];
                    line.extend_from_slice(c.encode_utf8(&mut buf).as_bytes());
                } else {
                    line.push(if t.chance(1, 6) { b' ' } else { b'a' + (line.len() % 26) as u8 });
                }
            }
            if kind == 27 {
                line.extend_from_slice(b"\r\n");
                if t.chance(1, 3) {
                    line.extend_from_slice("tail \u{e9}\r\n".as_bytes());
                }
            }
            return (line, label);
        }
        30 | 31 => {
            // a character that text tools tend to ignore or strip (byte order mark, zero-width space, no-break space, line /
            // paragraph separators, soft hyphen) at the start, behind a separator, before the CR or at the very end; or stray
            // bytes in front of an otherwise valid line (an empty line, blanks, a NUL, the start of the v2 signature)
            label = if kind == 30 { "ignorable-unicode" } else { "stray-prefix" };
            let mut line = p.render();
            if kind == 30 {
                let ch = *t.pick(&["\u{feff}", "\u{200b}", "\u{a0}", "\u{2028}", "\u{85}", "\u{3000}", "\u{ad}", "\u{2060}"]);
                let spaces: Vec<usize> = line.iter().enumerate().filter(|(_, &b)| b == b' ').map(|(i, _)| i + 1).collect();
                let cr = line.iter().position(|&b| b == b'\r').unwrap_or(line.len());
                let at = match t.below(4) {
                    0 => 0,
                    1 if !spaces.is_empty() => spaces[t.below(spaces.len() as u32) as usize],
                    2 => cr,
                    _ => line.len(),
                };
                let tail = line.split_off(at);
                line.extend_from_slice(ch.as_bytes());
                line.extend(tail);
            } else {
                let pre: &[u8] = *t.pick(&[&b"\r\n"[..], b"\n", b" ", b"\0", b"\r\n\r\n", b"\r", b"\t", b"\xef\xbb\xbf", b"\r\n\r\n\0\r\nQUIT\n"]);
                let mut out = pre.to_vec();
                out.extend(line);
                line = out;
            }
            return (line, label);
        }
        32 | 33 => {
            // a line that is well-formed so far whose CR sits right at the length limit (index 103..=107); the input ends with the
            // CR, with CR LF, or with CR and another byte
            label = "cr-at-limit";
            let cr_at = t.usize_in(103, 107);
            let mut line: Vec<u8> = if t.coin() {
                let mut l = b"PROXY UNKNOWN ".to_vec();
                while l.len() < cr_at {
                    l.push(if t.chance(1, 9) { b' ' } else { b'a' + (l.len() % 26) as u8 });
                }
                l
            } else {
                let l = gen_tcp6_line_of_len(t, (cr_at + 2).min(116));
                l[..l.len() - 2].to_vec()
            };
            match t.below(4) {
                0 => line.push(b'\r'),
                1 => line.extend_from_slice(b"\r\n"),
                2 => {
                    line.push(b'\r');
                    line.push(t.byte());
                }
                _ => {}
            }
            return (line, label);
        }
        28 | 29 => {
            // one separating space becomes CR / LF / TAB / FF (the tokenizer splits on SP and CR alike)
            label = "separator-replaced";
            let mut line = p.render();
            let spaces: Vec<usize> = line.iter().enumerate().filter(|(_, &b)| b == b' ').map(|(i, _)| i).collect();
            if !spaces.is_empty() {
                let at = spaces[t.below(spaces.len() as u32) as usize];
                // ... or a character whose code point equals SP or CR modulo 64 / 128 / 256 (a separator test done with a
                // shift, a mask or a narrowing cast takes it for one)
                if t.chance(1, 3) {
                    let c = *t.pick(&['`', 'M', '\u{a0}', '\u{e0}', '\u{120}', '\u{10d}', '\u{8d}', '\u{4d}', '\u{2020}', '\u{200d}']);
                    let mut buf = [0u8; 4];
                    let enc = c.encode_utf8(&mut buf).as_bytes().to_vec();
                    line.splice(at..at + 1, enc);
                } else {
                    line[at] = *t.pick(&[b'\r', b'\r', b'\n', b'\t', 0x0c]);
                }
            }
            return (line, label);
        }
        22 => {
            label = "dup-byte";
            let mut line = p.render();
            let at = t.below(line.len() as u32) as usize;
            let b = line[at];
            line.insert(at, b);
            return (line, label);
        }
        _ => {
            label = "del-byte";
            let mut line = p.render();
            let at = t.below(line.len() as u32) as usize;
            line.remove(at);
            return (line, label);
        }
    }
    (p.render(), label)
}

pub const TOKENS: &[&[u8]] = &[
    b"PROXY", b" ", b"UNKNOWN", b"TCP4", b"TCP6", b"1.2.3.4", b"::1", b"80", b"0", b"+", b"\r", b"\n", b"\r\n", b"x", b"\xc3\xa9", b"\xff",
];

pub fn gen_tokens(t: &mut Tape) -> Vec<u8> {
    let n = t.usize_in(0, 16);
    let mut out = Vec::new();
    for _ in 0..n {
        out.extend_from_slice(TOKENS[t.below(TOKENS.len() as u32) as usize]);
    }
    out
}

pub fn gen_random_bytes(t: &mut Tape, max: usize) -> Vec<u8> {
    let n = match t.weighted(&[5, 3, 2]) {
        0 => t.usize_in(0, 24),
        1 => t.usize_in(0, 130),
        _ => t.usize_in(0, max),
    };
    match t.weighted(&[1, 1, 1]) {
        0 => t.bytes(n),
        1 => (0..n).map(|_| *t.pick(&[b'P', b'R', b'O', b'X', b'Y', b' ', b'\r', b'\n', b'1', b'.', b':', 0u8, 0xff, b'T', b'C', b'4'])).collect(),
        _ => (0..n).map(|_| t.range(0x20, 0x7e) as u8).collect(),
    }
}

// ------------------------------------------------------------------------------------------
// trailers

/// `n` bytes that read as a run of well-formed TLVs (registered type codes, value lengths 0..8 with 4 favoured).
pub fn tlv_run(seed: u32, n: usize) -> Vec<u8> {
    let noise = fill(seed | 1, n + 64);
    let mut out = Vec::with_capacity(n + 8);
    let mut i = 0usize;
    const KINDS: [u8; 14] = [0x01, 0x02, 0x03, 0x03, 0x03, 0x04, 0x05, 0x20, 0x21, 0x22, 0x23, 0x24, 0x25, 0x30];
    while out.len() < n {
        let kind = KINDS[noise[i % noise.len()] as usize % KINDS.len()];
        let len = match noise[(i + 1) % noise.len()] % 4 {
            0 => 4usize,
            1 => 0,
            2 => (noise[(i + 2) % noise.len()] % 9) as usize,
            _ => 4,
        };
        out.push(kind);
        out.extend_from_slice(&(len as u16).to_be_bytes());
        for k in 0..len {
            out.push(noise[(i + 3 + k) % noise.len()]);
        }
        i += 3 + len;
    }
    // one run in four begins with a cloud vendor's TLV (they are what real senders append)
    if seed % 4 == 3 && (seed >> 2) % 4 == 0 {
        let mut v: Vec<u8> = match (seed >> 4) % 3 {
            0 => {
                let id = format!("\x01vpce-0{:016x}", seed);
                let mut v = vec![0xEA, 0, id.len() as u8];
                v.extend_from_slice(id.as_bytes());
                v
            }
            1 => vec![0xEE, 0, 5, 1, seed as u8, (seed >> 8) as u8, (seed >> 16) as u8, (seed >> 24) as u8],
            _ => vec![0xE0, 0, 8, 0, 0, 0, 1, seed as u8, (seed >> 8) as u8, (seed >> 16) as u8, (seed >> 24) as u8],
        };
        v.extend_from_slice(&out);
        out = v;
    }
    out.truncate(n);
    out
}

pub fn gen_trailer(t: &mut Tape, utf8_only: bool) -> (Vec<u8>, &'static str) {
    let k = if utf8_only { t.weighted(&[1, 0, 3, 2, 2, 3, 3, 0, 5, 0, 0]) } else { t.weighted(&[1, 3, 3, 2, 2, 3, 3, 2, 2, 3, 1]) };
    match k {
        9 => {
            // bytes that continue a TLV chain: well-formed TLVs with registered type codes and short values
            // (a parser that walks TLVs past the declared length would take them for part of the header)
            let n = t.usize_in(3, 40);
            let mut s = tlv_run(t.u32() | 3, n);
            // half of the time whole items only (the run then ends exactly where its last TLV ends)
            if t.coin() {
                let mut i = 0;
                while i + 3 <= s.len() {
                    let l = ((s[i + 1] as usize) << 8) | s[i + 2] as usize;
                    if i + 3 + l > s.len() {
                        break;
                    }
                    i += 3 + l;
                }
                s.truncate(i);
            }
            (s, "tlv-run")
        }
        10 => {
            // a very large trailer: the buffer is 64 KiB .. 128 KiB larger than the header
            let n = match t.below(4) {
                0 => 65536 - t.usize_in(0, 40),
                1 => 65536 + t.usize_in(0, 40),
                2 => 131072 + t.usize_in(0, 40) - 20,
                _ => t.usize_in(65000, 140000),
            };
            (fill(gen_seed(t), n), "huge")
        }
        8 => {
            // valid UTF-8 text rich in 2/3/4-byte characters, of any length up to ~130 bytes (so that some
            // character straddles whatever fixed offset a parser might cut at)
            let n = t.usize_in(1, 60);
            let mut s = String::new();
            for _ in 0..n {
                s.push(*t.pick(&['\u{e9}', '\u{20ac}', '\u{1f600}', 'a', ' ', '\u{7ff}', '\u{800}', '\u{10348}', '\r', '\n', '1', '\u{10d}', '\u{10a}', '\u{120}', '\u{200d}']));
            }
            (s.into_bytes(), "utf8-multibyte-text")
        }
        0 => (vec![], "empty"),
        1 => {
            let n = t.usize_in(1, 40);
            (t.bytes(n), "random")
        }
        2 => {
            let s: &[u8] = *t.pick(&[&b"GET / HTTP/1.1\r\nHost: x\r\n\r\n"[..], b"Hi!", b"Foobar", b"hello", b"\x16\x03\x01\x02\x00\x01"]);
            (s.to_vec(), "text")
        }
        3 => (gen_valid_line(t, true), "v1-header"),
        4 => {
            let mut h = gen_v2_header(t).bytes;
            if utf8_only {
                h = b"PROXY UNKNOWN\r\n".to_vec();
            }
            (h, "second-header")
        }
        5 => {
            let s: &[u8] = *t.pick(&[&b"\r"[..], b"\n", b"\r\n", b"\0", b"\r\n\r\n", b"\n\r", b" ", b" \r\n", b"\r\r"]);
            (s.to_vec(), "crlf-nul")
        }
        6 => {
            let s: &[u8] = *t.pick(&[&b"5"[..], b".5", b":ff", b" 1", b"0", b"1 2", b" x\r\n", b"\n", b"9\r\n"]);
            (s.to_vec(), "field-extension")
        }
        _ => {
            let s: &[u8] = *t.pick(&[&b"\xff"[..], b"\xc3", b"\xe2\x82", b"\x80abc", b"\xf0\x90\x80"]);
            (s.to_vec(), "invalid-utf8")
        }
    }
}

// ------------------------------------------------------------------------------------------
// v2 headers

#[derive(Clone, Debug)]
pub struct V2Gen {
    pub bytes: Vec<u8>,
    pub cmd: u8,
    pub proto: u8,
    pub fam: u8,
    pub tlv_kind: &'static str,
}

pub fn gen_addr_block(t: &mut Tape, fam: u8) -> Vec<u8> {
    // one block in twelve is all zero bytes (wildcard endpoints, port 0), one in twenty-four all 0xFF
    if fam != 0 {
        let size = NEED[fam as usize];
        match t.below(24) {
            0 | 1 => return vec![0u8; size],
            2 => return vec![0xffu8; size],
            _ => {}
        }
    }
    // one IPv4 / IPv6 block in sixteen carries real addresses and no ports (both zero: ICMP, ESP and the like)
    let portless = (fam == 1 || fam == 2) && t.chance(1, 16);
    match fam {
        0 => vec![],
        1 => {
            let (a4, b4) = gen_v4_pair(t);
            let mut b = a4.to_vec();
            b.extend_from_slice(&b4);
            b.extend_from_slice(&(if portless { 0 } else { gen_port(t) }).to_be_bytes());
            b.extend_from_slice(&(if portless { 0 } else { gen_port(t) }).to_be_bytes());
            b
        }
        2 => {
            let mut b = Vec::new();
            let (a6, b6) = gen_v6_pair(t);
            for g in [a6, b6] {
                for v in g {
                    b.extend_from_slice(&v.to_be_bytes());
                }
            }
            b.extend_from_slice(&(if portless { 0 } else { gen_port(t) }).to_be_bytes());
            b.extend_from_slice(&(if portless { 0 } else { gen_port(t) }).to_be_bytes());
            b
        }
        _ => {
            let mut b = Vec::new();
            for _ in 0..2 {
                let mut path = match t.weighted(&[2, 4, 2, 1, 1, 1, 2, 2, 1, 1]) {
                    // text that fills all 108 bytes and is cut inside a multi-byte character (sun_path is cut by bytes); the same
                    // with the cut character in front of a terminator
                    8 => {
                        let ch = *t.pick(&["\u{e9}", "\u{20ac}", "\u{1f600}", "\u{65e5}"]);
                        let keep = 1 + t.below(ch.len() as u32 - 1) as usize;
                        let head = if t.coin() { "/var/run/" } else { "\0app/" };
                        let mut p = head.as_bytes().to_vec();
                        let body = 108 - p.len() - keep - if t.chance(1, 4) { 1 + t.below(8) as usize } else { 0 };
                        while p.len() < head.len() + body {
                            p.push(b'a' + (p.len() % 26) as u8);
                        }
                        p.extend_from_slice(&ch.as_bytes()[..keep]);
                        p.resize(108, 0);
                        p
                    }
                    // names from other systems: a drive letter and backslashes, a UNC-like name, a path with a space, percent
                    // escapes, a trailing slash, dot segments
                    9 => {
                        let mut p = t.pick(&["C:\\ProgramData\\app\\proxy.sock", "c:\\temp\\s", "D:\\", "\\\\.\\pipe\\haproxy", "/var/run/my app.sock", "/run/%2e%2e/x.sock", "/run/app/", "/run/../run/./x.sock", "//run//x.sock", "./x.sock", "~/x.sock"]).as_bytes().to_vec();
                        p.resize(108, 0);
                        p
                    }
                    // a pathname, its NUL terminator, and stale bytes behind it (what a C sender leaves in sun_path)
                    7 => {
                        let mut p = format!("/run/app-{}.sock", t.below(100)).into_bytes();
                        p.push(0);
                        let rest = 108 - p.len();
                        p.extend(fill(t.u32() | 1, rest).into_iter().map(|b| if b == 0 { 0x55 } else { b }));
                        p
                    }
                    // abstract names: a leading NUL, then a short name padded with zeros / 107 non-zero bytes (the name fills
                    // sun_path: no terminator anywhere); a path that fills all 108 bytes without terminator
                    3 => {
                        let mut p = vec![0u8];
                        p.extend_from_slice(format!("haproxy-{}", t.below(100)).as_bytes());
                        p.resize(108, 0);
                        p
                    }
                    4 => {
                        let mut p = vec![0u8];
                        p.extend(fill(t.u32() | 1, 107).into_iter().map(|b| if b == 0 { b'a' } else { b }));
                        p
                    }
                    6 => {
                        // address notation left in the path (HAProxy's unix@ / abns@ / ipv4@ prefixes, URL-ish schemes, '@name'),
                        // a Linux autobind name (NUL + 5 hex digits)
                        let mut p = match t.below(8) {
                            0 => format!("unix@/run/app-{}.sock", t.below(10)).into_bytes(),
                            1 => format!("abns@app-{}", t.below(10)).into_bytes(),
                            2 => b"unix:/run/haproxy.sock".to_vec(),
                            3 => b"@haproxy".to_vec(),
                            4 => format!("\0{:05x}", t.below(1 << 20)).into_bytes(),
                            5 => format!("\0{:05X}", t.below(1 << 20)).into_bytes(),
                            6 => b"unix@".to_vec(),
                            _ => b"abns@".to_vec(),
                        };
                        p.resize(108, 0);
                        p
                    }
                    5 => {
                        let mut p = b"/var/run/".to_vec();
                        while p.len() < 108 {
                            p.push(b'a' + (p.len() % 26) as u8);
                        }
                        p
                    }
                    0 => vec![0u8; 108],
                    1 => {
                        let mut p = format!("/run/sock-{}.s", t.u16()).into_bytes();
                        p.resize(108, 0);
                        p
                    }
                    _ => fill(gen_seed(t), 108),
                };
                path.truncate(108);
                b.extend_from_slice(&path);
            }
            // both ends the same socket (a connection of a process to itself; a listener's own name on both sides)
            if t.chance(1, 6) {
                let (a, z) = b.split_at_mut(108);
                z.copy_from_slice(a);
            }
            b
        }
    }
}

pub const KNOWN_UNREGISTERED_KINDS: [u8; 16] = [0xE0, 0xEA, 0xEE, 0xE1, 0xEF, 0xF0, 0xF7, 0xF8, 0xFF, 0x00, 0x06, 0x1F, 0x26, 0x2F, 0x31, 0xDF];

/// One TLV nested `depth` levels deep: every level's value is (a 5-byte SSL-style prefix and) the next level's TLV. Read as a
/// section it is a single item; anything that descends into values (a recursive formatter, a validator of sub-TLVs) sees
/// `depth` levels. Built outermost-first in one pass. `room` bounds the encoded size; the outermost value stays <= 65535.
pub fn deep_nested_tlv(t: &mut Tape, room: usize) -> Vec<u8> {
    let ssl = t.coin();
    let per = if ssl { 8 } else { 3 };
    let kind = if ssl { 0x20u8 } else { *t.pick(&[0x20u8, 0x04, 0xEE, 0x30, 0x01, 0x21]) };
    let leaf = t.usize_in(0, 6);
    let room = room.min(65535 + 3);
    if room < leaf + 3 + per {
        return Vec::new();
    }
    let max_depth = (room - leaf - 3) / per;
    let depth = match t.weighted(&[4, 3, 2, 2]) {
        0 => t.usize_in(1, 4),
        1 => t.usize_in(5, 64),
        2 => t.usize_in(65, 2500),
        _ => max_depth.saturating_sub(t.usize_in(0, 3)),
    }
    .clamp(1, max_depth);
    let total = depth * per + 3 + leaf;
    let mut out = Vec::with_capacity(total);
    let mut remaining = total;
    for _ in 0..depth {
        out.push(kind);
        out.extend_from_slice(&((remaining - 3) as u16).to_be_bytes());
        if ssl {
            out.extend_from_slice(&[0x01, 0, 0, 0, 0]);
        }
        remaining -= per;
    }
    out.push(if ssl { 0x22 } else { kind });
    out.extend_from_slice(&(leaf as u16).to_be_bytes());
    out.extend(fill(0x5eed, leaf));
    debug_assert_eq!(out.len(), total);
    out
}

/// A well-formed TLV list (type, value) with a total encoded size <= `room`.
pub fn gen_tlv_list(t: &mut Tape, room: usize) -> Vec<(u8, Vec<u8>)> {
    let mut out = Vec::new();
    let mut used = 0usize;
    let n = t.weighted(&[2, 3, 3, 2, 1, 1]);
    for _ in 0..n {
        if used + 3 > room {
            break;
        }
        let kind = match t.weighted(&[6, 4, 1]) {
            0 => *t.pick(&[0x01u8, 0x02, 0x03, 0x04, 0x05, 0x20, 0x21, 0x22, 0x23, 0x24, 0x25, 0x30]),
            1 => t.byte(),
            // type codes with a meaning outside the registered table: the vendor codes in use (AWS 0xEA, Azure 0xEE,
            // GCP 0xE0), and the edges of the custom / experimental / reserved ranges
            _ => *t.pick(&KNOWN_UNREGISTERED_KINDS),
        };
        let max = room - used - 3;
        let want = match t.weighted(&[4, 4, 2, 1, 2, 1]) {
            0 => t.usize_in(0, 4),
            1 => t.usize_in(0, 40),
            2 => *t.pick(&[255usize, 256, 257, 300, 511, 512]),
            3 => *t.pick(&[65535usize, 65532, 30000, 4096, 65000]),
            4 => t.usize_in(0, 600),
            _ => {
                let p = 1usize << t.usize_in(2, 13);
                p + t.usize_in(0, 4) - 2
            }
        };
        let len = want.min(max);
        // content: random bytes mostly; all-zero / all-0xFF / ASCII / signature-like for one value in four
        let mut value = if len <= 16 && t.chance(3, 4) { t.bytes(len) } else { fill(gen_seed(t), len) };
        // one value in ten is a string such TLVs carry in practice (protocol ids, TLS versions, host names), in the
        // usual or in an unusual case, sometimes NUL-terminated
        if t.chance(1, 10) {
            let w = *t.pick(&["h2", "http/1.1", "HTTP/1.1", "H2", "h3", "h2c", "Http/1.0", "TLSv1.3", "tlsv1.2", "ECDHE-RSA-AES128-GCM-SHA256", "example.org", "EXAMPLE.ORG", "RSA2048", "sha256", "blue", "localhost"]);
            value = w.as_bytes().to_vec();
            if t.chance(1, 4) {
                value.push(0);
            }
            if value.len() > max {
                value.truncate(max);
            }
        }
        let mut kind = kind;
        // one item in twelve is a TLV as it occurs in practice: a registered type with the kind of value that type carries
        // (ALPN ids - also in TLS wire form with a length byte in front -, host names, request ids as UUID text in either
        // case, TLS versions / ciphers / certificate names, a CRC, a namespace)
        if t.chance(1, 12) {
            let (k, v): (u8, Vec<u8>) = match t.below(19) {
                // the SSL container as HAProxy emits it: client flags (bit 0 set), 4-byte verify result, then sub-TLVs
                17 | 18 => {
                    let mut v = vec![*t.pick(&[0x01u8, 0x01, 0x03, 0x05, 0x07, 0x00]), 0, 0, 0, t.below(2) as u8];
                    let subs: [(u8, &str); 5] = [(0x21, "TLSv1.3"), (0x22, "client.example.org"), (0x23, "TLS_AES_128_GCM_SHA256"), (0x24, "SHA256"), (0x25, "RSA2048")];
                    let n = t.usize_in(0, 4);
                    for i in 0..n {
                        let (k, w) = subs[(i + t.below(5) as usize) % 5];
                        v.push(k);
                        v.extend_from_slice(&(w.len() as u16).to_be_bytes());
                        v.extend_from_slice(w.as_bytes());
                    }
                    // (one container in four ends in one or two stray bytes: too few for another sub-TLV head)
                    if t.chance(1, 4) {
                        v.extend_from_slice(&[0x21, 0x00][..1 + t.below(2) as usize]);
                    }
                    (0x20, v)
                }
                // the cloud vendors' TLVs: AWS VPC endpoint id (0xEA: subtype 1 + "vpce-..."), Azure private link id (0xEE:
                // subtype 1 + 4-byte little-endian id), GCP PSC connection id (0xE0: 8 bytes)
                14 => (0xEA, format!("\x01vpce-0{:016x}", t.u32()).into_bytes()),
                15 => {
                    let mut v = vec![0x01];
                    v.extend_from_slice(&t.u32().to_le_bytes());
                    (0xEE, v)
                }
                16 => (0xE0, (t.u32() as u64 * 0x1_0001).to_be_bytes().to_vec()),
                0 => (0x01, t.pick(&["h2", "http/1.1", "h3", "spdy/3.1"]).as_bytes().to_vec()),
                1 => {
                    let w = t.pick(&["h2", "http/1.1", "h3", "acme-tls/1"]).as_bytes();
                    let mut v = vec![w.len() as u8];
                    v.extend_from_slice(w);
                    (0x01, v)
                }
                2 => (0x02, t.pick(&["example.org", "EXAMPLE.ORG", "xn--bcher-kva.example", "a.b", "localhost."]).as_bytes().to_vec()),
                3 => (0x03, t.u32().to_be_bytes().to_vec()),
                4 => (0x04, vec![0u8; t.usize_in(0, 9)]),
                5 | 6 => {
                    let u = *t.pick(&["123e4567-e89b-12d3-a456-426614174000", "123E4567-E89B-12D3-A456-426614174000", "00000000-0000-0000-0000-00000000000A", "f81d4fae-7dec-11d0-A765-00a0c91e6bf6", "FFFFFFFF-FFFF-FFFF-FFFF-FFFFFFFFFFFF"]);
                    (0x05, u.as_bytes().to_vec())
                }
                7 => (0x05, format!("req-{:08X}", t.u32()).into_bytes()),
                8 => (0x21, t.pick(&["TLSv1.3", "TLSv1.2", "tlsv1.3"]).as_bytes().to_vec()),
                9 => (0x22, t.pick(&["example.org", "CN=client,O=Example", "*.example.org"]).as_bytes().to_vec()),
                10 => (0x23, t.pick(&["ECDHE-RSA-AES128-GCM-SHA256", "TLS_AES_256_GCM_SHA384"]).as_bytes().to_vec()),
                11 => (0x24, t.pick(&["SHA256", "RSA-SHA256"]).as_bytes().to_vec()),
                12 => (0x25, t.pick(&["RSA2048", "EC256"]).as_bytes().to_vec()),
                _ => (0x30, t.pick(&["blue", "ns-0", "/var/run/netns/x"]).as_bytes().to_vec()),
            };
            if v.len() <= max {
                kind = k;
                value = v;
            }
        } else if t.chance(1, 16) && !value.is_empty() && value.len() <= 256 {
            // a counted string: the first byte states how many bytes follow (ALPN / DNS label / Pascal style)
            value[0] = (value.len() - 1) as u8;
        }
        used += 3 + value.len();
        out.push((kind, value));
        // a duplicate of an earlier item (every hop of a chain appends the same id again): same type, same value
        if t.chance(1, 10) {
            let (k, v) = out[t.below(out.len() as u32) as usize].clone();
            if used + 3 + v.len() <= room {
                used += 3 + v.len();
                out.push((k, v));
            }
        }
    }
    // alignment padding as senders write it: NOOP entries (type 4), zero-filled or not, in front of the list or as a run of two
    // or three at its end
    if t.chance(1, 10) {
        let noop = |t: &mut Tape| -> (u8, Vec<u8>) {
            let n = *t.pick(&[0usize, 1, 1, 2, 4, 5]);
            (0x04, if t.chance(3, 4) { vec![0u8; n] } else { t.bytes(n) })
        };
        let k = 1 + t.below(3) as usize;
        let front = t.chance(1, 3);
        for _ in 0..k {
            let (kind, v) = noop(t);
            if used + 3 + v.len() > room {
                break;
            }
            used += 3 + v.len();
            if front {
                out.insert(0, (kind, v));
            } else {
                out.push((kind, v));
            }
        }
    }
    out
}

pub fn enc_tlv_list(list: &[(u8, Vec<u8>)]) -> Vec<u8> {
    let mut out = Vec::new();
    for (k, v) in list {
        out.push(*k);
        out.extend_from_slice(&(v.len() as u16).to_be_bytes());
        out.extend_from_slice(v);
    }
    out
}

/// Pipelined data right behind whole items: the next header's signature (alone, with a fixed part, with a complete header), a
/// v1 line, a part of the signature - exactly on an item boundary.
pub fn items_then_next_header(t: &mut Tape, room: usize) -> Vec<u8> {
    let list = gen_tlv_list(t, room.saturating_sub(40).min(200));
            let mut s = enc_tlv_list(&list);
            match t.below(5) {
                0 => s.extend_from_slice(&crate::oracle::v2::SIG),
                1 => {
                    s.extend_from_slice(&crate::oracle::v2::SIG);
                    s.extend_from_slice(&[0x21, 0x11, 0x00, 0x0c]);
                    s.extend_from_slice(&[192, 0, 2, 1, 198, 51, 100, 7, 0xc8, 0x22, 0x01, 0xbb]);
                }
                2 => {
                    s.extend_from_slice(&crate::oracle::v2::SIG);
                    s.extend_from_slice(&[0x20, 0x00, 0x00, 0x00]);
                }
                3 => s.extend_from_slice(b"PROXY TCP4 192.0.2.1 198.51.100.7 51234 443\r\n"),
                _ => s.extend_from_slice(&crate::oracle::v2::SIG[..t.usize_in(3, 11)]),
            }
            s.truncate(room);
    s
}

/// TLV section bytes of one of the classes empty / well-formed / truncated / random.
pub fn gen_tlv_section(t: &mut Tape, room: usize) -> (Vec<u8>, &'static str) {
    match t.weighted(&[8, 20, 8, 8, 2, 2, 1, 1, 1]) {
        8 => (items_then_next_header(t, room), "tlv-items-then-next-header"),
        7 => {
            // alignment padding (1..=8 zero bytes, 4 favoured) in front of a well-formed list, or between its items
            let list = gen_tlv_list(t, room.saturating_sub(8));
            let pad = *t.pick(&[4usize, 4, 4, 8, 1, 2, 3, 5, 6, 7]);
            let at = if t.chance(2, 3) || list.is_empty() { 0 } else { t.below(list.len() as u32) as usize };
            let mut s = enc_tlv_list(&list[..at]);
            s.extend(std::iter::repeat(0u8).take(pad));
            s.extend(enc_tlv_list(&list[at..]));
            s.truncate(room);
            (s, "tlv-padding-then-items")
        }
        6 => {
            // thousands of tiny items (registered types, values of 0..8 bytes), up to the whole room
            let n = match t.below(4) {
                0 => room,
                1 => t.usize_in(0, room.min(70_000)),
                2 => (4096 * 3 + t.usize_in(0, 64)).min(room),
                _ => t.usize_in(0, room.min(40_000)),
            };
            let mut s = tlv_run(t.u32() | 3, n);
            // keep whole items only
            let mut i = 0;
            while i + 3 <= s.len() {
                let l = ((s[i + 1] as usize) << 8) | s[i + 2] as usize;
                if i + 3 + l > s.len() {
                    break;
                }
                i += 3 + l;
            }
            s.truncate(i);
            (s, "tlv-many-tiny-items")
        }
        4 => {
            // a TLV nested many levels deep (alone, or behind / in front of ordinary items)
            let mut s = if t.coin() { enc_tlv_list(&gen_tlv_list(t, room.min(200))) } else { vec![] };
            let left = room - s.len();
            s.extend(deep_nested_tlv(t, left));
            (s, "tlv-deeply-nested")
        }
        5 => {
            // a well-formed list in which one item's length is written little-endian (a host-order sender): the item then
            // overruns the section, or swallows its successors, or - when both bytes are equal - is unchanged
            let list = gen_tlv_list(t, room);
            let mut s = enc_tlv_list(&list);
            if !list.is_empty() {
                // favour the last item (its little-endian reading then ends exactly at the end of the section)
                let i = if t.chance(2, 3) { list.len() - 1 } else { t.below(list.len() as u32) as usize };
                let off: usize = list[..i].iter().map(|(_, v)| 3 + v.len()).sum();
                s.swap(off + 1, off + 2);
            }
            (s, "tlv-length-little-endian")
        }
        0 => (vec![], "tlv-empty"),
        1 => (enc_tlv_list(&gen_tlv_list(t, room)), "tlv-wellformed"),
        2 => {
            let mut s = enc_tlv_list(&gen_tlv_list(t, room));
            let cut = t.below(s.len() as u32 + 1) as usize;
            s.truncate(cut);
            (s, "tlv-truncated")
        }
        _ => {
            let n = t.usize_in(0, 40).min(room);
            (t.bytes(n), "tlv-random")
        }
    }
}

/// A header that R-V2 accepts, complete, no trailing bytes.
pub fn gen_v2_header(t: &mut Tape) -> V2Gen {
    let cmd = t.below(2) as u8;
    let proto = t.below(3) as u8;
    let fam = t.below(4) as u8;
    let need = NEED[fam as usize];
    let addr = gen_addr_block(t, fam);
    let (mut section, mut tlv_kind) = gen_tlv_section(t, 65535 - need);
    // one header in forty says the same thing twice: the bytes behind the address block are a copy of the address block
    // (or of the whole fixed part and block)
    if fam != 0 && t.chance(1, 40) {
        section = addr.clone();
        tlv_kind = "tlv-random";
    } else if t.chance(1, 40) {
        // ... or is itself one complete, well-formed v2 header (a header forwarded as opaque payload of another one)
        let mut inner = SIG.to_vec();
        inner.push(0x20 | t.below(2) as u8);
        let ifam = t.below(3) as u8;
        inner.push((ifam << 4) | t.below(3) as u8);
        let mut ip = gen_addr_block(t, ifam);
        if t.coin() {
            ip.extend(enc_tlv_list(&gen_tlv_list(t, 60)));
        }
        inner.extend_from_slice(&(ip.len() as u16).to_be_bytes());
        inner.extend_from_slice(&ip);
        section = inner;
        tlv_kind = "tlv-random";
    }
    let mut payload = addr;
    payload.extend_from_slice(&section);
    // one header in fifty is what a sender produces that dumps two raw socket address structures: sockaddr_un (family word
    // 1 + 108 path bytes, 220 bytes for the pair), sockaddr_in (32 bytes), sockaddr_in6 (56 bytes); family word in either
    // byte order
    if fam != 0 && t.chance(1, 50) {
        let (word, size): (u16, usize) = match fam {
            1 => (2, 16),
            2 => (10, 28),
            _ => (1, 110),
        };
        let w = if t.coin() { word.to_be_bytes() } else { word.to_le_bytes() };
        let mut dump = Vec::new();
        for _ in 0..2 {
            let mut one = w.to_vec();
            one.extend(fill(t.u32() | 1, size - 2));
            if fam == 3 {
                // a path, NUL-terminated
                for (i, b) in one.iter_mut().enumerate().skip(2) {
                    *b = if i < 20 { b'a' + (*b % 26) } else { 0 };
                }
                one[2] = b'/';
            }
            dump.extend(one);
        }
        payload = dump;
    }
    // declared-length classes: exact fit is the only valid relation for a complete header; the
    // payload itself is sized by the TLV generator (including totals of exactly 65535)
    if t.chance(1, 40) && payload.len() < 65535 {
        let pad = 65535 - payload.len();
        payload.extend(fill(gen_seed(t), pad));
    } else if t.chance(1, 30) {
        // padded with zero bytes to a size a C sender would use: sizeof(union proxy_addr) = 216, the next family's block,
        // a power of two (the zeros read as empty type-0 TLVs, or as one short item at the end)
        // (0x0C00, 0x2400 and 0xD800 are the family block sizes 12, 36 and 216 with their bytes exchanged)
        let target = *t.pick(&[216usize, 216, 36, 232, 256, 512, 128, 64, 0x0C00, 0x2400, 0xD800]);
        if payload.len() < target {
            payload.resize(target, 0);
        }
    }
    // one header in sixty repeats itself: right behind the address block (behind the fixed part for the unspecified family)
    // stands a copy of its own 16-byte fixed part (a write that was retried)
    if t.chance(1, 60) && payload.len() + 16 <= 65535 {
        let at = NEED[fam as usize].min(payload.len());
        let mut fixed = SIG.to_vec();
        fixed.push(0x20 | cmd);
        fixed.push((fam << 4) | proto);
        fixed.extend_from_slice(&((payload.len() + 16) as u16).to_be_bytes());
        let tail = payload.split_off(at);
        payload.extend_from_slice(&fixed);
        payload.extend(tail);
    }
    let mut bytes = SIG.to_vec();
    bytes.push(0x20 | cmd);
    bytes.push((fam << 4) | proto);
    bytes.extend_from_slice(&(payload.len() as u16).to_be_bytes());
    bytes.extend_from_slice(&payload);
    V2Gen { bytes, cmd, proto, fam, tlv_kind }
}

/// Near-miss v2 inputs (G-V2MUT).
pub fn gen_v2_mutant(t: &mut Tape) -> (Vec<u8>, &'static str) {
    let mut h = gen_v2_header(t).bytes;
    match t.below(16) {
        15 => {
            // the signature (or the whole header) after a text-mode translation: every CR LF written as LF, every LF as CR LF,
            // all CRs / all LFs / the NUL dropped
            let span = if t.coin() { 12.min(h.len()) } else { h.len().min(600) };
            let (head, tail) = h.split_at(span);
            let mut out: Vec<u8> = Vec::with_capacity(h.len() + 16);
            match t.below(5) {
                0 => {
                    let mut i = 0;
                    while i < head.len() {
                        if head[i] == b'\r' && i + 1 < head.len() && head[i + 1] == b'\n' {
                            out.push(b'\n');
                            i += 2;
                        } else {
                            out.push(head[i]);
                            i += 1;
                        }
                    }
                }
                1 => {
                    for (i, &b) in head.iter().enumerate() {
                        if b == b'\n' && (i == 0 || head[i - 1] != b'\r') {
                            out.push(b'\r');
                        }
                        out.push(b);
                    }
                }
                2 => out.extend(head.iter().filter(|&&b| b != b'\r')),
                3 => out.extend(head.iter().filter(|&&b| b != b'\n')),
                _ => out.extend(head.iter().filter(|&&b| b != 0)),
            }
            out.extend_from_slice(tail);
            (out, "text-mode-translation")
        }
        14 => {
            // a valid fixed part announcing more than what follows it, and what follows is text: a complete v1 line (a chain
            // of proxies speaking both versions), or the start of one
            let line = gen_valid_line(t, true);
            let fam = (h[13] >> 4) as usize & 3;
            let l = (line.len() + 1 + t.below(300) as usize).max(NEED[fam]);
            h.truncate(16);
            h[14] = (l >> 8) as u8;
            h[15] = l as u8;
            let keep = if t.chance(2, 3) { line.len() } else { t.below(line.len() as u32 + 1) as usize };
            h.extend_from_slice(&line[..keep]);
            (h, "fixed-part-then-v1-line")
        }
        13 => {
            // two aligned words of the first 16 / 32 bytes exchanged (4- or 8-byte words): the same bytes, the same sums
            // and XORs over words, another order
            let w = if t.coin() { 4 } else { 8 };
            let span = if h.len() >= 32 && t.coin() { 32 } else { 16 };
            let n = span / w;
            let (a, b) = (t.below(n as u32) as usize, t.below(n as u32) as usize);
            if a != b && h.len() >= span {
                for k in 0..w {
                    h.swap(a * w + k, b * w + k);
                }
            }
            (h, "fixed-part-words-exchanged")
        }
        10 => {
            // the whole header shifted: a few bytes in front of the signature (blanks, line ends, zeros, a stray byte), or
            // its first bytes missing
            if t.chance(3, 4) {
                let n = 1 + t.below(4) as usize;
                let mut out: Vec<u8> = (0..n).map(|_| *t.pick(&[b' ', b'\t', b'\r', b'\n', 0u8, b'P', 0xff])).collect();
                if t.coin() {
                    let b = out[0];
                    out.iter_mut().for_each(|x| *x = b);
                }
                out.extend_from_slice(&h);
                (out, "shifted-right")
            } else {
                // its first 1..=11 bytes missing (something in front of the parser consumed them: the signature begins
                // with CR LF CR LF, which a line-oriented reader takes for two empty lines)
                let n = if t.coin() { 1 + t.below(3) as usize } else { 1 + t.below(11) as usize };
                (h[n.min(h.len())..].to_vec(), "shifted-left")
            }
        }
        11 | 12 => {
            // the length field counts something else than the payload: only the TLV section (the sender forgot the address
            // block), the payload plus the fixed part, the whole buffer; all bytes stay in place
            if h.len() >= 16 {
                let l = ((h[14] as usize) << 8) | h[15] as usize;
                let fam = (h[13] >> 4) as usize & 3;
                let need = NEED[fam];
                let v = match t.below(8) {
                    0 | 1 => l.saturating_sub(need),
                    2 => l + 16,
                    3 => h.len(),
                    // the right number in the wrong byte order (a host-order sender)
                    6 => ((l & 0xff) << 8) | (l >> 8),
                    // the 3-byte prefix of the last TLV / of every TLV not counted
                    7 => {
                        let n_tlvs = if fam == 0 { 0 } else { crate::oracle::tlv::tlv_ref(&h[(16 + need).min(h.len())..]).len() };
                        match t.below(3) {
                            0 => l.saturating_sub(3),
                            1 => l.saturating_sub(3 * n_tlvs),
                            // ... or was filled in before the last TLV's value (or a part of it) had been appended
                            _ => {
                                let last = if fam == 0 { None } else { crate::oracle::tlv::tlv_ref(&h[(16 + need).min(h.len())..]).last().cloned() };
                                match last {
                                    Some(crate::oracle::tlv::Item::Ok { start, end, .. }) if end > start => l.saturating_sub(1 + t.below((end - start) as u32) as usize),
                                    _ => l.saturating_sub(1),
                                }
                            }
                        }
                    }
                    // exactly another family's block size (a dual-stack sender that labels the header with the listening
                    // socket's family but writes the peer's block)
                    _ => NEED[t.below(4) as usize],
                } & 0xffff;
                h[14] = (v >> 8) as u8;
                h[15] = v as u8;
            }
            (h, "length-counts-something-else")
        }
        9 => {
            // cut at a length that is special for this header: the declared length itself (the sender counted the fixed
            // part), the end of the address block, a few bytes either side of those and of the full header
            let l = if h.len() >= 16 { ((h[14] as usize) << 8) | h[15] as usize } else { 0 };
            let fam = if h.len() >= 14 { (h[13] >> 4) as usize & 3 } else { 0 };
            let need = NEED[fam];
            let base = *t.pick(&[l, l, 16 + need, 16 + l, l + need, 32usize]);
            let cut = (base + t.usize_in(0, 2)).saturating_sub(1);
            h.truncate(cut.min(h.len()));
            (h, "special-truncate")
        }
        0 => {
            let i = t.below(12) as usize;
            h[i] = t.byte();
            (h, "sig-byte")
        }
        1 => {
            let i = t.below(16) as usize;
            h[i] ^= 1 << t.below(8);
            (h, "fixed-bitflip")
        }
        2 => {
            let cut = t.below(h.len() as u32 + 1) as usize;
            h.truncate(cut);
            (h, "truncate")
        }
        3 => {
            h[12] = t.byte();
            (h, "vc-byte")
        }
        4 => {
            h[13] = t.byte();
            (h, "afp-byte")
        }
        5 => {
            let l = t.u16();
            h[14] = (l >> 8) as u8;
            h[15] = l as u8;
            (h, "length-field")
        }
        6 => {
            // length one off
            let l = u16::from_be_bytes([h[14], h[15]]);
            let l = if t.coin() { l.wrapping_add(1) } else { l.wrapping_sub(1) };
            h[14] = (l >> 8) as u8;
            h[15] = l as u8;
            (h, "length-off-by-one")
        }
        7 => {
            let cut = t.below(17) as usize;
            h.truncate(cut);
            (h, "fixed-truncate")
        }
        _ => {
            let mut out = SIG.to_vec();
            out.extend_from_slice(&gen_valid_line(t, false));
            (out, "sig-then-text")
        }
    }
}

/// A small edit of `x` that keeps most of it (so that the two inputs share a long prefix, a field, or everything):
/// used to build chains of related inputs judged back to back.
pub fn gen_related(t: &mut Tape, x: &[u8]) -> Vec<u8> {
    let mut y = x.to_vec();
    let cr = y.iter().position(|&b| b == b'\r');
    match t.below(23) {
        21 | 22 => {
            // the same characters with one separator moved by one place: the first character of a field joins the field in
            // front of it (`1.2.3.4 15.6.7.8` -> `1.2.3.41 5.6.7.8`), or the last one joins the field behind it
            let end = cr.unwrap_or(y.len());
            let blanks: Vec<usize> = (1..end.saturating_sub(1)).filter(|&k| y[k] == b' ' && y[k - 1] != b' ' && y[k + 1] != b' ').collect();
            if !blanks.is_empty() {
                let k = blanks[t.below(blanks.len() as u32) as usize];
                if t.coin() {
                    y.swap(k, k + 1);
                } else {
                    y.swap(k - 1, k);
                }
            }
        }
        20 => {
            // another protocol keyword in front of the very same text (TCP4 <-> TCP6 <-> UNKNOWN)
            if y.starts_with(b"PROXY ") {
                if let Some(end) = y[6..].iter().position(|&b| b == b' ' || b == b'\r').map(|p| p + 6) {
                    let cur = y[6..end].to_vec();
                    let options: Vec<&[u8]> = [&b"TCP4"[..], b"TCP6", b"UNKNOWN"].into_iter().filter(|o| **o != cur[..]).collect();
                    let pick = options[t.below(options.len() as u32) as usize].to_vec();
                    y.splice(6..end, pick);
                }
            }
        }
        16 => {
            // two aligned words (4 or 8 bytes) exchanged, within the first 32 bytes or anywhere
            let w = if t.coin() { 4 } else { 8 };
            let span = if t.coin() { y.len().min(32) } else { y.len() };
            let n = span / w;
            if n >= 2 {
                let (a, b) = (t.below(n as u32) as usize, t.below(n as u32) as usize);
                for k in 0..w {
                    y.swap(a * w + k, b * w + k);
                }
            }
        }
        17 => {
            // a stray CR in front of the line's own CR (same length, same line end position)
            if let Some(p) = cr {
                if p > 0 {
                    let at = t.below(p as u32) as usize;
                    y[at] = b'\r';
                }
            }
        }
        18 | 19 => {
            // binary headers: the first segment only (fixed part and address block, perhaps a few bytes more), or the same
            // header with another byte inside the address block
            if y.len() > 16 && y[..12] == SIG {
                let need = NEED[(y[13] >> 4) as usize & 3];
                if t.coin() {
                    let cut = 16 + need + *t.pick(&[0usize, 0, 1, 3, 7]);
                    if cut < y.len() {
                        y.truncate(cut);
                    }
                } else if need > 0 && y.len() >= 16 + need {
                    let at = 16 + t.below(need as u32) as usize;
                    y[at] = y[at].wrapping_add(1 + t.below(255) as u8);
                }
            } else if !y.is_empty() {
                let at = t.below(y.len() as u32) as usize;
                y[at] = y[at].wrapping_add(1);
            }
        }
        14 | 15 => {
            // the same endpoints spelled differently (TCP6 lines have many legal spellings per address)
            if let Some(z) = respell_v1_line(t, &y) {
                y = z;
            }
        }
        12 | 13 => {
            // the same line without its ending (CRLF, LF or CR stripped), or cut right behind the CR
            match t.below(3) {
                0 => {
                    while matches!(y.last(), Some(b'\r') | Some(b'\n')) {
                        y.pop();
                    }
                }
                1 => {
                    if let Some(p) = cr {
                        y.truncate(p);
                    }
                }
                _ => {
                    if let Some(p) = cr {
                        y.truncate(p + 1);
                    }
                }
            }
        }
        0 => {}
        1 | 2 => {
            // one more digit at the end of the last field (just before the first CR, else at the very end)
            let at = cr.unwrap_or(y.len());
            y.insert(at, b'0' + t.below(10) as u8);
        }
        3 => {
            // the last field loses its last character
            let at = cr.unwrap_or(y.len());
            if at > 0 {
                y.remove(at - 1);
            }
        }
        4 => {
            if !y.is_empty() {
                let at = t.below(y.len() as u32) as usize;
                y[at] = *t.pick(&[b'0', b'1', b'9', b'a', b'f', b':', b'.', b' ', 0u8, 0xff]);
            }
        }
        5 => {
            // same header, different bytes behind it
            let (tr, _) = gen_trailer(t, false);
            let keep = cr.map(|p| (p + 2).min(y.len())).unwrap_or(y.len());
            y.truncate(keep);
            y.extend_from_slice(&tr);
        }
        6 => {
            let k = t.below(y.len() as u32 + 1) as usize;
            y.truncate(k);
        }
        7 => {
            // a digit inside some field changes
            let digits: Vec<usize> = y.iter().enumerate().filter(|(_, b)| b.is_ascii_digit()).map(|(i, _)| i).collect();
            if !digits.is_empty() {
                let at = digits[t.below(digits.len() as u32) as usize];
                y[at] = b'0' + t.below(10) as u8;
            }
        }
        8 => {
            if !y.is_empty() {
                let at = t.below(y.len() as u32) as usize;
                y[at] ^= 1 << t.below(8);
            }
        }
        9 => {
            // case change of the hex digits / keywords
            if t.coin() {
                y.make_ascii_uppercase();
            } else {
                y.make_ascii_lowercase();
            }
        }
        10 => {
            // last byte of the input changes (v2: last payload byte)
            if let Some(b) = y.last_mut() {
                *b = b.wrapping_add(1 + t.below(255) as u8);
            }
        }
        _ => {
            // an extra byte appended
            y.push(t.byte());
        }
    }
    y
}

/// `PROXY TCP6 a b p q CRLF rest` with both addresses in another legal spelling; None for anything else.
pub fn respell_v1_line(t: &mut Tape, x: &[u8]) -> Option<Vec<u8>> {
    let cr = x.iter().position(|&b| b == b'\r')?;
    let line = std::str::from_utf8(&x[..cr]).ok()?;
    let mut f = line.split(' ');
    if f.next()? != "PROXY" || f.next()? != "TCP6" {
        return None;
    }
    let a: std::net::Ipv6Addr = f.next()?.parse().ok()?;
    let b: std::net::Ipv6Addr = f.next()?.parse().ok()?;
    let (p, q) = (f.next()?, f.next()?);
    if f.next().is_some() {
        return None;
    }
    for _ in 0..4 {
        let out = format!("PROXY TCP6 {} {} {} {}", spell_v6(a.segments(), t), spell_v6(b.segments(), t), p, q);
        if out.len() + 2 <= 107 && out != line {
            let mut y = out.into_bytes();
            y.extend_from_slice(&x[cr..]);
            return Some(y);
        }
    }
    None
}

/// A chain: a base input followed by 1..=3 inputs each related to its predecessor (or to the base).
pub fn gen_chain(t: &mut Tape, base: &dyn Fn(&mut Tape) -> Vec<u8>) -> crate::engine::Chain {
    let x0 = base(t);
    let n = 1 + t.below(3) as usize;
    let mut out = vec![x0];
    for _ in 0..n {
        let from = if t.coin() { out.last().unwrap().clone() } else { out[0].clone() };
        out.push(gen_related(t, &from));
    }
    crate::engine::Chain(out)
}

/// G-ANYBYTES: the union of all byte-level generators.
/// The endpoints of a connection written the way people and other tools write them - `ip:port ip:port`,
/// `[v6]:port [v6]:port`, `src=.. dst=..`, JSON, a v1 line without its keyword or without its protocol, fields in another
/// order, other separators - with or without a line end. None of them is a PROXY header; a convenience that accepts one
/// of them through one entry point only is what this class looks for.
pub fn gen_other_notation(t: &mut Tape) -> Vec<u8> {
    let v6 = t.coin();
    let (a, b) = if v6 {
        let (x, y) = gen_v6_pair(t);
        (spell_v6_canonical(x), spell_v6_canonical(y))
    } else {
        let (x, y) = gen_v4_pair(t);
        (spell_v4(x), spell_v4(y))
    };
    let (pa, pb) = (gen_port(t), gen_port(t));
    let fam = if v6 { "TCP6" } else { "TCP4" };
    let (ha, hb) = if v6 { (format!("[{}]", a), format!("[{}]", b)) } else { (a.clone(), b.clone()) };
    let mut s = match t.below(16) {
        0 | 1 => format!("{}:{} {}:{}", ha, pa, hb, pb),
        2 => format!("{}:{} -> {}:{}", ha, pa, hb, pb),
        3 => format!("{}:{},{}:{}", ha, pa, hb, pb),
        4 => format!("{} {} {} {}", a, b, pa, pb),
        5 => format!("{} {} {} {} {}", fam, a, b, pa, pb),
        6 => format!("PROXY {} {} {} {}", a, b, pa, pb),
        7 => format!("PROXY {} {}:{} {}:{}", fam, ha, pa, hb, pb),
        8 => format!("src={} sport={} dst={} dport={}", a, pa, b, pb),
        9 => format!("{{\"src\":\"{}\",\"dst\":\"{}\",\"sport\":{},\"dport\":{}}}", a, b, pa, pb),
        10 => format!("PROXY {} {} {} {} {}", fam, a, pa, b, pb),
        11 => format!("PROXY\t{}\t{}\t{}\t{}\t{}", fam, a, b, pa, pb),
        12 => format!("PROXY,{},{},{},{},{}", fam, a, b, pa, pb),
        13 => format!("{}/{} {}/{}", a, pa, b, pb),
        14 => format!("PROXY {} {} {}", fam, ha, hb),
        _ => format!("{}:{}", ha, pa),
    };
    match t.below(4) {
        0 => {}
        1 => s.push('\n'),
        _ => s.push_str("\r\n"),
    }
    s.into_bytes()
}

pub fn gen_any_bytes(t: &mut Tape) -> (Vec<u8>, &'static str) {
    match t.weighted(&[160, 240, 80, 80, 120, 120, 80, 20, 1]) {
        8 => {
            // a very long run of one short unit (empty lines, blanks, CRs, keywords) in front of a valid line: 20 KiB .. 1 MiB
            let unit: &[u8] = *t.pick(&[&b"\r\n"[..], b"\r\n", b" ", b"\r", b"\n", b"PROXY ", b"\0", b"\r\n\r\n\0\r\nQUIT\n"]);
            let total = match t.below(4) {
                0 => t.usize_in(20_000, 70_000),
                1 => t.usize_in(70_000, 300_000),
                2 => 1 << 20,
                _ => t.usize_in(100, 20_000),
            };
            let mut x = Vec::with_capacity(total + 120);
            while x.len() < total {
                x.extend_from_slice(unit);
            }
            x.extend_from_slice(&gen_valid_line(t, true));
            (x, "huge-leading-run")
        }
        7 => (gen_other_notation(t), "other-notation"),
        0 => {
            let mut x = gen_valid_line(t, false);
            let (tr, _) = gen_trailer(t, false);
            if t.coin() {
                x.extend_from_slice(&tr);
            }
            (x, "v1-valid")
        }
        1 => {
            let (mut x, _) = gen_v1_mutant(t);
            if t.chance(1, 4) {
                let (tr, _) = gen_trailer(t, false);
                x.extend_from_slice(&tr);
            }
            (x, "v1-mutant")
        }
        2 => (gen_tokens(t), "v1-tokens"),
        3 => (gen_random_bytes(t, 300), "random"),
        4 => {
            let mut x = gen_v2_header(t).bytes;
            if t.coin() {
                let (tr, _) = gen_trailer(t, false);
                x.extend_from_slice(&tr);
            }
            (x, "v2-valid")
        }
        5 => {
            let (x, _) = gen_v2_mutant(t);
            (x, "v2-mutant")
        }
        _ => {
            // text followed by a v2 header (one time in three the line lacks its own CRLF: the signature's first two bytes
            // then complete it)
            let mut x = gen_valid_line(t, false);
            if t.chance(1, 3) {
                x.truncate(x.len() - 2);
            }
            x.extend_from_slice(&gen_v2_header(t).bytes);
            (x, "v1-then-v2")
        }
    }
}

/// Valid UTF-8 strings with a multi-byte character right after / before the first CR (2-, 3-, 4-byte).
pub fn gen_multibyte_cr(t: &mut Tape) -> String {
    let head = match t.weighted(&[3, 2, 2, 2]) {
        0 => "PROXY UNKNOWN".to_string(),
        1 => "PROXY TCP4 1.1.1.1 2.2.2.2 1 2".to_string(),
        2 => String::from_utf8_lossy(&gen_tokens(t)).replace('\r', "").to_string(),
        _ => {
            let l = gen_valid_line(t, false);
            String::from_utf8_lossy(&l[..l.len() - 2]).to_string()
        }
    };
    let c = *t.pick(&['\u{e9}', '\u{20ac}', '\u{1f600}', '\u{80}', '\u{7ff}', '\u{800}', '\u{10000}', '\u{10d}', '\u{10a}', '\u{120}', '\u{200d}']);
    // one head in eight carries something text tooling adds or ignores in front (a byte order mark, a zero-width space)
    let mut s = if t.chance(1, 8) { format!("{}{}", t.pick(&["\u{feff}", "\u{200b}", "\u{feff}\u{feff}", "\u{a0}"]), head) } else { head };
    match t.below(4) {
        0 => {
            s.push('\r');
            s.push(c);
        }
        1 => {
            s.push(c);
            s.push('\r');
        }
        2 => {
            s.push(c);
            s.push('\r');
            s.push(c);
        }
        _ => {
            s.push('\r');
            s.push(c);
            s.push('\n');
        }
    }
    if t.coin() {
        s.push_str("tail\r\n");
    }
    s
}
