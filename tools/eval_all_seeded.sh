#!/bin/sh
# tools/eval_all_seeded.sh [parallelism] : evaluate every seeded change under /verif/seeded against all 20 quick checks
# (scratch copies only; /repo is never touched); writes seeded/<id>/eval.txt and rewrites seeded/<id>/meta.json + seeded/TABLE.md
cd "$(dirname "$0")/.." || exit 2
P="${1:-5}"
ls -d seeded/*/ | sed 's#/$##' | xargs -P "$P" -I{} sh -c 'tools/mutant_eval.sh {} > {}/eval.txt 2>&1'
python3 tools/seeded_meta.py
