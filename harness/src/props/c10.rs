//! C10 — builder output is the in-order concatenation of what was written, nothing else.

use crate::bld::{self, Ctor, History, Op, Val};
use crate::engine::{CaseIo, Fail, Runner, Stats, Tape, Verdict};
use crate::imp;
use crate::oracle::enc;
use crate::oracle::v2::{RefAddr2, NEED};
use crate::props::c09::shape_h;
use ppp::v2::WriteToHeader;

fn same_except_length(a: &[u8], b: &[u8]) -> bool {
    a.len() == b.len() && a.len() >= 16 && a[..14] == b[..14] && a[16..] == b[16..]
}

fn first_diff(a: &[u8], b: &[u8]) -> String {
    if a.len() != b.len() {
        return format!("lengths {} vs {}", a.len(), b.len());
    }
    for i in 0..a.len() {
        if a[i] != b[i] && !(14..16).contains(&i) {
            return format!("first difference at byte {}: {:#04x} vs {:#04x}", i, a[i], b[i]);
        }
    }
    "equal".into()
}

/// Metamorphic twins of a history; each must build the same bytes (bytes 14..16 aside).
fn twins(h: &History) -> Vec<(&'static str, History)> {
    let mut out = Vec::new();
    // 1. drop all capacity reservations
    if h.ops.iter().any(|o| matches!(o, Op::Reserve(_))) {
        let mut t = h.clone();
        t.ops.retain(|o| !matches!(o, Op::Reserve(_)));
        out.push(("drop-reserve", t));
    }
    // 1b. add reservations everywhere
    {
        let mut t = h.clone();
        let mut ops = vec![Op::Reserve(17)];
        for o in &h.ops {
            ops.push(o.clone());
            ops.push(Op::Reserve(5));
        }
        t.ops = ops;
        out.push(("add-reserve", t));
    }
    // 2. unbatch every write_payloads
    if h.ops.iter().any(|o| matches!(o, Op::Payloads { .. })) {
        let mut t = h.clone();
        t.ops = Vec::new();
        for o in &h.ops {
            match o {
                Op::Payloads { vs, .. } => {
                    for v in vs {
                        t.ops.push(Op::Payload { v: v.clone(), by_ref: false });
                    }
                }
                o => t.ops.push(o.clone()),
            }
        }
        out.push(("unbatch", t));
    }
    // 2b. batch runs of consecutive single payloads
    if h.ops.windows(2).any(|w| matches!(w[0], Op::Payload { .. }) && matches!(w[1], Op::Payload { .. })) {
        let mut t = h.clone();
        t.ops = Vec::new();
        let mut run: Vec<Val> = Vec::new();
        for o in &h.ops {
            match o {
                Op::Payload { v, .. } => run.push(v.clone()),
                o => {
                    if !run.is_empty() {
                        t.ops.push(Op::Payloads { vs: std::mem::take(&mut run), native: false });
                    }
                    t.ops.push(o.clone());
                }
            }
        }
        if !run.is_empty() {
            t.ops.push(Op::Payloads { vs: run, native: false });
        }
        out.push(("batch", t));
    }
    // 3. swap the three spellings of a TLV
    if h.ops.iter().any(|o| matches!(o, Op::Payload { v: Val::Tlv { .. } | Val::TupleU8 { .. } | Val::TupleType { .. }, .. } | Op::WriteTlv { .. } | Op::WriteTlvType { .. })) {
        let mut t = h.clone();
        for o in t.ops.iter_mut() {
            *o = match o.clone() {
                Op::Payload { v: Val::Tlv { kind, len, seed }, .. } => Op::WriteTlv { kind, len, seed },
                Op::Payload { v: Val::TupleU8 { kind, len, seed }, by_ref } => Op::Payload { v: Val::Tlv { kind, len, seed }, by_ref },
                Op::Payload { v: Val::TupleType { ty, len, seed }, .. } => Op::WriteTlvType { ty, len, seed },
                Op::WriteTlv { kind, len, seed } => Op::Payload { v: Val::TupleU8 { kind, len, seed }, by_ref: false },
                Op::WriteTlvType { ty, len, seed } => Op::Payload { v: Val::TupleType { ty, len, seed }, by_ref: true },
                o => o,
            };
        }
        out.push(("tlv-spelling", t));
    }
    // 4. with_addresses(vc, p, a)  <->  new(vc, fam|p) + write_payload(a)
    if let Ctor::WithAddresses { vc, proto, addr } = &h.ctor {
        let mut t = h.clone();
        t.ctor = Ctor::New { vc: *vc, afp: (enc::family_code(addr) << 4) | *proto };
        t.ops.insert(0, Op::Payload { v: Val::Addr(addr.clone()), by_ref: false });
        out.push(("ctor-addresses", t));
    }
    // 5. P <-> &P
    if h.ops.iter().any(|o| matches!(o, Op::Payload { .. })) {
        let mut t = h.clone();
        for o in t.ops.iter_mut() {
            if let Op::Payload { by_ref, .. } = o {
                *by_ref = !*by_ref;
            }
        }
        out.push(("by-ref", t));
    }
    out
}

/// Records whose content depends on when they are produced: each carries the running offset at which it starts, read from
/// a counter that the previous record's `write_to` advanced. Written one at a time, or as a batch through a lazy iterator
/// (which the builder has to consume item by item: produce, encode, produce, encode), they come out the same.
fn lazy_batch_relation(n: usize, salt: u8) -> Result<(), (Vec<u8>, Vec<u8>)> {
    use ppp::v2::{Builder, WriteToHeader, Writer};
    use std::cell::Cell;
    struct Rec<'a> {
        start: usize,
        len: usize,
        pos: &'a Cell<usize>,
    }
    impl<'a> WriteToHeader for Rec<'a> {
        fn write_to(&self, w: &mut Writer) -> std::io::Result<usize> {
            let mut out = (self.start as u32).to_be_bytes().to_vec();
            out.resize(4 + self.len, 0x2e);
            std::io::Write::write_all(w, &out)?;
            self.pos.set(self.pos.get() + out.len());
            Ok(out.len())
        }
    }
    let lens: Vec<usize> = (0..n).map(|i| (i * 7 + salt as usize) % 11).collect();
    let one = Cell::new(0usize);
    let mut b = Builder::new(0x21, 0x00);
    for &len in &lens {
        b = b.write_payload(Rec { start: one.get(), len, pos: &one }).map_err(|_| (vec![], vec![]))?;
    }
    let single = b.build().map_err(|_| (vec![], vec![]))?;
    let two = Cell::new(0usize);
    let mut it = lens.iter();
    let batch = Builder::new(0x21, 0x00)
        .write_payloads(std::iter::from_fn(|| it.next().map(|&len| Rec { start: two.get(), len, pos: &two })))
        .and_then(|b| b.build())
        .map_err(|_| (single.clone(), vec![]))?;
    if single == batch {
        Ok(())
    } else {
        Err((single, batch))
    }
}

pub fn judge(h: &History, st: &mut Stats) -> Verdict {
    st.eval();
    let entry = "v2::Builder call history";
    // batch vs one at a time for payloads produced lazily (independent of the history; its length picks the batch size)
    if st.evals % 16 == 0 {
        let n = 2 + h.ops.len() % 6 + if h.ops.len() % 5 == 0 { 4200 } else { 0 };
        if let Ok(Err((single, batch))) = crate::engine::guard(|| lazy_batch_relation(n, h.ops.len() as u8)) {
            return Err(Fail::new(
                "batch-differs-from-single-writes:lazy-records",
                format!("lazy-batch-of-{}", if n > 4000 { "thousands" } else { "few" }),
                "Builder::write_payloads(lazy iterator) vs write_payload, item by item",
                format!("the same {} bytes either way", single.len()),
                format!("{} bytes as a batch; first difference at byte {}", batch.len(), single.iter().zip(batch.iter()).position(|(a, b)| a != b).unwrap_or(single.len().min(batch.len()))),
            ));
        }
    }
    let trace = bld::execute(h);
    let built = match &trace.build {
        Some(Ok(b)) => b,
        _ => {
            // a failing history is outside C10's statement; an unexpected failure exercised nothing
            let (_, _, addr) = bld::ctor_parts(&h.ctor);
            let total: usize = NEED[enc::family_code(&addr) as usize] + h.ops.iter().flat_map(bld::op_values).map(|v| bld::ref_size(&v)).sum::<usize>();
            let refused = h.ops.iter().flat_map(bld::op_values).any(|v| bld::must_refuse(&v));
            if !refused && total <= 65535 {
                st.discard();
            } else {
                st.class("history-fails(expected)");
            }
            return Ok(());
        }
    };
    // expected bytes: fixed prefix, (length field), constructor address block, then each payload's reference encoding
    let (vc, afp, addr) = bld::ctor_parts(&h.ctor);
    let mut expected = bld::fixed_prefix(vc, afp);
    expected.extend_from_slice(&[0, 0]);
    expected.extend_from_slice(&enc::enc_addr(&addr));
    let mut kinds = std::collections::HashSet::new();
    let mut writes = 0;
    let mut explicit: Option<u16> = None;
    for op in &h.ops {
        for v in bld::op_values(op) {
            match bld::ref_encoding(&v) {
                Some(b) => expected.extend_from_slice(&b),
                None => return Ok(()), // an oversize value was accepted: C09 reports that
            }
            kinds.insert(std::mem::discriminant(&v));
        }
        match op {
            Op::SetLength(x) => explicit = *x,
            Op::Reserve(_) => {}
            _ => writes += 1,
        }
    }
    let has_batch = h.ops.iter().any(|o| matches!(o, Op::Payloads { vs, .. } if vs.len() >= 2));
    let reserve_between = h.ops.iter().skip_while(|o| matches!(o, Op::Reserve(_) | Op::SetLength(_))).any(|o| matches!(o, Op::Reserve(_)));
    if (writes >= 2 && kinds.len() >= 2) || has_batch || reserve_between {
        st.nontrivial(h.digest());
    }
    if has_batch {
        st.class("has-batch");
    }
    if reserve_between {
        st.class("reserve-after-first-write");
    }
    if matches!(h.ctor, Ctor::WithAddresses { .. }) {
        st.class("with_addresses");
    }
    st.class("history-succeeds");
    st.sample("history", || imp::short(&h.to_json().to_string()));
    if !same_except_length(built, &expected) {
        return Err(Fail::new(
            "not-the-concatenation",
            shape_h(h),
            entry,
            format!("signature, control bytes, length, constructor addresses, then each payload's encoding in call order ({} bytes)", expected.len()),
            format!("{} bytes; {}", built.len(), first_diff(built, &expected)),
        ));
    }
    // the length field itself: the explicit length in force, else the number of bytes after the fixed part
    let field = ((built[14] as usize) << 8) | built[15] as usize;
    let want_field = explicit.map(|x| x as usize).unwrap_or(built.len() - 16);
    if field != want_field {
        return Err(Fail::new(
            "length-field",
            shape_h(h),
            entry,
            format!("length field {} ({})", want_field, if explicit.is_some() { "the explicit length in force" } else { "bytes after the fixed part" }),
            format!("length field {}", field),
        ));
    }
    for (name, twin) in twins(h) {
        let tt = bld::execute(&twin);
        match &tt.build {
            Some(Ok(b2)) if same_except_length(b2, built) => {}
            other => {
                return Err(Fail::new(
                    format!("twin-differs:{}", name),
                    shape_h(h),
                    entry,
                    format!("the {} twin builds the same bytes", name),
                    match other {
                        Some(Ok(b2)) => format!("different output; {}", first_diff(b2, built)),
                        Some(Err(e)) => format!("twin build Err({})", e),
                        None => format!("twin failed at op {:?}", tt.ops.last()),
                    },
                ))
            }
        }
        st.class(&format!("twin-{}", name));
    }
    Ok(())
}

pub fn gen_case(t: &mut Tape) -> History {
    // one history in five is built in phases around the 65535-byte threshold (see bld::gen_history_phased)
    if t.chance(1, 5) {
        return bld::gen_history_phased(t);
    }
    bld::gen_history(t, 10)
}

pub fn run(r: &mut Runner) -> &'static str {
    r.rule = "histories as for C09 (big values rarer). oracle: expected bytes = signature, the two control bytes (family nibble from the constructor's address value), [length field ignored: C09], \
              constructor address block, then each payload's wire encoding by the reference encoders R-ENC, in call order - compared with every byte of the output; the length field must be the explicit length in force or the byte count; plus \
              metamorphic twins run on the same history (drop / add reserve_capacity, unbatch / batch, swap TLV struct <-> tuple <-> write_tlv, with_addresses <-> new + write_payload(addresses), \
              P <-> &P) that must build identical bytes. non-trivial = at least two writes of different kinds, or a batch of >= 2, or a reserve after the first write; distinct by SipHash Added later: the same phased / related histories as C09, owned TLVs, batches through filter / from_fn iterators."
        .into();
    r.assumptions.push("trusted: reference encoders in harness/src/oracle/enc.rs (shared with C20 and C07); a partly consumed TypeLengthValues iterator still stands for its whole section".into());
    let n = r.n(120_000, 3_000_000);
    r.random("c10.histories", n, 260, &gen_case, &judge);
    // directed: fill the buffer to within 0..3 bytes of a full-size header, then write one small value of each kind
    let work = |shard: usize, nshards: usize, st: &mut Stats, _stop: &std::sync::atomic::AtomicBool| -> Option<(History, Fail)> {
        let smalls: Vec<Val> = vec![
            Val::Type(3),
            Val::Int { ty: 0, image: 0xAB },
            Val::Int { ty: 2, image: 0x01020304 },
            Val::Int { ty: 10, image: 7 },
            Val::Tlv { kind: 9, len: 0, seed: 1 },
            Val::TupleU8 { kind: 9, len: 1, seed: 3 },
            Val::TupleType { ty: 4, len: 2, seed: 3 },
            Val::Bytes { len: 1, seed: 5 },
            Val::Bytes { len: 0, seed: 5 },
            Val::Section { len: 2, seed: 7 },
            Val::Tlvs { items: vec![(1, 1, 9)], advance: 1 },
            Val::Addr(RefAddr2::V4 { src: [1, 2, 3, 4], dst: [5, 6, 7, 8], sport: 9, dport: 10 }),
        ];
        let ctors = [Ctor::New { vc: 0x21, afp: 0x00 }, Ctor::WithAddresses { vc: 0x20, proto: 2, addr: RefAddr2::V4 { src: [9, 9, 9, 9], dst: [8, 8, 8, 8], sport: 1, dport: 2 } }];
        let mut idx = 0usize;
        for ctor in &ctors {
            let base = match ctor {
                Ctor::New { .. } => 0usize,
                _ => 12,
            };
            for k in 0..=3usize {
                for small in &smalls {
                    for variant in 0..4 {
                        idx += 1;
                        if idx % nshards != shard {
                            continue;
                        }
                        let big = Op::Payload { v: Val::Bytes { len: 65535 - base - k, seed: 11 }, by_ref: false };
                        let sm = Op::Payload { v: small.clone(), by_ref: variant % 2 == 1 };
                        let ops = match variant {
                            0 => vec![Op::SetLength(Some(9)), big, sm],
                            1 => vec![big, sm, Op::SetLength(Some(65535))],
                            2 => vec![big, Op::Payloads { vs: vec![small.clone(), small.clone()], native: false }, Op::SetLength(Some(0))],
                            _ => vec![big, sm],
                        };
                        let h = History { ctor: ctor.clone(), ops };
                        if let Err(f) = judge(&h, st) {
                            return Some((h, f));
                        }
                    }
                }
            }
        }
        None
    };
    r.bulk(
        "c10.at-the-size-limit",
        Some("2 constructors x payload filled to 65535-{0,1,2,3} bytes x one small value of each of 12 kinds x 4 variants (explicit length before / after, batch of two, no explicit length)"),
        &work,
        &judge,
    );
    "exploration"
}
