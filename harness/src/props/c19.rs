//! C19 — constructors and socket-address conversions keep every endpoint in its role.

use crate::engine::{fill, CaseIo, Fail, Runner, Stats, Tape, Verdict};
use ppp::{v1, v2};
use serde_json::json;
use std::net::{Ipv4Addr, Ipv6Addr, SocketAddr, SocketAddrV4, SocketAddrV6};

#[derive(Clone, Debug)]
pub struct Case {
    pub a4: [u8; 4],
    pub b4: [u8; 4],
    pub a6: [u16; 8],
    pub b6: [u16; 8],
    pub sp: u16,
    pub dp: u16,
    pub flow: [u32; 2],
    pub scope: [u32; 2],
    pub unix_seed: [u32; 2],
}

impl CaseIo for Case {
    fn to_json(&self) -> serde_json::Value {
        json!({"a4": self.a4, "b4": self.b4, "a6": self.a6, "b6": self.b6, "sp": self.sp, "dp": self.dp, "flow": self.flow, "scope": self.scope, "unix_seed": self.unix_seed})
    }
    fn from_json(v: &serde_json::Value) -> Option<Self> {
        fn arr<const N: usize, T: Copy + Default + TryFrom<u64>>(v: &serde_json::Value) -> Option<[T; N]> {
            let a = v.as_array()?;
            let mut o = [T::default(); N];
            for i in 0..N {
                o[i] = T::try_from(a.get(i)?.as_u64()?).ok()?;
            }
            Some(o)
        }
        Some(Case {
            a4: arr::<4, u8>(v.get("a4")?)?,
            b4: arr::<4, u8>(v.get("b4")?)?,
            a6: arr::<8, u16>(v.get("a6")?)?,
            b6: arr::<8, u16>(v.get("b6")?)?,
            sp: v.get("sp")?.as_u64()? as u16,
            dp: v.get("dp")?.as_u64()? as u16,
            flow: arr::<2, u32>(v.get("flow")?)?,
            scope: arr::<2, u32>(v.get("scope")?)?,
            unix_seed: arr::<2, u32>(v.get("unix_seed")?)?,
        })
    }
}

pub fn judge(c: &Case, st: &mut Stats) -> Verdict {
    st.eval();
    let distinct = c.a4 != c.b4 && c.a6 != c.b6 && c.sp != c.dp && c.unix_seed[0] != c.unix_seed[1];
    if c.a4 == [0; 4] && c.b4 == [0; 4] && c.sp == 0 && c.dp == 0 {
        st.class("ipv4-all-zero-block");
    }
    if c.a6 == [0; 8] && c.b6 == [0; 8] && c.sp == 0 && c.dp == 0 {
        st.class("ipv6-all-zero-block");
    }
    if c.scope[0] != 0 && c.a6.iter().any(|g| *g as u32 == c.scope[0]) {
        st.class("scope-id-equals-a-group");
    }
    if distinct {
        st.nontrivial(c.digest());
        st.class("all-components-distinct");
    }
    st.sample("tuple", || c.to_json().to_string());
    let fail = |what: &str, exp: String, obs: String| Err(Fail::new(what, "", what, exp, obs));
    let (sa4, da4) = (Ipv4Addr::from(c.a4), Ipv4Addr::from(c.b4));
    let (sa6, da6) = (Ipv6Addr::from(c.a6), Ipv6Addr::from(c.b6));
    let (sp, dp) = (c.sp, c.dp);
    let ok4 = |x: &v1::IPv4| x.source_address == sa4 && x.destination_address == da4 && x.source_port == sp && x.destination_port == dp;
    let ok6 = |x: &v1::IPv6| x.source_address == sa6 && x.destination_address == da6 && x.source_port == sp && x.destination_port == dp;
    let want4 = format!("src {}:{} dst {}:{}", sa4, sp, da4, dp);
    let want6 = format!("src [{}]:{} dst [{}]:{}", sa6, sp, da6, dp);

    // IPv4::new with each T: Into<Ipv4Addr>
    for (name, v) in [
        ("IPv4::new(Ipv4Addr)", v1::IPv4::new(sa4, da4, sp, dp)),
        ("IPv4::new([u8;4])", v1::IPv4::new(c.a4, c.b4, sp, dp)),
        ("IPv4::new(u32)", v1::IPv4::new(u32::from_be_bytes(c.a4), u32::from_be_bytes(c.b4), sp, dp)),
        ("v2::IPv4::new(Ipv4Addr)", v2::IPv4::new(sa4, da4, sp, dp)),
    ] {
        if !ok4(&v) {
            return fail(name, want4.clone(), format!("{:?}", v));
        }
    }
    for (name, v) in [
        ("IPv6::new(Ipv6Addr)", v1::IPv6::new(sa6, da6, sp, dp)),
        ("IPv6::new([u16;8])", v1::IPv6::new(c.a6, c.b6, sp, dp)),
        ("IPv6::new([u8;16])", v1::IPv6::new(sa6.octets(), da6.octets(), sp, dp)),
        ("IPv6::new(u128)", v1::IPv6::new(u128::from(sa6), u128::from(da6), sp, dp)),
        ("v2::IPv6::new(Ipv6Addr)", v2::IPv6::new(sa6, da6, sp, dp)),
    ] {
        if !ok6(&v) {
            return fail(name, want6.clone(), format!("{:?}", v));
        }
    }
    // v1::Addresses constructors and From impls
    match v1::Addresses::new_tcp4(sa4, da4, sp, dp) {
        v1::Addresses::Tcp4(x) if ok4(&x) => {}
        o => return fail("v1::Addresses::new_tcp4", want4.clone(), format!("{:?}", o)),
    }
    match v1::Addresses::new_tcp4(c.a4, c.b4, sp, dp) {
        v1::Addresses::Tcp4(x) if ok4(&x) => {}
        o => return fail("v1::Addresses::new_tcp4([u8;4])", want4.clone(), format!("{:?}", o)),
    }
    match v1::Addresses::new_tcp6(sa6, da6, sp, dp) {
        v1::Addresses::Tcp6(x) if ok6(&x) => {}
        o => return fail("v1::Addresses::new_tcp6", want6.clone(), format!("{:?}", o)),
    }
    match v1::Addresses::new_tcp6(c.a6, c.b6, sp, dp) {
        v1::Addresses::Tcp6(x) if ok6(&x) => {}
        o => return fail("v1::Addresses::new_tcp6([u16;8])", want6.clone(), format!("{:?}", o)),
    }
    match v1::Addresses::from(v1::IPv4::new(sa4, da4, sp, dp)) {
        v1::Addresses::Tcp4(x) if ok4(&x) => {}
        o => return fail("v1::Addresses::from(IPv4)", want4.clone(), format!("{:?}", o)),
    }
    match v1::Addresses::from(v1::IPv6::new(sa6, da6, sp, dp)) {
        v1::Addresses::Tcp6(x) if ok6(&x) => {}
        o => return fail("v1::Addresses::from(IPv6)", want6.clone(), format!("{:?}", o)),
    }
    match v2::Addresses::from(v2::IPv4::new(sa4, da4, sp, dp)) {
        v2::Addresses::IPv4(x) if ok4(&x) => {}
        o => return fail("v2::Addresses::from(IPv4)", want4.clone(), format!("{:?}", o)),
    }
    match v2::Addresses::from(v2::IPv6::new(sa6, da6, sp, dp)) {
        v2::Addresses::IPv6(x) if ok6(&x) => {}
        o => return fail("v2::Addresses::from(IPv6)", want6.clone(), format!("{:?}", o)),
    }
    if v1::Addresses::default() != v1::Addresses::Unknown {
        return fail("v1::Addresses::default", "Unknown".into(), "other".into());
    }
    // Unix
    let mut us = [0u8; 108];
    let mut ud = [0u8; 108];
    us.copy_from_slice(&unix_path(c.unix_seed[0]));
    ud.copy_from_slice(&unix_path(c.unix_seed[1]));
    let u = v2::Unix::new(us, ud);
    if u.source != us || u.destination != ud {
        return fail("v2::Unix::new", "source, destination as given".into(), "swapped or altered".into());
    }
    match v2::Addresses::from(u) {
        v2::Addresses::Unix(x) if x.source == us && x.destination == ud => {}
        _ => return fail("v2::Addresses::from(Unix)", "Unix with the same paths".into(), "other".into()),
    }
    // socket address pairs
    let s4 = SocketAddr::V4(SocketAddrV4::new(sa4, sp));
    let d4 = SocketAddr::V4(SocketAddrV4::new(da4, dp));
    let s6 = SocketAddr::V6(SocketAddrV6::new(sa6, sp, c.flow[0], c.scope[0]));
    let d6 = SocketAddr::V6(SocketAddrV6::new(da6, dp, c.flow[1], c.scope[1]));
    // each pair is converted three times in a row (a relay converts the same flow for every packet; while other
    // threads convert theirs)
    for _ in 0..3 {
        match (v1::Addresses::from((s4, d4)), v2::Addresses::from((s4, d4))) {
            (v1::Addresses::Tcp4(x), v2::Addresses::IPv4(y)) if ok4(&x) && ok4(&y) && x == y => {}
            o => return fail("From<(SocketAddr::V4, SocketAddr::V4)>", want4, format!("{:?}", o)),
        }
    }
    for _ in 0..3 {
        match (v1::Addresses::from((s6, d6)), v2::Addresses::from((s6, d6))) {
            (v1::Addresses::Tcp6(x), v2::Addresses::IPv6(y)) if ok6(&x) && ok6(&y) && x == y => {}
            o => return fail("From<(SocketAddr::V6, SocketAddr::V6)>", want6, format!("{:?}", o)),
        }
    }
    for (a, b) in [(s4, d6), (s6, d4)] {
        match (v1::Addresses::from((a, b)), v2::Addresses::from((a, b))) {
            (v1::Addresses::Unknown, v2::Addresses::Unspecified) => {}
            o => return fail("From<(mixed SocketAddr pair)>", "Unknown / Unspecified".into(), format!("{:?}", o)),
        }
    }
    // v1::Header::new takes anything that converts into Addresses: the header keeps the text as given and the converted
    // value unchanged, whatever the text says
    let canon4 = format!("PROXY TCP4 {} {} {} {}\r\n", sa4, da4, sp, dp);
    for text in ["PROXY UNKNOWN\r\n", canon4.as_str(), "", "PROXY TCP6 ::1 ::2 1 2\r\n"] {
        let h = v1::Header::new(text, v1::IPv4::new(sa4, da4, sp, dp));
        match h.addresses {
            v1::Addresses::Tcp4(x) if ok4(&x) && h.header == text => {}
            o => return fail("v1::Header::new(text, IPv4)", format!("{} with header text {:?}", format!("src {}:{} dst {}:{}", sa4, sp, da4, dp), text), format!("{:?} / {:?}", o, h.header)),
        }
        let h = v1::Header::new(text, v1::IPv6::new(sa6, da6, sp, dp));
        match h.addresses {
            v1::Addresses::Tcp6(x) if ok6(&x) && h.header == text => {}
            o => return fail("v1::Header::new(text, IPv6)", format!("src [{}]:{} dst [{}]:{}", sa6, sp, da6, dp), format!("{:?} / {:?}", o, h.header)),
        }
        let h = v1::Header::new(text, (s4, d4));
        match h.addresses {
            v1::Addresses::Tcp4(x) if ok4(&x) && h.header == text => {}
            o => return fail("v1::Header::new(text, (SocketAddr, SocketAddr))", format!("Tcp4 src {}:{} dst {}:{}", sa4, sp, da4, dp), format!("{:?} / {:?}", o, h.header)),
        }
        let h = v1::Header::new(text, (s6, d6));
        match h.addresses {
            v1::Addresses::Tcp6(x) if ok6(&x) && h.header == text => {}
            o => return fail("v1::Header::new(text, (SocketAddr, SocketAddr))", format!("Tcp6 src [{}]:{} dst [{}]:{}", sa6, sp, da6, dp), format!("{:?} / {:?}", o, h.header)),
        }
        let h = v1::Header::new(text, v1::Addresses::Unknown);
        if h.addresses != v1::Addresses::Unknown || h.header != text {
            return fail("v1::Header::new(text, Unknown)", "Unknown".into(), format!("{:?}", h.addresses));
        }
    }
    // the builder's constructor takes anything that converts into Addresses as well (the v2 counterpart of Header::new): for
    // every command and transport the header it builds carries these endpoints in these roles
    {
        use ppp::v2::{Builder, Protocol};
        let protos = [Protocol::Unspecified, Protocol::Stream, Protocol::Datagram];
        let vc = 0x20 | ((sp as u8 ^ dp as u8) & 1);
        let proto = protos[(sp as usize + dp as usize) % 3];
        for (name, built) in [
            ("Builder::with_addresses(.., (SocketAddr::V4, SocketAddr::V4))", crate::engine::guard(|| Builder::with_addresses(vc, proto, (s4, d4)).build())),
            ("Builder::with_addresses(.., (SocketAddr::V6, SocketAddr::V6))", crate::engine::guard(|| Builder::with_addresses(vc, proto, (s6, d6)).build())),
            ("Builder::with_addresses(.., IPv4)", crate::engine::guard(|| Builder::with_addresses(vc, proto, v2::IPv4::new(sa4, da4, sp, dp)).build())),
            ("Builder::with_addresses(.., IPv6)", crate::engine::guard(|| Builder::with_addresses(vc, proto, v2::IPv6::new(sa6, da6, sp, dp)).build())),
        ] {
            let v6 = name.contains("V6") || name.contains("IPv6");
            let ok = match &built {
                Ok(Ok(bytes)) => match v2::Header::try_from(&bytes[..]) {
                    Ok(h) => match h.addresses {
                        v2::Addresses::IPv4(y) => !v6 && ok4(&y),
                        v2::Addresses::IPv6(y) => v6 && ok6(&y),
                        _ => false,
                    },
                    Err(_) => false,
                },
                _ => false,
            };
            if !ok {
                return fail(name, if v6 { want6.clone() } else { want4.clone() }, format!("version/command {:#04x}, {:?}: {}", vc, proto, crate::imp::short(&format!("{:?}", built.as_ref().map(|r| r.as_ref().map(|b| b.len()))))));
            }
        }
    }
    st.class("socket-pairs");
    Ok(())
}

/// Unix path bytes by seed class: filler content (random / all zero / all 0xFF / ASCII, see engine::fill), or - for
/// seeds that are 2 mod 8 - a short NUL-terminated path followed by non-zero bytes behind the terminator.
pub fn unix_path(seed: u32) -> Vec<u8> {
    let mut p = fill(seed, 108);
    if seed % 8 == 6 && seed < 0xffff_fff0 {
        // a socket address as people write it in configuration files (with and without a scheme, abstract, relative, doubled
        // or trailing slashes, blanks), NUL-terminated; the rest zero or - for every other seed - non-zero
        const NAMES: [&str; 32] = [
            "\0beef5", "\000000", "\0BEEF5", "\0abcde", "\0fffff", "abns@name", "unix@/run/x.sock", "\0haproxy",
            "/var/run/haproxy.sock", "/run//app.sock", "/run/./app.sock", "/run/app.sock/", "unix:/run/client.sock", "unix:///run/client.sock", "unix://run/x", "unix:",
            "UNIX:/run/x.sock", "@abstract-name", "./relative.sock", "../up.sock", "file:///run/x.sock", "tcp://192.0.2.1:80", "~/.app.sock", " /leading-blank",
            "/trailing-blank ", "/with\nnewline", "/tmp/\u{e9}.sock", "unix:@abstract", "/", "//", "/run/app.sock\r\n", "localhost",
        ];
        let name = NAMES[(seed as usize / 8) % NAMES.len()].as_bytes();
        let garbage = (seed / 8 / NAMES.len() as u32) % 2 == 1;
        for (i, b) in p.iter_mut().enumerate() {
            if i < name.len() {
                *b = name[i];
            } else if i == name.len() || !garbage {
                *b = 0;
            } else if *b == 0 {
                *b = 1;
            }
        }
        return p;
    }
    if seed % 8 == 4 && seed < 0xffff_fff0 {
        // names from other systems (drive letters and backslashes, a pipe name, blanks, escapes), NUL-terminated, zeros or
        // non-zero bytes behind the terminator
        const OTHER: [&str; 8] = ["C:\\ProgramData\\app\\proxy.sock", "c:\\temp\\s", "D:\\", "\\\\.\\pipe\\haproxy", "/var/run/my app.sock", "/run/%2e%2e/x.sock", "z:\\a\\b\\c\\d.sock", "/run/a\\b.sock"];
        let name = OTHER[(seed as usize / 8) % OTHER.len()].as_bytes();
        let garbage = (seed / 64) % 2 == 1;
        for (i, b) in p.iter_mut().enumerate() {
            if i < name.len() {
                *b = name[i];
            } else if i == name.len() || !garbage {
                *b = 0;
            } else if *b == 0 {
                *b = 1;
            }
        }
        return p;
    }
    if seed % 8 == 2 && seed < 0xffff_fff0 {
        let n = 1 + (seed as usize / 8) % 40;
        for (i, b) in p.iter_mut().enumerate() {
            if i < n {
                *b = b'a' + (*b % 26);
            } else if i == n {
                *b = 0;
            } else if *b == 0 {
                *b = 1;
            }
        }
    }
    p
}

const SPECIAL_V6: [[u16; 8]; 12] = [
    [0; 8],
    [0, 0, 0, 0, 0, 0, 0, 1],
    [0xffff; 8],
    [0, 0, 0, 0, 0, 0xffff, 0xc000, 0x0201],
    [0, 0, 0, 0, 0, 0xffff, 0, 0],
    [0, 0, 0, 0, 0, 0, 0xc000, 0x0201],
    [0xfe80, 0, 0, 0, 0, 0, 0, 1],
    [0xfe80, 4, 0, 0, 0, 0, 0, 1],
    [0xff02, 7, 0, 0, 0, 0, 0, 0xfb],
    [0xff01, 0, 0, 0, 0, 0, 0, 1],
    [0x2001, 0xdb8, 0, 0, 0, 0, 0, 2],
    [0x64, 0xff9b, 0, 0, 0, 0, 0xc000, 0x0201],
];
const SPECIAL_V4: [[u8; 4]; 7] = [[0, 0, 0, 0], [127, 0, 0, 1], [255, 255, 255, 255], [192, 0, 2, 1], [169, 254, 0, 1], [224, 0, 0, 251], [10, 0, 0, 0]];

pub fn gen_case(t: &mut Tape) -> Case {
    // one case in six is drawn from special values only (unspecified / loopback / broadcast / mapped / link-local
    // with a zone-like second group, ports 0 / 65535, scope ids equal to a group of the address, all components
    // equal): role swaps are invisible there, but value-dependent rewrites are not
    if t.chance(1, 6) {
        let a6 = *t.pick(&SPECIAL_V6);
        let b6 = match t.below(4) {
            0 => a6,
            1 => {
                // the same prefix (first six groups), another host part
                let mut b = a6;
                b[6] = 0xc633;
                b[7] = 0x6407;
                b
            }
            _ => *t.pick(&SPECIAL_V6),
        };
        let a4 = *t.pick(&SPECIAL_V4);
        let b4 = if t.chance(1, 3) { a4 } else { *t.pick(&SPECIAL_V4) };
        let sp = *t.pick(&[0u16, 0, 1, 65535, 80]);
        let dp = if t.coin() { sp } else { *t.pick(&[0u16, 1, 65535, 443]) };
        let sc = |t: &mut Tape, g: &[u16; 8]| -> u32 {
            match t.below(5) {
                0 => 0,
                1 => g[1] as u32,
                2 => g[7] as u32,
                3 => t.below(16),
                _ => t.u32(),
            }
        };
        let scope = [sc(t, &a6), sc(t, &b6)];
        let flow = [if t.coin() { 0 } else { t.u32() }, if t.coin() { 0 } else { t.u32() }];
        let us = if t.coin() { t.u32() & !7 | 6 } else { crate::engine::gen_seed(t) };
        let ud = if t.chance(1, 3) { us } else if t.coin() { t.u32() & !7 | 6 } else { crate::engine::gen_seed(t) };
        return Case { a4, b4, a6, b6, sp, dp, flow, scope, unix_seed: [us, ud] };
    }
    let (a4, b4) = crate::gen::gen_v4_pair(t);
    let (a6, b6) = crate::gen::gen_v6_pair(t);
    let mut c = Case {
        a4,
        b4,
        a6,
        b6,
        sp: crate::gen::gen_port(t),
        dp: crate::gen::gen_port(t),
        flow: [t.u32(), t.u32()],
        scope: [t.u32(), t.u32()],
        unix_seed: [if t.chance(1, 4) { t.u32() & !7 | 2 } else if t.chance(1, 4) { t.u32() & !7 | 6 } else { crate::engine::gen_seed(t) }, if t.chance(1, 4) { t.u32() & !7 | 2 } else if t.chance(1, 4) { t.u32() & !7 | 6 } else { crate::engine::gen_seed(t) }],
    };
    // zone-like scope ids: equal to one of the address's own groups
    if t.chance(1, 5) {
        c.scope[0] = c.a6[t.below(8) as usize] as u32;
        c.scope[1] = c.b6[t.below(8) as usize] as u32;
        if t.coin() {
            c.a6[0] = *t.pick(&[0xfe80u16, 0xff02, 0xff01, 0xfec0]);
            c.scope[0] = c.a6[1] as u32;
        }
    }
    // pairwise distinct with high probability: swapped roles are invisible otherwise
    if !t.chance(1, 20) {
        if c.a4 == c.b4 {
            c.b4[3] = c.b4[3].wrapping_add(1);
        }
        if c.a6 == c.b6 {
            c.b6[7] = c.b6[7].wrapping_add(1);
        }
        if c.sp == c.dp {
            c.dp = c.dp.wrapping_add(1);
        }
        if c.unix_seed[0] == c.unix_seed[1] {
            c.unix_seed[1] = c.unix_seed[1].wrapping_add(1);
        }
    }
    c
}

pub fn run(r: &mut Runner) -> &'static str {
    r.rule = "inputs: tuples (source address, destination address, source port, destination port) for IPv4 and IPv6, two Unix paths, flow-info / scope ids, with pairwise distinct components (so a transposition is visible). \
              oracle: after IPv4::new (T = Ipv4Addr, [u8;4], u32), IPv6::new (Ipv6Addr, [u16;8], [u8;16], u128), v1 new_tcp4 / new_tcp6, Unix::new, every From<IPv4|IPv6|Unix> and From<(SocketAddr, SocketAddr)> for v1 and v2 \
              (V4/V4, V6/V6 with any flow / scope, mixed both ways), each public field equals the like-named argument; mixed pairs give Unknown / Unspecified; v1 and v2 conversions agree. non-trivial = all components pairwise distinct; distinct by SipHash Added later: special values (unspecified / loopback / mapped / link-local with zone-like groups, equal endpoints, all-zero tuples), Unix path classes, v1::Header::new."
        .into();
    let n = r.n(300_000, 5_000_000);
    r.random("c19.constructors", n, 64, &gen_case, &judge);
    // cross product of special values
    let work = |shard: usize, nshards: usize, st: &mut Stats, _stop: &std::sync::atomic::AtomicBool| -> Option<(Case, Fail)> {
        let ports = [0u16, 1, 65535];
        let mut idx = 0usize;
        for a6 in SPECIAL_V6 {
            for b6 in SPECIAL_V6 {
                for (ai, a4) in SPECIAL_V4.iter().enumerate() {
                    for sp in ports {
                        for dp in ports {
                            for sk in 0..3u32 {
                                idx += 1;
                                if idx % nshards != shard {
                                    continue;
                                }
                                let b4 = SPECIAL_V4[(ai + idx) % SPECIAL_V4.len()];
                                let scope = match sk {
                                    0 => [0, 0],
                                    1 => [a6[1] as u32, b6[1] as u32],
                                    _ => [a6[7] as u32, 7],
                                };
                                let c = Case { a4: *a4, b4: if idx % 4 == 0 { *a4 } else { b4 }, a6, b6, sp, dp, flow: [0, idx as u32], scope, unix_seed: [(idx % 5) as u32, ((idx / 5) % 5) as u32] };
                                if let Err(f) = judge(&c, st) {
                                    return Some((c, f));
                                }
                            }
                        }
                    }
                }
            }
        }
        None
    };
    r.bulk("c19.specials", Some("12 x 12 special IPv6 addresses x 7 special IPv4 addresses x ports {0,1,65535}^2 x 3 scope-id choices (0, second group, last group)"), &work, &judge);
    "exploration"
}
