//! R-V2: table-driven reference for the PROXY protocol v2 fixed part and address block, from the
//! statement of C02/C12/C17 and the specification. Nothing from `ppp` is used here.

pub const SIG: [u8; 12] = [0x0D, 0x0A, 0x0D, 0x0A, 0x00, 0x0D, 0x0A, 0x51, 0x55, 0x49, 0x54, 0x0A];
/// address block size per family nibble 0..=3
pub const NEED: [usize; 4] = [0, 12, 36, 216];

#[derive(Clone, Debug, PartialEq, Eq)]
pub enum RefAddr2 {
    Unspec,
    V4 { src: [u8; 4], dst: [u8; 4], sport: u16, dport: u16 },
    V6 { src: u128, dst: u128, sport: u16, dport: u16 },
    Unix { src: Vec<u8>, dst: Vec<u8> },
}

#[derive(Clone, Debug, PartialEq, Eq)]
pub enum V2Ref {
    Accept { len: usize, cmd: u8, proto: u8, fam: u8, addr: RefAddr2 },
    /// fewer than 16 bytes and still a possible header: number of bytes supplied
    Incomplete(usize),
    /// fixed part complete, payload short: (payload bytes present, declared length)
    Partial(usize, usize),
    Prefix,
    Version(u8),
    Command(u8),
    Family(u8),
    Protocol(u8),
    InvalidAddresses(usize, usize),
}

pub fn decode_addr(fam: u8, b: &[u8]) -> RefAddr2 {
    match fam {
        0 => RefAddr2::Unspec,
        1 => RefAddr2::V4 {
            src: b[0..4].try_into().unwrap(),
            dst: b[4..8].try_into().unwrap(),
            sport: u16::from_be_bytes(b[8..10].try_into().unwrap()),
            dport: u16::from_be_bytes(b[10..12].try_into().unwrap()),
        },
        2 => RefAddr2::V6 {
            src: u128::from_be_bytes(b[0..16].try_into().unwrap()),
            dst: u128::from_be_bytes(b[16..32].try_into().unwrap()),
            sport: u16::from_be_bytes(b[32..34].try_into().unwrap()),
            dport: u16::from_be_bytes(b[34..36].try_into().unwrap()),
        },
        3 => RefAddr2::Unix { src: b[0..108].to_vec(), dst: b[108..216].to_vec() },
        _ => unreachable!(),
    }
}

pub fn v2_ref(input: &[u8]) -> V2Ref {
    let n = input.len();
    let common = n.min(12);
    if input[..common] != SIG[..common] {
        return V2Ref::Prefix;
    }
    if n < 16 {
        return V2Ref::Incomplete(n);
    }
    let (b12, b13) = (input[12], input[13]);
    if b12 >> 4 != 2 {
        return V2Ref::Version(b12 & 0xF0);
    }
    if b12 & 0x0F > 1 {
        return V2Ref::Command(b12 & 0x0F);
    }
    if b13 >> 4 > 3 {
        return V2Ref::Family(b13 & 0xF0);
    }
    if b13 & 0x0F > 2 {
        return V2Ref::Protocol(b13 & 0x0F);
    }
    let len = ((input[14] as usize) << 8) | input[15] as usize;
    let fam = b13 >> 4;
    let need = NEED[fam as usize];
    if len < need {
        return V2Ref::InvalidAddresses(len, need);
    }
    if n < 16 + len {
        return V2Ref::Partial(n - 16, len);
    }
    V2Ref::Accept { len: 16 + len, cmd: b12 & 0x0F, proto: b13 & 0x0F, fam, addr: decode_addr(fam, &input[16..16 + need]) }
}
