//! R-TLV: the textbook type-length-value walk with u64 cursor arithmetic.

#[derive(Clone, Debug, PartialEq, Eq)]
pub enum Item {
    /// kind, value occupies section[start..end]
    Ok { kind: u8, start: usize, end: usize },
    /// fewer than three bytes remain
    Short,
    /// declared value runs past the end
    Overrun { kind: u8, len: u16 },
}

pub fn tlv_ref(section: &[u8]) -> Vec<Item> {
    let n = section.len() as u64;
    let mut cur: u64 = 0;
    let mut out = Vec::new();
    while cur < n {
        if n - cur < 3 {
            out.push(Item::Short);
            break;
        }
        let c = cur as usize;
        let kind = section[c];
        let len = (section[c + 1] as u64) * 256 + section[c + 2] as u64;
        if cur + 3 + len > n {
            out.push(Item::Overrun { kind, len: len as u16 });
            break;
        }
        out.push(Item::Ok { kind, start: c + 3, end: c + 3 + len as usize });
        cur += 3 + len;
    }
    out
}

pub fn well_formed(section: &[u8]) -> bool {
    tlv_ref(section).iter().all(|i| matches!(i, Item::Ok { .. }))
}
