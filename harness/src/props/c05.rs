//! C05 — streaming: every proper prefix of an accepted header is reported incomplete.

use crate::engine::{esc, hex, CaseIo, Fail, Runner, Stats, Tape, Verdict};
use crate::gen;
use crate::imp;
use crate::oracle::v1::{shape, v1_ref, V1Ref};
use crate::oracle::v2::{v2_ref, V2Ref, NEED};
use crate::props::c02::shape2;
use ppp::{v1, v2, HeaderResult, PartialResult};
use serde_json::json;

#[derive(Clone, Debug)]
pub struct Case {
    /// candidate header (complete, nothing after it)
    pub header: Vec<u8>,
    pub trailer: Vec<u8>,
    /// read sizes of the simulated receiver are derived from this
    pub split_seed: u32,
}

impl CaseIo for Case {
    fn to_json(&self) -> serde_json::Value {
        json!({"header_hex": hex(&self.header), "header_esc": esc(&self.header), "trailer_hex": hex(&self.trailer), "split_seed": self.split_seed})
    }
    fn from_json(v: &serde_json::Value) -> Option<Self> {
        // a raw byte file replays as a header with no trailer
        let header = crate::engine::unhex(v.get("header_hex").or_else(|| v.get("input_hex"))?.as_str()?)?;
        let trailer = v.get("trailer_hex").and_then(|t| t.as_str()).and_then(crate::engine::unhex).unwrap_or_default();
        Some(Case { header, trailer, split_seed: v.get("split_seed").and_then(|s| s.as_u64()).unwrap_or(0) as u32 })
    }
    fn simpler(&self) -> Vec<Self> {
        let mut out = Vec::new();
        if !self.trailer.is_empty() {
            out.push(Case { trailer: vec![], ..self.clone() });
        }
        if self.split_seed != 0 {
            out.push(Case { split_seed: 0, ..self.clone() });
        }
        // byte-level simplification of a v1 line (a v2 header's structure would not survive it)
        if self.header.first() == Some(&b'P') {
            for h in crate::engine::simpler_bytes(&self.header) {
                out.push(Case { header: h, ..self.clone() });
            }
        }
        out
    }
    fn digest(&self) -> u64 {
        crate::engine::hash_bytes(&self.header) ^ (self.split_seed as u64).rotate_left(40) ^ crate::engine::hash_bytes(&self.trailer).rotate_left(9)
    }
}

thread_local! {
    /// the previous case's header without its last two bytes (an unfinished header)
    static PREVIOUS: std::cell::RefCell<Vec<u8>> = std::cell::RefCell::new(Vec::new());
}

fn cut_class_v1(h: &[u8], k: usize) -> &'static str {
    if k == 0 {
        "cut-empty"
    } else if k <= 5 {
        "cut-in-keyword"
    } else if h[k - 1] == b' ' {
        "cut-after-space"
    } else if h[k - 1] == b'\r' {
        "cut-after-CR"
    } else {
        "cut-in-field"
    }
}

fn incomplete_flags<T: PartialResult>(r: &T) -> bool {
    r.is_incomplete() && !r.is_complete()
}

/// Read sizes for the receiver simulation.
fn reads(total: usize, seed: u32) -> Vec<usize> {
    let mut out = Vec::new();
    let mut left = total;
    let mut x = seed as u64 | 1;
    let mode = seed % 4;
    while left > 0 {
        x ^= x << 13;
        x ^= x >> 7;
        x ^= x << 17;
        let n = match mode {
            0 => 1,
            1 => left,
            2 => 1 + (x % 7) as usize,
            _ => 1 + (x % 4096) as usize,
        };
        let n = n.min(left);
        out.push(n);
        left -= n;
    }
    out
}

pub fn judge(c: &Case, st: &mut Stats) -> Verdict {
    // the whole stream (header ++ trailer) lives in this thread's reusable read buffer; the header, its prefixes and the
    // receiver's growing buffer are all slices of it that start at the same address
    let mut full = c.header.clone();
    full.extend_from_slice(&c.trailer);
    crate::engine::in_arena(&full, |stream| judge_at(c, &stream[..c.header.len()], stream, st))
}

fn judge_at(c: &Case, h: &[u8], stream: &Vec<u8>, st: &mut Stats) -> Verdict {
    // one-shot
    let one = imp::auto(h);
    // "its header bytes": the candidate is a complete header on the wire (v1: the line through its CRLF, v2: 16 + the
    // declared length) when the reference says so; an implementation that accepts it but reports fewer header bytes
    // still owes "incomplete" for every proper prefix of the wire header (else a receiver stops early)
    let wire_complete = matches!(v1_ref(h), V1Ref::Accept { len, .. } if len == h.len()) || matches!(v2_ref(h), V2Ref::Accept { len, .. } if len == h.len());
    let (is_v1, mut accepted) = match &one {
        Ok(HeaderResult::V1(Ok(x))) => (true, x.header.len() == h.len() || wire_complete),
        Ok(HeaderResult::V2(Ok(x))) => (false, x.header.len() == h.len() || wire_complete),
        _ => (false, false),
    };
    // A candidate the reference does not call a header but the parser accepts (a leniency): "its header bytes" are then the
    // bytes of the input up to where the reported header ends - the reported text may start behind something the parser
    // skipped, or end before bytes that merely follow. Every proper prefix of THAT is owed an incomplete result.
    let mut h = h;
    if !accepted {
        let reported: Option<&[u8]> = match &one {
            Ok(HeaderResult::V1(Ok(x))) => Some(x.header.as_bytes()),
            Ok(HeaderResult::V2(Ok(x))) => Some(x.header.as_ref()),
            _ => None,
        };
        if let Some(rep) = reported {
            if !rep.is_empty() && rep.len() <= h.len() {
                if let Some(at) = h.windows(rep.len()).position(|w| w == rep) {
                    h = &h[..at + rep.len()];
                    accepted = true;
                    st.class("accepted-although-the-reference-rejects");
                }
            }
        }
    }
    if !accepted {
        // not an accepted complete header: C01/C02 report it if the reference disagrees
        if matches!(v1_ref(h), V1Ref::Accept { len, .. } if len == h.len()) || matches!(v2_ref(h), V2Ref::Accept { len, .. } if len == h.len()) {
            st.discard();
        } else {
            st.class("candidate-not-accepted");
        }
        return Ok(());
    }
    if is_v1 && !h.is_ascii() {
        // the statement quantifies over US-ASCII v1 lines
        st.class("skipped-non-ascii-v1");
        return Ok(());
    }
    st.eval();
    st.nontrivial(c.digest());
    st.class(if is_v1 { "v1-header" } else { "v2-header" });
    st.sample(if is_v1 { "v1-header" } else { "v2-header" }, || format!("{} ({} bytes) split_seed={}", esc(&h[..h.len().min(110)]), h.len(), c.split_seed));
    let sh = |i: &[u8]| if is_v1 { shape(i) } else { shape2(i) };

    // one case in four: the receiver has just accepted twenty headers of the OTHER version (a listener that serves both;
    // what was accepted before must not change how this header's prefixes are classified)
    if st.evals % 4 == 0 {
        let other: Vec<u8> = if is_v1 {
            let mut v = crate::oracle::v2::SIG.to_vec();
            v.extend_from_slice(&[0x21, 0x11, 0, 12, 10, 0, 0, 1, 10, 0, 0, 2, 0, 80, 1, 187]);
            v
        } else {
            b"PROXY TCP4 127.0.0.1 192.168.1.1 80 443\r\n".to_vec()
        };
        for _ in 0..20 {
            let _ = imp::auto(&other);
        }
    }
    // ---- every proper prefix (the statement demands a result flagged incomplete there: a panic is none)
    for k in 0..h.len() {
        let p = &h[..k];
        let fail = |entry: &str, obs: String| {
            Err(Fail::new(
                format!("prefix-not-incomplete:{}", entry),
                sh(p),
                entry,
                format!("prefix of {} of the {} header bytes: an error flagged incomplete (is_incomplete, !is_complete)", k, h.len()),
                obs,
            ))
        };
        if is_v1 {
            let r = imp::v1_bytes(p);
            match &r {
                Ok(x) if x.is_err() && incomplete_flags(x) => {}
                Err(p) => return fail("v1::try_from(&[u8])", format!("panic: {}", p)),
                Ok(x) => return fail("v1::try_from(&[u8])", format!("{:?} [incomplete={}]", x, x.is_incomplete())),
            }
            let s = std::str::from_utf8(p).unwrap();
            let r = imp::v1_str(s);
            match &r {
                Ok(x) if x.is_err() && incomplete_flags(x) => {}
                Err(p) => return fail("v1::try_from(&str)", format!("panic: {}", p)),
                Ok(x) => return fail("v1::try_from(&str)", format!("{:?} [incomplete={}]", x, x.is_incomplete())),
            }
            // the two str::parse routes are text entry points of this version as well
            match &imp::v1_fromstr_header(s) {
                Ok(x) if x.is_err() && incomplete_flags(x) => {}
                Err(p) => return fail("str::parse::<v1::Header>", format!("panic: {}", p)),
                Ok(x) => return fail("str::parse::<v1::Header>", format!("{:?} [incomplete={}]", x, x.is_incomplete())),
            }
            match &imp::v1_fromstr_addr(s) {
                Ok(x) if x.is_err() && incomplete_flags(x) => {}
                Err(p) => return fail("str::parse::<v1::Addresses>", format!("panic: {}", p)),
                Ok(x) => return fail("str::parse::<v1::Addresses>", format!("{:?} [incomplete={}]", x, x.is_incomplete())),
            }
            if !st.frozen {
                st.class(cut_class_v1(h, k));
            }
        } else {
            let r = imp::v2_parse(p);
            match &r {
                Ok(x) if x.is_err() && incomplete_flags(x) => {}
                Err(p) => return fail("v2::try_from(&[u8])", format!("panic: {}", p)),
                Ok(x) => return fail("v2::try_from(&[u8])", format!("{:?} [incomplete={}]", x.as_ref().map(|h| h.len()), x.is_incomplete())),
            }
        }
        let r = imp::auto(p);
        match &r {
            Ok(x) if incomplete_flags(x) && !auto_is_ok(x) => {}
            Err(p) => return fail("HeaderResult::parse", format!("panic: {}", p)),
            Ok(x) => return fail("HeaderResult::parse", format!("{} [incomplete={}]", imp::short(&format!("{:?}", x)), x.is_incomplete())),
        }
    }
    if !is_v1 {
        let fam = (h[13] >> 4) as usize & 3;
        st.class_n("cut-in-fixed-part", 16);
        st.class_n("cut-in-addresses", NEED[fam].min(h.len() - 16) as u64);
        st.class_n("cut-in-tlvs", (h.len() - 16).saturating_sub(NEED[fam]) as u64);
    }
    st.class_n("prefixes-checked", h.len() as u64);

    // ---- receiver simulation: re-parse the growing buffer after each read, stop at the first complete result
    let mut have = 0usize;
    let mut stopped_at: Option<usize> = None;
    for n in reads(stream.len(), c.split_seed) {
        have += n;
        let r = imp::auto(&stream[..have]);
        let r = match &r {
            Ok(r) => r,
            Err(_) => return Ok(()),
        };
        if r.is_complete() {
            stopped_at = Some(have);
            // must be the one-shot result, and must not come before the whole header is there
            let same = match (&one, r) {
                (Ok(a), b) => a == b,
                _ => true,
            };
            if have < h.len() || !same {
                return Err(Fail::new(
                    "receiver-diverges",
                    sh(h),
                    "HeaderResult::parse in a read loop",
                    format!("stops once all {} header bytes have arrived, with the one-shot result {}", h.len(), imp::short(&format!("{:?}", one.as_ref().ok()))),
                    format!("stopped with {} bytes buffered: {}", have, imp::short(&format!("{:?}", r))),
                ));
            }
            break;
        } else if have >= h.len() {
            return Err(Fail::new(
                "receiver-keeps-waiting",
                sh(h),
                "HeaderResult::parse in a read loop",
                format!("a complete result once all {} header bytes are buffered", h.len()),
                format!("still incomplete with {} bytes buffered: {}", have, imp::short(&format!("{:?}", r))),
            ));
        }
    }
    let _ = stopped_at;
    // the same receiver built on the version's own parser
    let mut have = 0usize;
    for n in reads(stream.len(), c.split_seed.rotate_left(7)) {
        have += n;
        let (complete, ok_len, shown) = if is_v1 {
            match imp::v1_bytes(&stream[..have]) {
                Ok(r) => (r.is_complete(), r.as_ref().ok().map(|h| h.header.len()), imp::short(&format!("{:?}", r))),
                Err(_) => return Ok(()),
            }
        } else {
            match imp::v2_parse(&stream[..have]) {
                Ok(r) => (r.is_complete(), r.as_ref().ok().map(|h| h.header.len()), imp::short(&format!("{:?}", r.as_ref().map(|h| h.header.len())))),
                Err(_) => return Ok(()),
            }
        };
        if complete {
            if have < h.len() || ok_len != Some(h.len()) {
                return Err(Fail::new(
                    "receiver-diverges:dedicated-parser",
                    sh(h),
                    if is_v1 { "v1::Header::try_from in a read loop" } else { "v2::Header::try_from in a read loop" },
                    format!("stops once all {} header bytes have arrived, with a header of that length", h.len()),
                    format!("stopped with {} bytes buffered: {}", have, shown),
                ));
            }
            break;
        } else if have >= h.len() {
            return Err(Fail::new(
                "receiver-keeps-waiting:dedicated-parser",
                sh(h),
                if is_v1 { "v1::Header::try_from in a read loop" } else { "v2::Header::try_from in a read loop" },
                format!("a complete result once all {} header bytes are buffered", h.len()),
                format!("still incomplete with {} bytes buffered: {}", have, shown),
            ));
        }
    }
    // ---- a receiver that reuses ONE read buffer for every connection (examples/server.rs does): the previous
    // connection delivered an unfinished header and hung up; this connection's bytes then arrive in the same buffer
    if stream.len() <= 4096 {
        let mut prev: Vec<u8> = PREVIOUS.with(|p| p.borrow().clone());
        // one time in three the previous connection had sent something that is no header at all: 107..=166 bytes of text
        // without a line end, judged too long for good - and then hung up
        if c.split_seed % 3 == 0 {
            let n = 107 + (c.split_seed as usize / 3) % 60;
            prev = (0..n).map(|i| b"GET /index.html?q=abcdefghijklmnopqrstuvwxyz0123456789 "[i % 55]).collect();
        }
        let mut have = 0usize;
        let mut first = true;
        for n in reads(stream.len(), c.split_seed.rotate_left(21)) {
            have += n;
            if first {
                crate::engine::in_arena2(&prev, |v| {
                    let _ = imp::auto(v);
                    let _ = imp::v1_bytes(v);
                });
                first = false;
            }
            let verdict = crate::engine::in_arena2(&stream[..have], |v| {
                let r = imp::auto(v);
                match &r {
                    Ok(r) => {
                        let same = match &one {
                            Ok(a) => a == r,
                            _ => true,
                        };
                        Some((r.is_complete(), same, imp::short(&format!("{:?}", r))))
                    }
                    Err(_) => None,
                }
            });
            let (complete, same, shown) = match verdict {
                Some(v) => v,
                None => break, // a panic: C03's business
            };
            if complete {
                if have < h.len() || !same {
                    return Err(Fail::new(
                        "receiver-diverges:reused-buffer",
                        sh(h),
                        "HeaderResult::parse in a read loop on a buffer that held another connection's unfinished header before",
                        format!("stops once all {} header bytes have arrived, with the one-shot result", h.len()),
                        format!("stopped with {} bytes buffered: {}", have, shown),
                    ));
                }
                break;
            } else if have >= h.len() {
                return Err(Fail::new(
                    "receiver-keeps-waiting:reused-buffer",
                    sh(h),
                    "HeaderResult::parse in a read loop on a buffer that held another connection's unfinished header before",
                    format!("a complete result once all {} header bytes are buffered", h.len()),
                    format!("still incomplete with {} bytes buffered: {}", have, shown),
                ));
            }
        }
        st.class("reused-buffer-receiver");
    }
    // what the next case's receiver finds in the buffer: this header without its last two bytes (an unfinished header)
    PREVIOUS.with(|p| *p.borrow_mut() = h[..h.len().saturating_sub(2)].to_vec());
    // v1: a receiver that keeps text (re-parses with try_from(&str) whenever the buffer is valid UTF-8 up to the read boundary)
    if is_v1 {
        if let Ok(text) = std::str::from_utf8(&stream) {
            let mut have = 0usize;
            for n in reads(stream.len(), c.split_seed.rotate_left(13)) {
                have += n;
                if !text.is_char_boundary(have) {
                    // the read ended inside a character: nothing to parse until the rest of it arrives
                    if have >= stream.len() {
                        break;
                    }
                    continue;
                }
                let r = match imp::v1_str(&text[..have]) {
                    Ok(r) => r,
                    Err(p) => {
                        // the receiver is owed a header here; a panic is not one
                        if have >= h.len() {
                            return Err(Fail::new(
                                "receiver-panics:text-parser",
                                sh(h),
                                "v1::Header::try_from(&str) in a read loop",
                                format!("the header once all {} header bytes are buffered ({} buffered)", h.len(), have),
                                format!("panic: {}", p),
                            ));
                        }
                        return Ok(());
                    }
                };
                // a receiver built on str::parse sees the same thing at every read
                if let Ok(rf) = imp::v1_fromstr_header(&text[..have]) {
                    let same = rf.is_complete() == r.is_complete() && rf.as_ref().ok().map(|x| x.header.len()) == r.as_ref().ok().map(|x| x.header.len()) && rf.is_ok() == r.is_ok();
                    if !same {
                        return Err(Fail::new(
                            "receiver-diverges:FromStr",
                            sh(h),
                            "str::parse::<v1::Header> in a read loop",
                            format!("the same outcome as try_from(&str) with {} bytes buffered: {}", have, imp::short(&format!("{:?}", r))),
                            imp::short(&format!("{:?}", rf)),
                        ));
                    }
                }
                if r.is_complete() {
                    let ok_len = r.as_ref().ok().map(|x| x.header.len());
                    if have < h.len() || ok_len != Some(h.len()) {
                        return Err(Fail::new(
                            "receiver-diverges:text-parser",
                            sh(h),
                            "v1::Header::try_from(&str) in a read loop",
                            format!("stops once all {} header bytes have arrived, with a header of that length", h.len()),
                            format!("stopped with {} bytes buffered: {}", have, imp::short(&format!("{:?}", r))),
                        ));
                    }
                    break;
                } else if have >= h.len() {
                    return Err(Fail::new(
                        "receiver-keeps-waiting:text-parser",
                        sh(h),
                        "v1::Header::try_from(&str) in a read loop",
                        format!("a complete result once all {} header bytes are buffered", h.len()),
                        format!("still incomplete with {} bytes buffered: {}", have, imp::short(&format!("{:?}", r))),
                    ));
                }
            }
            st.class("text-receiver");
        }
    }
    if !c.trailer.is_empty() {
        st.class("stream-with-trailer");
    }
    st.class(match c.split_seed % 4 {
        0 => "reads-of-1",
        1 => "one-big-read",
        2 => "reads-1..7",
        _ => "reads-1..4096",
    });
    Ok(())
}

fn auto_is_ok(r: &HeaderResult<'_>) -> bool {
    matches!(r, HeaderResult::V1(Ok(_)) | HeaderResult::V2(Ok(_)))
}

/// Trait clause on arbitrary inputs: is_complete == !is_incomplete, and Ok is never incomplete.
pub fn judge_trait(x: &Vec<u8>, st: &mut Stats) -> Verdict {
    st.eval();
    let fail = |entry: &str, obs: String| Err(Fail::new(format!("flags-inconsistent:{}", entry), "", entry, "is_complete() == !is_incomplete(), and Ok is never incomplete", obs));
    if let Ok(r) = imp::v1_bytes(x) {
        let (i, c) = imp::flags(&r);
        if i == c || (r.is_ok() && i) {
            return fail("v1::try_from(&[u8])", format!("{:?}: is_incomplete={} is_complete={}", r, i, c));
        }
        if i {
            st.nontrivial(x.digest());
        }
    }
    if let Ok(s) = std::str::from_utf8(x) {
        if let Ok(r) = imp::v1_str(s) {
            let (i, c) = imp::flags(&r);
            if i == c || (r.is_ok() && i) {
                return fail("v1::try_from(&str)", format!("{:?}: is_incomplete={} is_complete={}", r, i, c));
            }
        }
    }
    if let Ok(r) = imp::v2_parse(x) {
        let (i, c) = imp::flags(&r);
        if i == c || (r.is_ok() && i) {
            return fail("v2::try_from(&[u8])", format!("is_incomplete={} is_complete={}", i, c));
        }
        if i {
            st.nontrivial(x.digest());
        }
    }
    if let Ok(r) = imp::auto(x) {
        let (i, c) = imp::flags(&r);
        if i == c || (auto_is_ok(&r) && i) {
            return fail("HeaderResult::parse", format!("is_incomplete={} is_complete={}", i, c));
        }
    }
    Ok(())
}

/// Every error variant constructed directly.
fn variants_ok() -> Verdict {
    let ae = "x".parse::<std::net::Ipv4Addr>().unwrap_err();
    let ie = "x".parse::<u16>().unwrap_err();
    let ue = std::str::from_utf8(&[0xff]).unwrap_err();
    use v1::ParseError as P;
    let v1s: Vec<(P, bool)> = vec![
        (P::InvalidPrefix, false),
        (P::Partial, true),
        (P::MissingPrefix, true),
        (P::MissingNewLine, true),
        (P::MissingProtocol, true),
        (P::MissingSourceAddress, true),
        (P::MissingDestinationAddress, true),
        (P::MissingSourcePort, true),
        (P::MissingDestinationPort, true),
        (P::HeaderTooLong, false),
        (P::InvalidProtocol, false),
        (P::InvalidSuffix, false),
        (P::InvalidSourceAddress(ae.clone()), false),
        (P::InvalidDestinationAddress(ae), false),
        (P::InvalidSourcePort(Some(ie.clone())), false),
        (P::InvalidSourcePort(None), false),
        (P::InvalidDestinationPort(Some(ie)), false),
        (P::InvalidDestinationPort(None), false),
    ];
    for (e, _) in &v1s {
        // consistency only: which kinds are incomplete is decided by the prefix stages above
        if e.is_incomplete() == e.is_complete() {
            return Err(Fail::new("flags-inconsistent:variant", "", "v1::ParseError", "is_complete() == !is_incomplete()", format!("{:?}", e)));
        }
        let r: Result<(), P> = Err(imp::clone_pe(e));
        let b = v1::BinaryParseError::Parse(imp::clone_pe(e));
        if r.is_incomplete() != e.is_incomplete() || b.is_incomplete() != e.is_incomplete() || b.is_complete() == b.is_incomplete() {
            return Err(Fail::new("flags-inconsistent:wrapping", "", "Result / BinaryParseError wrapping", "wrapping preserves the flag", format!("{:?}", e)));
        }
    }
    let u = v1::BinaryParseError::InvalidUtf8(ue);
    if u.is_incomplete() || !u.is_complete() {
        return Err(Fail::new("flags-inconsistent:variant", "", "v1::BinaryParseError::InvalidUtf8", "terminal", "incomplete".to_string()));
    }
    use v2::ParseError as Q;
    for e in [Q::Incomplete(3), Q::Prefix, Q::Version(0x10), Q::Command(2), Q::AddressFamily(0x40), Q::Protocol(3), Q::Partial(1, 2), Q::InvalidAddresses(1, 12), Q::InvalidTLV(1, 2), Q::Leftovers(1)] {
        if e.is_incomplete() == e.is_complete() {
            return Err(Fail::new("flags-inconsistent:variant", "", "v2::ParseError", "is_complete() == !is_incomplete()", format!("{:?}", e)));
        }
    }
    let ok1: Result<u8, P> = Ok(1);
    let ok2: Result<u8, Q> = Ok(1);
    if ok1.is_incomplete() || !ok1.is_complete() || ok2.is_incomplete() || !ok2.is_complete() {
        return Err(Fail::new("flags-inconsistent:ok", "", "Result::Ok", "a success is complete", "flagged incomplete".to_string()));
    }
    Ok(())
}

fn gen_case(t: &mut Tape) -> Case {
    let header = match t.weighted(&[5, 4, 2]) {
        0 => gen::gen_valid_line(t, true),
        1 => gen::gen_v2_header(t).bytes,
        _ => {
            // headers the parser might accept although the reference does not
            let (x, _) = gen::gen_v1_mutant(t);
            x
        }
    };
    // half of the trailers are valid UTF-8 (text rich in multi-byte characters among them), so that the text receiver runs too
    let trailer = match t.below(4) {
        0 | 1 => vec![],
        2 => gen::gen_trailer(t, true).0,
        _ => gen::gen_trailer(t, false).0,
    };
    Case { header, trailer, split_seed: t.u32() }
}

pub fn run(r: &mut Runner) -> &'static str {
    r.rule = "inputs: accepted headers (ASCII v1 lines in every spelling incl. UNKNOWN text up to 107 bytes; v2 headers of all families up to 65551 bytes; a few near-miss lines in case the parser accepts them) x \
              EVERY cut 0..len-1 x the entry points of that version (v1: bytes and &str) and the auto-detecting one; then a receiver simulation over header ++ trailer with read sizes {all 1, one read, 1..7, 1..4096} \
              that re-parses the growing buffer with HeaderResult::parse and stops at the first complete result. oracle: each prefix is an Err flagged incomplete; the receiver stops exactly when the header is complete \
              with the one-shot result; trait clause on arbitrary bytes and on every error variant built directly: is_complete == !is_incomplete, Ok never incomplete. \
              non-trivial = an accepted header (all of its cuts are tried); distinct by SipHash of (header, trailer, split seed) Added later: prefixes of the wire header even when fewer header bytes are reported, a text (&str and FromStr) receiver, a receiver on a reused buffer that held another connection's unfinished header."
        .into();
    r.assumptions.push("conditioned on acceptance by the implementation (C01/C02 own acceptance); v1 lines restricted to US-ASCII as the statement says".into());
    let n = r.n(60_000, 1_500_000);
    r.random("c05.prefixes", n, 260, &gen_case, &judge);
    let n = r.n(150_000, 3_000_000);
    r.random("c05.trait", n, 200, &|t| gen::gen_any_bytes(t).0, &|x: &Vec<u8>, st: &mut Stats| crate::engine::in_arena(x, |v| judge_trait(v, st)));
    let work = |shard: usize, _n: usize, st: &mut Stats, _stop: &std::sync::atomic::AtomicBool| -> Option<(Vec<u8>, Fail)> {
        if shard != 0 {
            return None;
        }
        st.eval();
        st.nontrivial_counted += 29;
        match variants_ok() {
            Ok(()) => None,
            Err(f) => Some((vec![], f)),
        }
    };
    r.bulk("c05.variants", Some("all 18 v1 and 10 v2 error variants constructed directly, plus Ok"), &work, &|_x: &Vec<u8>, _st: &mut Stats| variants_ok());
    "exploration"
}
