//! Entry points for the coverage-guided targets in /verif/fuzz: the fuzzer's bytes are decoded
//! into the same case types, and judged by the same oracle functions, as the harness's own stages.

use crate::engine::{CaseIo, Fail, Pair, Stats, Tape};
use crate::props::*;
use serde_json::Value;

pub struct Finding {
    pub check: &'static str,
    pub case: Value,
    pub fail: Fail,
}

fn wrap<C: CaseIo>(check: &'static str, c: &C, r: Result<(), Fail>) -> Option<Finding> {
    r.err().map(|fail| Finding { check, case: c.to_json(), fail })
}

/// Raw bytes as the input of a byte-level check.
pub fn judge_bytes(prop: &str, data: &[u8]) -> Option<Finding> {
    let v = data.to_vec();
    let mut st = Stats { frozen: true, ..Stats::default() };
    match prop {
        "C01" => wrap("c01.grammar", &v, c01::judge(&v, &mut st)),
        "C02" => wrap("c02.random", &v, c02::judge(&v, &mut st)),
        "C03" => wrap("c03.surface", &v, c03::judge(&v, &mut st)),
        "C06" => wrap("c06.differential", &v, c06::judge(&v, &mut st)),
        "C11" => wrap("c11.slices", &v, c11::judge_slice(&v, &mut st)).or_else(|| wrap("c11.headers", &v, c11::judge_header(&v, &mut st))),
        "C13" => wrap("c13.random", &v, c13::judge(&v, &mut st)),
        "C14" => wrap("c14.random", &v, c14::judge(&v, &mut st)),
        "C15" => wrap("c15.views", &v, c15::judge(&v, &mut st)),
        "C16" => wrap("c16.agree", &v, c16::judge_agree(&v, &mut st)).or_else(|| wrap("c16.owned", &v, c16::judge_owned(&v, &mut st))),
        "C05" => {
            let c = c05::Case { header: v.clone(), trailer: vec![], split_seed: data.len() as u32 };
            wrap("c05.prefixes", &c, c05::judge(&c, &mut st)).or_else(|| wrap("c05.trait", &v, c05::judge_trait(&v, &mut st)))
        }
        "C17" => {
            let c = c17::Case { input: v, fill_seed: data.len() as u32 | 1, tail: vec![] };
            wrap("c17.random", &c, c17::judge(&c, &mut st))
        }
        _ => None,
    }
}

/// First two bytes choose a split point: (input, trailer).
pub fn judge_pair(prop: &str, data: &[u8]) -> Option<Finding> {
    if data.len() < 2 {
        return None;
    }
    let body = &data[2..];
    let at = ((data[0] as usize) << 8 | data[1] as usize) % (body.len() + 1);
    let c = Pair(body[..at].to_vec(), body[at..].to_vec());
    let mut st = Stats { frozen: true, ..Stats::default() };
    match prop {
        "C04" => wrap("c04.trailers", &c, c04::judge(&c, &mut st)),
        "C18" => wrap("c18.closed", &c, c18::judge(&c, &mut st)),
        "C05" => {
            let c5 = c05::Case { header: c.0.clone(), trailer: c.1.clone(), split_seed: data[0] as u32 * 7 + data[1] as u32 };
            wrap("c05.prefixes", &c5, c05::judge(&c5, &mut st))
        }
        _ => None,
    }
}

/// The bytes are a tape (little-endian u32 cells) for the property's own structured generator.
pub fn judge_tape(prop: &str, data: &[u8]) -> Option<Finding> {
    crate::engine::set_fuzz_mode(true);
    let cells: Vec<u32> = data.chunks(4).map(|c| {
        let mut b = [0u8; 4];
        b[..c.len()].copy_from_slice(c);
        u32::from_le_bytes(b)
    }).collect();
    let mut t = Tape::new(&cells);
    let mut st = Stats { frozen: true, ..Stats::default() };
    match prop {
        "C09" => {
            let h = c09::gen_case(&mut t);
            wrap("c09.histories", &h, c09::judge(&h, &mut st))
        }
        "C10" => {
            let h = c10::gen_case(&mut t);
            wrap("c10.histories", &h, c10::judge(&h, &mut st))
        }
        "C07" => {
            let c = c07::gen_case(&mut t);
            wrap("c07.build-parse", &c, c07::judge(&c, &mut st))
        }
        "C20" => {
            let c = c20::gen_case(&mut t);
            wrap("c20.values", &c, c20::judge(&c, &mut st))
        }
        "C08" => {
            let c = c08::gen_case(&mut t);
            wrap("c08.roundtrip", &c, c08::judge(&c, &mut st))
        }
        "C12" => {
            let c = c12::gen_v1(&mut t);
            wrap("c12.v1-single-fault", &c, c12::judge(&c, &mut st))
        }
        "C19" => {
            let c = c19::gen_case(&mut t);
            wrap("c19.constructors", &c, c19::judge(&c, &mut st))
        }
        _ => None,
    }
}

/// Which target serves which property.
pub fn target_of(prop: &str) -> Option<&'static str> {
    match prop {
        "C01" | "C02" | "C03" | "C06" | "C11" | "C13" | "C14" | "C15" | "C16" | "C17" => Some("fz_bytes"),
        "C04" | "C05" | "C18" => Some("fz_pair"),
        "C07" | "C08" | "C09" | "C10" | "C12" | "C19" | "C20" => Some("fz_tape"),
        _ => None,
    }
}

/// Write the finding as a replay file (same format as the harness's own) and return its path.
pub fn save(prop: &str, f: &Finding, verif_dir: &str) -> String {
    let dir = format!("{}/replays", verif_dir);
    let _ = std::fs::create_dir_all(&dir);
    let body = serde_json::json!({
        "property": prop, "check": f.check, "sig": f.fail.sig, "entry_point": f.fail.entry,
        "expected": f.fail.expected, "observed": f.fail.observed, "found_by": "libFuzzer", "case": f.case,
    });
    let digest = crate::engine::hash_str(&f.case.to_string());
    let path = format!("{}/{}-fuzz-{}-{:016x}.json", dir, prop, f.check.replace('.', "_"), digest);
    let _ = std::fs::write(&path, serde_json::to_string_pretty(&body).unwrap());
    path
}
