//! Builder call histories: representation, generator (G-OPS), interpreter against the real
//! `ppp::v2::Builder`, and the reference history model R-BLD.

use crate::engine::{fill, gen_seed, Tape};
use crate::gen;
use crate::imp;
use crate::oracle::enc;
use crate::oracle::v2::{RefAddr2, NEED, SIG};
use ppp::v2::{Builder, Protocol, Type, TypeLengthValue, TypeLengthValues, WriteToHeader, Writer};
use serde_json::{json, Value};
use std::io;

pub const INT_NAMES: [&str; 12] = ["u8", "u16", "u32", "u64", "u128", "usize", "i8", "i16", "i32", "i64", "i128", "isize"];
pub const INT_WIDTHS: [usize; 12] = [1, 2, 4, 8, 16, std::mem::size_of::<usize>(), 1, 2, 4, 8, 16, std::mem::size_of::<isize>()];

pub const TYPES: [Type; 12] = [
    Type::ALPN,
    Type::Authority,
    Type::CRC32C,
    Type::NoOp,
    Type::UniqueId,
    Type::SSL,
    Type::SSLVersion,
    Type::SSLCommonName,
    Type::SSLCipher,
    Type::SSLSignatureAlgorithm,
    Type::SSLKeyAlgorithm,
    Type::NetworkNamespace,
];

/// A payload value. Large byte contents are (len, seed) pairs expanded by `engine::fill`.
#[derive(Clone, Debug, PartialEq)]
pub enum Val {
    Int { ty: usize, image: u128 },
    Bytes { len: usize, seed: u32 },
    Addr(RefAddr2),
    /// `TypeLengthValue::new(kind, value)`
    Tlv { kind: u8, len: usize, seed: u32 },
    /// `(u8, &[u8])`
    TupleU8 { kind: u8, len: usize, seed: u32 },
    /// `(Type, &[u8])`
    TupleType { ty: usize, len: usize, seed: u32 },
    /// `TypeLengthValues::from(bytes)`
    Section { len: usize, seed: u32 },
    /// a `Type` on its own (one byte)
    Type(usize),
    /// a well-formed TLV section given as a `TypeLengthValues` iterator on which `next()` has already
    /// been called `advance` times (a partly consumed iterator is still the whole section)
    Tlvs { items: Vec<(u8, usize, u32)>, advance: usize },
    /// a payload type of the caller's own (`CustomP`): it assembles its bytes outside the writer - takes the buffer out of
    /// the `Writer`, extends it, puts it back. `quirks` (histories only; 0 elsewhere): bit 0 - it leaves junk in bytes 14..16
    /// of what it found in the buffer; bit 1 - it reports a wrong count (0) for what it appended; bit 2 - it is stateful: only
    /// its first `write_to` appends the bytes, any further call appends a marker instead (a payload that drains a queue)
    Custom { len: usize, seed: u32, quirks: u8 },
}

#[derive(Clone, Debug, PartialEq)]
pub enum Op {
    Reserve(usize),
    SetLength(Option<u16>),
    /// write_payload(P) or write_payload(&P)
    Payload { v: Val, by_ref: bool },
    /// write_payloads(batch); `native` = homogeneous native element type, else the harness's
    /// delegating wrapper type
    Payloads { vs: Vec<Val>, native: bool },
    /// write_tlv(kind: u8, value)
    WriteTlv { kind: u8, len: usize, seed: u32 },
    /// write_tlv(Type, value)
    WriteTlvType { ty: usize, len: usize, seed: u32 },
}

#[derive(Clone, Debug, PartialEq)]
pub enum Ctor {
    New { vc: u8, afp: u8 },
    WithAddresses { vc: u8, proto: u8, addr: RefAddr2 },
}

#[derive(Clone, Debug, PartialEq)]
pub struct History {
    pub ctor: Ctor,
    pub ops: Vec<Op>,
}

// ------------------------------------------------------------------------------------------
// JSON

fn addr_json(a: &RefAddr2) -> Value {
    match a {
        RefAddr2::Unspec => json!({"fam": 0}),
        RefAddr2::V4 { src, dst, sport, dport } => json!({"fam": 1, "src": src, "dst": dst, "sport": sport, "dport": dport}),
        RefAddr2::V6 { src, dst, sport, dport } => json!({"fam": 2, "src": format!("{:032x}", src), "dst": format!("{:032x}", dst), "sport": sport, "dport": dport}),
        RefAddr2::Unix { src, dst } => json!({"fam": 3, "src": crate::engine::hex(src), "dst": crate::engine::hex(dst)}),
    }
}

fn addr_from(v: &Value) -> Option<RefAddr2> {
    let arr4 = |v: &Value| -> Option<[u8; 4]> {
        let a = v.as_array()?;
        let mut o = [0u8; 4];
        for i in 0..4 {
            o[i] = a.get(i)?.as_u64()? as u8;
        }
        Some(o)
    };
    match v.get("fam")?.as_u64()? {
        0 => Some(RefAddr2::Unspec),
        1 => Some(RefAddr2::V4 { src: arr4(v.get("src")?)?, dst: arr4(v.get("dst")?)?, sport: v.get("sport")?.as_u64()? as u16, dport: v.get("dport")?.as_u64()? as u16 }),
        2 => Some(RefAddr2::V6 {
            src: u128::from_str_radix(v.get("src")?.as_str()?, 16).ok()?,
            dst: u128::from_str_radix(v.get("dst")?.as_str()?, 16).ok()?,
            sport: v.get("sport")?.as_u64()? as u16,
            dport: v.get("dport")?.as_u64()? as u16,
        }),
        3 => Some(RefAddr2::Unix { src: crate::engine::unhex(v.get("src")?.as_str()?)?, dst: crate::engine::unhex(v.get("dst")?.as_str()?)? }),
        _ => None,
    }
}

impl Val {
    pub fn to_json(&self) -> Value {
        match self {
            Val::Int { ty, image } => json!({"int": INT_NAMES[*ty], "image_hex": format!("{:x}", image)}),
            Val::Bytes { len, seed } => json!({"bytes": {"len": len, "seed": seed}}),
            Val::Addr(a) => json!({"addresses": addr_json(a)}),
            Val::Tlv { kind, len, seed } => json!({"tlv": {"kind": kind, "len": len, "seed": seed}}),
            Val::TupleU8 { kind, len, seed } => json!({"tuple_u8": {"kind": kind, "len": len, "seed": seed}}),
            Val::TupleType { ty, len, seed } => json!({"tuple_type": {"type": enc::TYPE_CODES[*ty].0, "len": len, "seed": seed}}),
            Val::Section { len, seed } => json!({"section": {"len": len, "seed": seed}}),
            Val::Type(ty) => json!({"type": enc::TYPE_CODES[*ty].0}),
            Val::Tlvs { items, advance } => json!({"tlvs": {"items": items.iter().map(|(k, l, s)| json!({"kind": k, "len": l, "seed": s})).collect::<Vec<_>>(), "advance": advance}}),
            Val::Custom { len, seed, quirks } => json!({"custom": {"len": len, "seed": seed, "quirks": quirks}}),
        }
    }
    pub fn from_json(v: &Value) -> Option<Val> {
        let ls = |o: &Value| -> Option<(usize, u32)> { Some((o.get("len")?.as_u64()? as usize, o.get("seed")?.as_u64()? as u32)) };
        let ty_of = |o: &Value| -> Option<usize> {
            let n = o.as_str()?;
            enc::TYPE_CODES.iter().position(|(name, _)| *name == n)
        };
        if let Some(n) = v.get("int") {
            let ty = INT_NAMES.iter().position(|x| Some(*x) == n.as_str())?;
            return Some(Val::Int { ty, image: u128::from_str_radix(v.get("image_hex")?.as_str()?, 16).ok()? });
        }
        if let Some(o) = v.get("bytes") {
            let (len, seed) = ls(o)?;
            return Some(Val::Bytes { len, seed });
        }
        if let Some(o) = v.get("addresses") {
            return Some(Val::Addr(addr_from(o)?));
        }
        if let Some(o) = v.get("tlv") {
            let (len, seed) = ls(o)?;
            return Some(Val::Tlv { kind: o.get("kind")?.as_u64()? as u8, len, seed });
        }
        if let Some(o) = v.get("tuple_u8") {
            let (len, seed) = ls(o)?;
            return Some(Val::TupleU8 { kind: o.get("kind")?.as_u64()? as u8, len, seed });
        }
        if let Some(o) = v.get("tuple_type") {
            let (len, seed) = ls(o)?;
            return Some(Val::TupleType { ty: ty_of(o.get("type")?)?, len, seed });
        }
        if let Some(o) = v.get("section") {
            let (len, seed) = ls(o)?;
            return Some(Val::Section { len, seed });
        }
        if let Some(o) = v.get("type") {
            return Some(Val::Type(ty_of(o)?));
        }
        if let Some(o) = v.get("custom") {
            let (len, seed) = ls(o)?;
            return Some(Val::Custom { len, seed, quirks: o.get("quirks").and_then(|b| b.as_u64()).unwrap_or(0) as u8 });
        }
        if let Some(o) = v.get("tlvs") {
            let items: Option<Vec<(u8, usize, u32)>> = o
                .get("items")?
                .as_array()?
                .iter()
                .map(|i| Some((i.get("kind")?.as_u64()? as u8, i.get("len")?.as_u64()? as usize, i.get("seed")?.as_u64()? as u32)))
                .collect();
            return Some(Val::Tlvs { items: items?, advance: o.get("advance")?.as_u64()? as usize });
        }
        None
    }
}

impl Op {
    pub fn to_json(&self) -> Value {
        match self {
            Op::Reserve(n) => json!({"reserve_capacity": n}),
            Op::SetLength(x) => json!({"set_length": x}),
            Op::Payload { v, by_ref } => json!({"write_payload": v.to_json(), "by_ref": by_ref}),
            Op::Payloads { vs, native } => json!({"write_payloads": vs.iter().map(|v| v.to_json()).collect::<Vec<_>>(), "native": native}),
            Op::WriteTlv { kind, len, seed } => json!({"write_tlv": {"kind": kind, "len": len, "seed": seed}}),
            Op::WriteTlvType { ty, len, seed } => json!({"write_tlv": {"type": enc::TYPE_CODES[*ty].0, "len": len, "seed": seed}}),
        }
    }
    pub fn from_json(v: &Value) -> Option<Op> {
        if let Some(n) = v.get("reserve_capacity") {
            return Some(Op::Reserve(n.as_u64()? as usize));
        }
        if let Some(x) = v.get("set_length") {
            return Some(Op::SetLength(if x.is_null() { None } else { Some(x.as_u64()? as u16) }));
        }
        if let Some(p) = v.get("write_payload") {
            return Some(Op::Payload { v: Val::from_json(p)?, by_ref: v.get("by_ref").and_then(|b| b.as_bool()).unwrap_or(false) });
        }
        if let Some(p) = v.get("write_payloads") {
            let vs: Option<Vec<Val>> = p.as_array()?.iter().map(Val::from_json).collect();
            return Some(Op::Payloads { vs: vs?, native: v.get("native").and_then(|b| b.as_bool()).unwrap_or(false) });
        }
        if let Some(o) = v.get("write_tlv") {
            let len = o.get("len")?.as_u64()? as usize;
            let seed = o.get("seed")?.as_u64()? as u32;
            if let Some(k) = o.get("kind") {
                return Some(Op::WriteTlv { kind: k.as_u64()? as u8, len, seed });
            }
            let n = o.get("type")?.as_str()?;
            return Some(Op::WriteTlvType { ty: enc::TYPE_CODES.iter().position(|(name, _)| *name == n)?, len, seed });
        }
        None
    }
}

impl History {
    pub fn to_json(&self) -> Value {
        let ctor = match &self.ctor {
            Ctor::New { vc, afp } => json!({"new": {"version_command": vc, "address_family_protocol": afp}}),
            Ctor::WithAddresses { vc, proto, addr } => json!({"with_addresses": {"version_command": vc, "protocol": proto, "addresses": addr_json(addr)}}),
        };
        json!({"ctor": ctor, "ops": self.ops.iter().map(|o| o.to_json()).collect::<Vec<_>>()})
    }
    pub fn from_json(v: &Value) -> Option<History> {
        let c = v.get("ctor")?;
        let ctor = if let Some(n) = c.get("new") {
            Ctor::New { vc: n.get("version_command")?.as_u64()? as u8, afp: n.get("address_family_protocol")?.as_u64()? as u8 }
        } else {
            let w = c.get("with_addresses")?;
            Ctor::WithAddresses { vc: w.get("version_command")?.as_u64()? as u8, proto: w.get("protocol")?.as_u64()? as u8, addr: addr_from(w.get("addresses")?)? }
        };
        let ops: Option<Vec<Op>> = v.get("ops")?.as_array()?.iter().map(Op::from_json).collect();
        Some(History { ctor, ops: ops? })
    }
    /// Shrinking candidates: drop an op, shrink sizes.
    pub fn simpler(&self) -> Vec<History> {
        let mut out = Vec::new();
        // a history of hundreds or thousands of calls (c09.many-calls): only a handful of chunk removals - one clone per
        // candidate; removing every single op in turn would cost n clones of n ops (gigabytes for 65 536 calls)
        if self.ops.len() > 300 {
            let n = self.ops.len();
            for (a, b) in [(0, n / 2), (n / 2, n), (n / 4, n / 2), (n / 2, 3 * n / 4), (1, n - 1), (2, n - 2), (n - 2, n - 1), (0, 1)] {
                if a < b && b <= n {
                    let mut h = self.clone();
                    h.ops.drain(a..b);
                    out.push(h);
                }
            }
            return out;
        }
        for i in 0..self.ops.len() {
            let mut h = self.clone();
            h.ops.remove(i);
            out.push(h);
        }
        for i in 0..self.ops.len() {
            if let Op::Payloads { vs, native } = &self.ops[i] {
                if vs.len() > 64 {
                    // a very long batch: drop chunks (one clone per candidate, not one per item)
                    let n = vs.len();
                    for (a, b) in [(0, n / 2), (n / 2, n), (0, n / 4), (n / 4, n / 2), (n / 2, 3 * n / 4), (3 * n / 4, n), (0, 1), (n - 1, n), (1, n - 1)] {
                        let mut h = self.clone();
                        let mut v2 = vs.clone();
                        v2.drain(a..b);
                        h.ops[i] = Op::Payloads { vs: v2, native: *native };
                        out.push(h);
                    }
                    continue;
                }
                for j in 0..vs.len() {
                    let mut h = self.clone();
                    let mut v2 = vs.clone();
                    v2.remove(j);
                    h.ops[i] = Op::Payloads { vs: v2, native: *native };
                    out.push(h);
                }
            }
            // shrink lengths
            let mut h = self.clone();
            let changed = match &mut h.ops[i] {
                Op::Payload { v, .. } => shrink_val(v),
                Op::WriteTlv { len, seed, .. } | Op::WriteTlvType { len, seed, .. } => shrink_len(len, seed),
                Op::Reserve(n) if *n > 0 => {
                    *n = 0;
                    true
                }
                _ => false,
            };
            if changed {
                out.push(h);
            }
        }
        if let Ctor::WithAddresses { vc, proto, addr } = &self.ctor {
            if *addr != RefAddr2::Unspec {
                let mut h = self.clone();
                h.ctor = Ctor::WithAddresses { vc: *vc, proto: *proto, addr: RefAddr2::Unspec };
                out.push(h);
            }
        }
        out
    }
}

fn shrink_len(len: &mut usize, seed: &mut u32) -> bool {
    if *len > 65536 {
        *len = 65536;
        true
    } else if *len > 0 && *len != 65536 && *len != 65535 {
        *len /= 2;
        true
    } else if *seed != 0 {
        *seed = 0;
        true
    } else {
        false
    }
}

pub fn shrink_val_pub(v: &mut Val) -> bool {
    shrink_val(v)
}

fn shrink_val(v: &mut Val) -> bool {
    match v {
        Val::Bytes { len, seed } | Val::Tlv { len, seed, .. } | Val::TupleU8 { len, seed, .. } | Val::TupleType { len, seed, .. } | Val::Section { len, seed } => shrink_len(len, seed),
        Val::Int { image, .. } if *image != 0 => {
            *image = 0;
            true
        }
        _ => false,
    }
}

// ------------------------------------------------------------------------------------------
// generator

pub fn gen_len(t: &mut Tape, big_per_mille: u32) -> usize {
    if t.chance(big_per_mille, 1000) {
        return match t.weighted(&[3, 2, 2, 1]) {
            0 => t.usize_in(30_000, 65_535),
            1 => *t.pick(&[65_535usize, 65_534, 65_532, 65_520, 65_519, 65_500]),
            2 => *t.pick(&[65_536usize, 65_537, 70_000]),
            _ => t.usize_in(65_536, 140_000),
        };
    }
    match t.weighted(&[3, 5, 2, 2, 1, 1]) {
        0 => t.usize_in(0, 3),
        1 => t.usize_in(0, 48),
        2 => *t.pick(&[255usize, 256, 257, 300, 1000, 4096]),
        // every length up to a few hundred is equally likely; powers of two and their neighbours; a few KB
        3 => t.usize_in(0, 600),
        4 => {
            let p = 1usize << t.usize_in(2, 13);
            p + t.usize_in(0, 4) - 2
        }
        _ => t.usize_in(0, 9000),
    }
}

/// A TLV type byte: one time in three a registered code (those are the ones code is likely to treat specially).
pub fn gen_kind(t: &mut Tape) -> u8 {
    if t.chance(1, 10) {
        *t.pick(&gen::KNOWN_UNREGISTERED_KINDS)
    } else if t.chance(1, 3) {
        enc::TYPE_CODES[t.below(12) as usize].1
    } else {
        t.byte()
    }
}

pub fn gen_addr(t: &mut Tape) -> RefAddr2 {
    let fam = t.below(4) as u8;
    crate::oracle::v2::decode_addr(fam, &gen::gen_addr_block(t, fam))
}

pub fn gen_val(t: &mut Tape, big_per_mille: u32) -> Val {
    match t.weighted(&[8, 8, 4, 8, 6, 6, 4, 2, 4, 1]) {
        9 => Val::Custom { len: gen_len(t, big_per_mille), seed: gen_seed(t), quirks: 0 },
        8 => {
            let n = t.usize_in(0, 4);
            let items: Vec<(u8, usize, u32)> = (0..n)
                .map(|_| {
                    let len = match t.weighted(&[5, 1]) {
                        0 => t.usize_in(0, 24),
                        _ => *t.pick(&[255usize, 256, 257]),
                    };
                    (gen_kind(t), len, gen_seed(t))
                })
                .collect();
            let advance = t.usize_in(0, n + 1);
            Val::Tlvs { items, advance }
        }
        0 => {
            let ty = t.below(12) as usize;
            let image = match t.weighted(&[2, 1, 1, 3]) {
                0 => t.below(300) as u128,
                1 => u128::MAX,
                2 => 1u128 << (8 * INT_WIDTHS[ty] - 1),
                _ => t.u128(),
            };
            let w = INT_WIDTHS[ty];
            let image = if w == 16 { image } else { image & ((1u128 << (8 * w)) - 1) };
            Val::Int { ty, image }
        }
        1 => Val::Bytes { len: gen_len(t, big_per_mille), seed: gen_seed(t) },
        2 => Val::Addr(gen_addr(t)),
        3 => Val::Tlv { kind: gen_kind(t), len: gen_len(t, big_per_mille), seed: gen_seed(t) },
        4 => Val::TupleU8 { kind: gen_kind(t), len: gen_len(t, big_per_mille), seed: gen_seed(t) },
        5 => Val::TupleType { ty: t.below(12) as usize, len: gen_len(t, big_per_mille), seed: gen_seed(t) },
        6 => Val::Section { len: gen_len(t, big_per_mille), seed: gen_seed(t) },
        _ => Val::Type(t.below(12) as usize),
    }
}

pub fn gen_history(t: &mut Tape, big_per_mille: u32) -> History {
    let ctor = if t.coin() {
        let vc = match t.weighted(&[3, 1]) {
            0 => 0x20 | t.below(2) as u8,
            _ => t.byte(),
        };
        let afp = match t.weighted(&[3, 1]) {
            0 => ((t.below(4) as u8) << 4) | t.below(3) as u8,
            _ => t.byte(),
        };
        Ctor::New { vc, afp }
    } else {
        let vc = match t.weighted(&[3, 1]) {
            0 => 0x20 | t.below(2) as u8,
            _ => t.byte(),
        };
        Ctor::WithAddresses { vc, proto: t.below(3) as u8, addr: gen_addr(t) }
    };
    let n = match t.weighted(&[4, 3, 1]) {
        0 => t.usize_in(0, 5),
        1 => t.usize_in(0, 12),
        _ => t.usize_in(0, 24),
    };
    let mut ops = Vec::new();
    for _ in 0..n {
        let op = match t.weighted(&[8, 3, 4, 3, 3, 2]) {
            0 => Op::Payload { v: gen_val(t, big_per_mille), by_ref: t.chance(1, 4) },
            1 => Op::Reserve(match t.weighted(&[2, 2, 1]) {
                0 => t.usize_in(0, 64),
                1 => t.usize_in(0, 70_000),
                _ => t.usize_in(0, 1 << 20),
            }),
            2 => Op::SetLength(match t.weighted(&[2, 3, 2, 1]) {
                0 => None,
                1 => Some(t.u16()),
                2 => Some(*t.pick(&[0u16, 1, 7, 12, 36, 216, 255, 256, 65535])),
                _ => Some(t.below(64) as u16),
            }),
            3 if big_per_mille > 0 && !crate::engine::fuzz_mode() && t.chance(1, 1500) && !ops.iter().any(|o| matches!(o, Op::Payloads { vs, .. } if vs.len() > 1000)) => {
                // a batch of very many tiny items (more than a 16-bit counter holds), the last one or two of them not empty
                let k = *t.pick(&[65_534usize, 65_535, 65_536, 65_537, 70_000]);
                let vs: Vec<Val> = match t.below(4) {
                    0 => (0..k).map(|_| Val::Bytes { len: 0, seed: 0 }).chain([Val::Bytes { len: 4, seed: 7 }, Val::Bytes { len: 1, seed: 9 }]).collect(),
                    1 => (0..k).map(|_| Val::Section { len: 0, seed: 0 }).chain([Val::Section { len: 4, seed: 7 }]).collect(),
                    2 => (0..k).map(|_| Val::Addr(RefAddr2::Unspec)).chain([Val::Addr(RefAddr2::V4 { src: [10, 0, 0, 1], dst: [10, 0, 0, 2], sport: 1, dport: 2 })]).collect(),
                    _ => (0..k).map(|i| Val::Int { ty: 0, image: (i % 251) as u128 }).collect(),
                };
                Op::Payloads { vs, native: true }
            }
            3 => {
                let k = t.usize_in(0, 5);
                let native = t.coin();
                let mut vs = Vec::new();
                if native {
                    // homogeneous: all of the first element's kind
                    let first = gen_val(t, big_per_mille);
                    for _ in 0..k {
                        let mut v = gen_val(t, big_per_mille);
                        let mut guard = 0;
                        while std::mem::discriminant(&v) != std::mem::discriminant(&first) || int_ty(&v) != int_ty(&first) {
                            v = retype(&first, t, big_per_mille);
                            guard += 1;
                            if guard > 2 {
                                break;
                            }
                        }
                        vs.push(v);
                    }
                } else {
                    for _ in 0..k {
                        vs.push(gen_val(t, big_per_mille));
                    }
                }
                Op::Payloads { vs, native }
            }
            4 if t.chance(1, 6) => {
                // an SSL container TLV of exactly its five fixed bytes followed directly by a TLV of one of its sub-types
                ops.push(Op::WriteTlv { kind: 0x20, len: *t.pick(&[5usize, 5, 5, 4, 6, 0]), seed: gen_seed(t) });
                Op::WriteTlv { kind: 0x21 + t.below(5) as u8, len: t.usize_in(0, 12), seed: gen_seed(t) }
            }
            4 => Op::WriteTlv { kind: gen_kind(t), len: gen_len(t, big_per_mille), seed: gen_seed(t) },
            _ => Op::WriteTlvType { ty: t.below(12) as usize, len: gen_len(t, big_per_mille), seed: gen_seed(t) },
        };
        // half of the writes of a value above 65535 bytes are preceded by a capacity hint large enough to hold it
        let big = match &op {
            Op::Payload { v: Val::Bytes { len, .. } | Val::Tlv { len, .. } | Val::TupleU8 { len, .. } | Val::TupleType { len, .. } | Val::Section { len, .. }, .. } => *len,
            Op::WriteTlv { len, .. } | Op::WriteTlvType { len, .. } => *len,
            _ => 0,
        };
        if big > 65535 && t.coin() {
            ops.push(Op::Reserve((*t.pick(&[131_070usize, 70_000, 200_000, 1 << 20])).max(big + 16)));
        }
        ops.push(op);
        // one op in twelve is issued twice (a retry loop, a call made by two layers)
        if t.chance(1, 12) {
            let again = ops.last().unwrap().clone();
            if !matches!(&again, Op::Payloads { vs, .. } if vs.len() > 1000) {
                ops.push(again);
            }
        }
    }
    let mut h = History { ctor, ops };
    relate_explicit_lengths(t, &mut h);
    h
}

/// One history in five: an explicit length somewhere in it is replaced by a value RELATED to the history - the true
/// number of bytes after the fixed part at build time, that number at the moment of the call, or the value of another
/// set_length call (so that the same value is set twice). Unrelated random values never coincide with these.
pub fn relate_explicit_lengths(t: &mut Tape, h: &mut History) {
    // (in histories, half of the custom payloads leave junk in the length field of the fixed part they find in the buffer)
    for op in h.ops.iter_mut() {
        match op {
            Op::Payload { v: Val::Custom { quirks, .. }, .. } => *quirks = t.below(8) as u8,
            Op::Payloads { vs, .. } => {
                for v in vs.iter_mut() {
                    if let Val::Custom { quirks, .. } = v {
                        *quirks = t.below(8) as u8;
                    }
                }
            }
            _ => {}
        }
    }
    if !t.chance(1, 5) {
        return;
    }
    let sets: Vec<usize> = h.ops.iter().enumerate().filter(|(_, o)| matches!(o, Op::SetLength(Some(_)))).map(|(i, _)| i).collect();
    if sets.is_empty() {
        return;
    }
    let at = sets[t.below(sets.len() as u32) as usize];
    let base = match &h.ctor {
        Ctor::New { .. } => 0usize,
        Ctor::WithAddresses { addr, .. } => NEED[enc::family_code(addr) as usize],
    };
    let size_upto = |n: usize| -> usize { base + h.ops[..n].iter().flat_map(op_values).map(|v| ref_size(&v)).sum::<usize>() };
    let swap16 = |x: usize| -> usize { ((x & 0xff) << 8) | ((x >> 8) & 0xff) };
    let v = match t.below(6) {
        0 => size_upto(h.ops.len()),
        1 => size_upto(at),
        // the byte-swapped image of one of those (a comparison in the wrong byte order takes the two for equal)
        3 => swap16(size_upto(h.ops.len())),
        4 => swap16(size_upto(at)),
        5 => match &h.ops[sets[t.below(sets.len() as u32) as usize]] {
            Op::SetLength(Some(x)) => swap16(*x as usize),
            _ => 0x0100,
        },
        _ => match &h.ops[sets[t.below(sets.len() as u32) as usize]] {
            Op::SetLength(Some(x)) => *x as usize,
            _ => 0,
        },
    };
    if v <= 65535 {
        h.ops[at] = Op::SetLength(Some(v as u16));
    }
}

/// Histories built in phases around the 65535-byte threshold: [set_length] small writes [set_length] big writes that
/// take the payload total to a chosen target just below / at / above 65535 (or far above) [set_length, possibly the
/// same call twice] [small writes] [set_length] build. The uniform generator above reaches such shapes only rarely.
pub fn gen_history_phased(t: &mut Tape) -> History {
    let vc = 0x20 | t.below(2) as u8;
    let ctor = if t.coin() {
        Ctor::New { vc, afp: ((t.below(4) as u8) << 4) | t.below(3) as u8 }
    } else {
        Ctor::WithAddresses { vc, proto: t.below(3) as u8, addr: gen_addr(t) }
    };
    let base = match &ctor {
        Ctor::New { .. } => 0usize,
        Ctor::WithAddresses { addr, .. } => NEED[enc::family_code(addr) as usize],
    };
    let setlen = |t: &mut Tape| -> Op {
        Op::SetLength(match t.weighted(&[3, 2, 2, 1]) {
            0 => None,
            1 => Some(*t.pick(&[0u16, 7, 12, 300, 65535])),
            2 => Some(t.u16()),
            _ => Some(t.below(40) as u16),
        })
    };
    let sized = |t: &mut Tape, len: usize| -> Op {
        let seed = gen_seed(t);
        match t.below(7) {
            0 => Op::Payload { v: Val::Bytes { len, seed }, by_ref: t.coin() },
            1 => Op::Payload { v: Val::Section { len, seed }, by_ref: false },
            2 => Op::Payload { v: Val::Tlv { kind: gen_kind(t), len: len.saturating_sub(3), seed }, by_ref: false },
            3 => Op::Payload { v: Val::TupleU8 { kind: gen_kind(t), len: len.saturating_sub(3), seed }, by_ref: false },
            4 => Op::WriteTlv { kind: gen_kind(t), len: len.saturating_sub(3), seed },
            5 => Op::Payloads { vs: vec![Val::Bytes { len: len / 2, seed }, Val::Bytes { len: len - len / 2, seed: seed ^ 5 }], native: t.coin() },
            _ => Op::WriteTlvType { ty: t.below(12) as usize, len: len.saturating_sub(3), seed },
        }
    };
    let mut ops: Vec<Op> = Vec::new();
    let mut total = base;
    if t.chance(1, 2) {
        ops.push(setlen(t));
    }
    for _ in 0..t.usize_in(0, 3) {
        let v = gen_val(t, 0);
        total += ref_size(&v);
        ops.push(Op::Payload { v, by_ref: false });
    }
    if t.chance(1, 2) {
        ops.push(setlen(t));
    }
    // big phase
    let target: usize = match t.weighted(&[3, 3, 3, 2, 1]) {
        0 => 65535 - t.usize_in(0, 20),
        1 => 65535,
        2 => 65536 + t.usize_in(0, 20),
        3 => t.usize_in(66_000, 140_000),
        _ => 131_072 + t.usize_in(0, 8) - 4,
    };
    let mut guard = 0;
    while total < target && guard < 4 {
        guard += 1;
        let left = target - total;
        // a single value may not exceed 65535 (else it is refused and the history ends there); one time in eight it does
        let len = if left > 65_535 && !t.chance(1, 8) { t.usize_in(20_000, 65_535).min(left) } else { left };
        let len = len.max(3);
        ops.push(sized(t, len));
        total += len;
        if t.chance(1, 4) {
            ops.push(Op::Reserve(t.usize_in(0, 70_000)));
        }
    }
    match t.below(4) {
        0 => {}
        1 => ops.push(setlen(t)),
        2 => {
            let o = setlen(t);
            ops.push(o.clone());
            ops.push(o);
        }
        _ => {
            ops.push(setlen(t));
            ops.push(setlen(t));
        }
    }
    for _ in 0..t.weighted(&[3, 2, 1]) {
        let v = gen_val(t, 0);
        ops.push(Op::Payload { v, by_ref: false });
    }
    if t.chance(1, 3) {
        let o = setlen(t);
        if t.chance(1, 3) {
            ops.push(o.clone());
        }
        ops.push(o);
    }
    let mut h = History { ctor, ops };
    relate_explicit_lengths(t, &mut h);
    h
}

fn int_ty(v: &Val) -> usize {
    match v {
        Val::Int { ty, .. } => *ty,
        _ => 99,
    }
}

/// A fresh value of the same kind (and integer type) as `like`.
fn retype(like: &Val, t: &mut Tape, big: u32) -> Val {
    match like {
        Val::Int { ty, .. } => {
            let w = INT_WIDTHS[*ty];
            let image = t.u128();
            Val::Int { ty: *ty, image: if w == 16 { image } else { image & ((1u128 << (8 * w)) - 1) } }
        }
        Val::Bytes { .. } => Val::Bytes { len: gen_len(t, big), seed: gen_seed(t) },
        Val::Addr(_) => Val::Addr(gen_addr(t)),
        Val::Tlv { .. } => Val::Tlv { kind: gen_kind(t), len: gen_len(t, big), seed: gen_seed(t) },
        Val::TupleU8 { .. } => Val::TupleU8 { kind: gen_kind(t), len: gen_len(t, big), seed: gen_seed(t) },
        Val::TupleType { .. } => Val::TupleType { ty: t.below(12) as usize, len: gen_len(t, big), seed: gen_seed(t) },
        Val::Section { .. } => Val::Section { len: gen_len(t, big), seed: gen_seed(t) },
        Val::Type(_) => Val::Type(t.below(12) as usize),
        Val::Tlvs { .. } => Val::Tlvs { items: vec![(t.byte(), t.usize_in(0, 9), gen_seed(t))], advance: t.usize_in(0, 2) },
        Val::Custom { quirks, .. } => Val::Custom { len: gen_len(t, big), seed: gen_seed(t), quirks: *quirks },
    }
}

// ------------------------------------------------------------------------------------------
// reference encodings (R-ENC) of values

/// `None` when the value must be refused (TLV value / byte slice above 65535 bytes).
pub fn ref_encoding(v: &Val) -> Option<Vec<u8>> {
    match v {
        Val::Int { ty, image } => Some(enc::enc_int(INT_WIDTHS[*ty], *image)),
        Val::Bytes { len, seed } => {
            if *len > 65535 {
                None
            } else {
                Some(fill(*seed, *len))
            }
        }
        Val::Addr(a) => Some(enc::enc_addr(a)),
        Val::Tlv { kind, len, seed } | Val::TupleU8 { kind, len, seed } => enc::enc_tlv(*kind, &tlv_value(*kind, *seed, *len)),
        Val::TupleType { ty, len, seed } => enc::enc_tlv(enc::TYPE_CODES[*ty].1, &tlv_value(enc::TYPE_CODES[*ty].1, *seed, *len)),
        Val::Section { len, seed } => Some(fill(*seed, *len)),
        Val::Type(ty) => Some(vec![enc::TYPE_CODES[*ty].1]),
        Val::Custom { len, seed, .. } => Some(fill(*seed, *len)),
        Val::Tlvs { items, .. } => {
            let mut out = Vec::new();
            for (k, l, s) in items {
                out.extend(enc::enc_tlv(*k, &fill(*s, *l))?);
            }
            Some(out)
        }
    }
}

/// Size the reference encoding would have (also for refused values).
pub fn ref_size(v: &Val) -> usize {
    match v {
        Val::Int { ty, .. } => INT_WIDTHS[*ty],
        Val::Bytes { len, .. } | Val::Section { len, .. } | Val::Custom { len, .. } => *len,
        Val::Addr(a) => NEED[enc::family_code(a) as usize],
        Val::Tlv { len, .. } | Val::TupleU8 { len, .. } | Val::TupleType { len, .. } => 3 + *len,
        Val::Type(_) => 1,
        Val::Tlvs { items, .. } => items.iter().map(|(_, l, _)| 3 + *l).sum(),
    }
}

/// Must this single value be refused on its own (statement of C09 / C20)?
pub fn must_refuse(v: &Val) -> bool {
    match v {
        Val::Bytes { len, .. } | Val::Tlv { len, .. } | Val::TupleU8 { len, .. } | Val::TupleType { len, .. } => *len > 65535,
        _ => false,
    }
}

// ------------------------------------------------------------------------------------------
// applying values through the real API

/// Delegating payload type for heterogeneous batches: implements the public trait by calling the
/// wrapped value's own implementation.
pub struct AnyP<'a>(pub &'a Val, pub &'a [u8]);

macro_rules! with_int {
    ($ty:expr, $image:expr, $x:ident, $body:expr) => {
        match $ty {
            0 => { let $x = $image as u8; $body }
            1 => { let $x = $image as u16; $body }
            2 => { let $x = $image as u32; $body }
            3 => { let $x = $image as u64; $body }
            4 => { let $x = $image as u128; $body }
            5 => { let $x = $image as usize; $body }
            6 => { let $x = $image as i8; $body }
            7 => { let $x = $image as i16; $body }
            8 => { let $x = $image as i32; $body }
            9 => { let $x = $image as i64; $body }
            10 => { let $x = $image as i128; $body }
            _ => { let $x = $image as isize; $body }
        }
    };
}

/// The content bytes a value needs at run time (value bytes of a TLV, the slice, the section).
/// The value of a TLV of type `kind`: filler by seed, except that for SEED_NESTED the value is itself the encoding of a TLV
/// of the same type (type byte, big-endian length of the rest, the rest) - what a forwarder produces that wraps a
/// received TLV once more.
pub fn tlv_value(kind: u8, seed: u32, len: usize) -> Vec<u8> {
    if seed == crate::engine::SEED_NESTED && len >= 3 {
        let mut v = vec![kind, ((len - 3) >> 8) as u8, (len - 3) as u8];
        v.extend(fill(7, len - 3));
        return v;
    }
    if seed == crate::engine::SEED_TYPED {
        // what this type carries in practice, in the spellings senders get slightly wrong: the AWS VPC endpoint id without its
        // subtype byte, C strings with their terminator, an SSL container that begins with the version sub-TLV and has no
        // client bit set, upper-case UUID text, a host name with the root dot
        let pat: &[u8] = match kind {
            0xEA => b"vpce-08d2bf15fac5001c9",
            0xEE => b"\x01\x01\x00\x00\x00",
            0xE0 => b"gcp-psc-connection-id",
            0x01 => b"http/1.1",
            0x02 => b"example.org.",
            0x03 => b"\0\0\0\0",
            0x04 => b"\0\0\0\0\0\0\0\0",
            0x05 => b"F81D4FAE-7DEC-11D0-A765-00A0C91E6BF6",
            0x20 => b"\x00\x00\x00\x00\x00\x21\x00\x07TLSv1.3\x22\x00\x0bexample.org",
            0x21 => b"TLSv1.3\0",
            0x22 => b"client.example.org\0",
            0x23 => b"ECDHE-RSA-AES128-GCM-SHA256\0",
            0x24 => b"SHA256\0",
            0x25 => b"RSA2048\0",
            0x30 => b"netns-blue\0",
            _ => b"key=value;id=42\0",
        };
        let mut v: Vec<u8> = pat.iter().copied().take(len).collect();
        // longer values: the text once, then zeros (a fixed-size field) or - for odd lengths - the text repeated
        while v.len() < len {
            let b = if len % 2 == 1 { pat[v.len() % pat.len()] } else { 0 };
            v.push(b);
        }
        return v;
    }
    fill(seed, len)
}

pub fn content(v: &Val) -> Vec<u8> {
    match v {
        Val::Tlv { kind, len, seed } | Val::TupleU8 { kind, len, seed } => tlv_value(*kind, *seed, *len),
        Val::TupleType { ty, len, seed } => tlv_value(enc::TYPE_CODES[*ty].1, *seed, *len),
        Val::Bytes { len, seed } | Val::Section { len, seed } | Val::Custom { len, seed, .. } => fill(*seed, *len),
        // the section bytes, encoded by the harness itself
        Val::Tlvs { items, .. } => gen::enc_tlv_list(&items.iter().map(|(k, l, s)| (*k, fill(*s, *l))).collect::<Vec<_>>()),
        _ => Vec::new(),
    }
}

impl<'a> WriteToHeader for AnyP<'a> {
    fn write_to(&self, w: &mut Writer) -> io::Result<usize> {
        write_val(self.0, self.1, w)
    }
}

/// A payload type defined by the caller (here: the harness). Its `write_to` does not go through `io::Write`: it takes the
/// buffer out of the writer (`Writer: Default`), works on the plain `Vec`, and hands it back - all public API.
pub struct CustomP<'a> {
    pub data: &'a [u8],
    pub quirks: u8,
    pub calls: std::cell::Cell<u32>,
}
impl<'a> CustomP<'a> {
    pub fn new(data: &'a [u8], quirks: u8) -> Self {
        CustomP { data, quirks, calls: std::cell::Cell::new(0) }
    }
}
impl<'a> WriteToHeader for CustomP<'a> {
    fn write_to(&self, w: &mut Writer) -> io::Result<usize> {
        let n = self.calls.get();
        self.calls.set(n + 1);
        if self.quirks & 4 != 0 && n > 0 {
            // drained: a second call has nothing of the payload left to give
            let mut bytes = std::mem::take(w).finish();
            bytes.extend_from_slice(b"<called-again>");
            *w = Writer::from(bytes);
            return Ok(14);
        }
        let mut bytes = std::mem::take(w).finish();
        if self.quirks & 1 != 0 && bytes.len() >= 16 {
            // whatever it leaves in the length field of a fixed part it finds there is not its business: `build` states the length
            bytes[14] = 0xAB;
            bytes[15] = 0xCD;
        }
        bytes.extend_from_slice(self.data);
        *w = Writer::from(bytes);
        if self.quirks & 2 != 0 {
            // what the output contains is what counts, not what a payload claims
            return Ok(0);
        }
        Ok(self.data.len())
    }
}

/// `value.write_to(writer)` through the value's own impl.
pub fn write_val(v: &Val, data: &[u8], w: &mut Writer) -> io::Result<usize> {
    match v {
        Val::Int { ty, image } => with_int!(*ty, *image, x, x.write_to(w)),
        Val::Bytes { .. } => data.write_to(w),
        Val::Addr(a) => imp::mk_addr2(a).write_to(w),
        // an owned TLV (Cow::Owned, as `to_owned()` gives) when the value length is odd, a borrowed one otherwise
        Val::Tlv { kind, .. } if data.len() % 2 == 1 => TypeLengthValue::new(*kind, data).to_owned().write_to(w),
        // ... made with `From<(kind, bytes)>` / `.into()` instead of `new` when the length is a multiple of four
        Val::Tlv { kind, .. } if data.len() % 4 == 0 => {
            let t: TypeLengthValue = (*kind, data).into();
            t.write_to(w)
        }
        Val::Tlv { kind, .. } => TypeLengthValue::new(*kind, data).write_to(w),
        Val::TupleU8 { kind, .. } => (*kind, data).write_to(w),
        Val::TupleType { ty, .. } => (TYPES[*ty], data).write_to(w),
        Val::Section { .. } => TypeLengthValues::from(data).write_to(w),
        Val::Type(ty) => TYPES[*ty].write_to(w),
        Val::Custom { quirks, .. } => CustomP::new(data, *quirks).write_to(w),
        Val::Tlvs { advance, .. } => advanced(data, *advance).write_to(w),
    }
}

/// The section as an iterator on which `next()` has been called `n` times.
pub fn advanced(data: &[u8], n: usize) -> TypeLengthValues<'_> {
    let mut it = TypeLengthValues::from(data);
    for _ in 0..n {
        let _ = it.next();
    }
    it
}

/// `value.to_bytes()` through the value's own impl.
pub fn to_bytes_val(v: &Val, data: &[u8]) -> io::Result<Vec<u8>> {
    match v {
        Val::Int { ty, image } => with_int!(*ty, *image, x, x.to_bytes()),
        Val::Bytes { .. } => data.to_bytes(),
        Val::Addr(a) => imp::mk_addr2(a).to_bytes(),
        Val::Tlv { kind, .. } if data.len() % 2 == 1 => TypeLengthValue::new(*kind, data).to_owned().to_bytes(),
        Val::Tlv { kind, .. } if data.len() % 4 == 0 => TypeLengthValue::from((*kind, data)).to_bytes(),
        Val::Tlv { kind, .. } => TypeLengthValue::new(*kind, data).to_bytes(),
        Val::TupleU8 { kind, .. } => (*kind, data).to_bytes(),
        Val::TupleType { ty, .. } => (TYPES[*ty], data).to_bytes(),
        Val::Section { .. } => TypeLengthValues::from(data).to_bytes(),
        Val::Type(ty) => TYPES[*ty].to_bytes(),
        Val::Custom { quirks, .. } => CustomP::new(data, *quirks).to_bytes(),
        Val::Tlvs { advance, .. } => advanced(data, *advance).to_bytes(),
    }
}

fn payload(b: Builder, v: &Val, data: &[u8], by_ref: bool) -> io::Result<Builder> {
    match v {
        Val::Int { ty, image } => with_int!(*ty, *image, x, if by_ref { b.write_payload(&x) } else { b.write_payload(x) }),
        Val::Bytes { .. } => {
            if by_ref {
                b.write_payload(&data)
            } else {
                b.write_payload(data)
            }
        }
        Val::Addr(a) => {
            let a = imp::mk_addr2(a);
            if by_ref {
                b.write_payload(&a)
            } else {
                b.write_payload(a)
            }
        }
        Val::Tlv { kind, .. } => {
            let tlv = if data.len() % 2 == 1 { TypeLengthValue::new(*kind, data).to_owned() } else { TypeLengthValue::new(*kind, data) };
            if by_ref {
                b.write_payload(&tlv)
            } else {
                b.write_payload(tlv)
            }
        }
        Val::TupleU8 { kind, .. } => {
            let tup = (*kind, data);
            if by_ref {
                b.write_payload(&tup)
            } else {
                b.write_payload(tup)
            }
        }
        Val::TupleType { ty, .. } => {
            let tup = (TYPES[*ty], data);
            if by_ref {
                b.write_payload(&tup)
            } else {
                b.write_payload(tup)
            }
        }
        Val::Section { .. } => {
            let s = TypeLengthValues::from(data);
            if by_ref {
                b.write_payload(&s)
            } else {
                b.write_payload(s)
            }
        }
        Val::Type(ty) => {
            if by_ref {
                b.write_payload(&TYPES[*ty])
            } else {
                b.write_payload(TYPES[*ty])
            }
        }
        Val::Tlvs { advance, .. } => {
            let it = advanced(data, *advance);
            if by_ref {
                b.write_payload(&it)
            } else {
                b.write_payload(it)
            }
        }
        Val::Custom { quirks, .. } => {
            let c = CustomP::new(data, *quirks);
            if by_ref {
                b.write_payload(&c)
            } else {
                b.write_payload(c)
            }
        }
    }
}

fn batch_native(b: Builder, vs: &[Val], datas: &[Vec<u8>]) -> io::Result<Builder> {
    if vs.is_empty() {
        return b.write_payloads(Vec::<u8>::new());
    }
    match &vs[0] {
        Val::Int { ty, .. } => {
            let images: Vec<u128> = vs.iter().map(|v| if let Val::Int { image, .. } = v { *image } else { 0 }).collect();
            match *ty {
                0 => b.write_payloads(images.iter().map(|i| *i as u8).collect::<Vec<_>>()),
                1 => b.write_payloads(images.iter().map(|i| *i as u16).collect::<Vec<_>>()),
                2 => b.write_payloads(images.iter().map(|i| *i as u32).collect::<Vec<_>>()),
                3 => b.write_payloads(images.iter().map(|i| *i as u64).collect::<Vec<_>>()),
                4 => b.write_payloads(images.iter().map(|i| *i as u128).collect::<Vec<_>>()),
                5 => b.write_payloads(images.iter().map(|i| *i as usize).collect::<Vec<_>>()),
                6 => b.write_payloads(images.iter().map(|i| *i as i8).collect::<Vec<_>>()),
                7 => b.write_payloads(images.iter().map(|i| *i as i16).collect::<Vec<_>>()),
                8 => b.write_payloads(images.iter().map(|i| *i as i32).collect::<Vec<_>>()),
                9 => b.write_payloads(images.iter().map(|i| *i as i64).collect::<Vec<_>>()),
                10 => b.write_payloads(images.iter().map(|i| *i as i128).collect::<Vec<_>>()),
                _ => b.write_payloads(images.iter().map(|i| *i as isize).collect::<Vec<_>>()),
            }
        }
        Val::Bytes { .. } => b.write_payloads(datas.iter().map(|d| d.as_slice())),
        Val::Addr(_) => b.write_payloads(vs.iter().map(|v| if let Val::Addr(a) = v { imp::mk_addr2(a) } else { ppp::v2::Addresses::Unspecified }).collect::<Vec<_>>()),
        Val::Tlv { .. } => b.write_payloads(vs.iter().zip(datas).map(|(v, d)| TypeLengthValue::new(if let Val::Tlv { kind, .. } = v { *kind } else { 0 }, d.as_slice()))),
        Val::TupleU8 { .. } => b.write_payloads(vs.iter().zip(datas).map(|(v, d)| (if let Val::TupleU8 { kind, .. } = v { *kind } else { 0 }, d.as_slice()))),
        Val::TupleType { .. } => b.write_payloads(vs.iter().zip(datas).map(|(v, d)| (TYPES[if let Val::TupleType { ty, .. } = v { *ty } else { 0 }], d.as_slice()))),
        Val::Section { .. } => b.write_payloads(datas.iter().map(|d| TypeLengthValues::from(d.as_slice()))),
        Val::Type(_) => b.write_payloads(vs.iter().map(|v| TYPES[if let Val::Type(t) = v { *t } else { 0 }]).collect::<Vec<_>>()),
        Val::Custom { .. } => b.write_payloads(vs.iter().zip(datas).map(|(v, d)| CustomP::new(d.as_slice(), if let Val::Custom { quirks, .. } = v { *quirks } else { 0 }))),
        Val::Tlvs { .. } => b.write_payloads(vs.iter().zip(datas).map(|(v, d)| advanced(d.as_slice(), if let Val::Tlvs { advance, .. } = v { *advance } else { 0 }))),
    }
}

/// Is this batch homogeneous (so that the native element type can be used)?
pub fn homogeneous(vs: &[Val]) -> bool {
    vs.windows(2).all(|w| std::mem::discriminant(&w[0]) == std::mem::discriminant(&w[1]) && int_ty(&w[0]) == int_ty(&w[1]))
}

#[derive(Clone, Debug, PartialEq)]
pub enum Outcome {
    Ok,
    Err(String),
    Panic(String),
}

#[derive(Clone, Debug)]
pub struct Trace {
    /// outcome of each op that was attempted (the first Err / Panic ends the history)
    pub ops: Vec<Outcome>,
    /// result of build, if reached
    pub build: Option<Result<Vec<u8>, String>>,
    pub build_panic: Option<String>,
}

pub fn protocol_of(p: u8) -> Protocol {
    match p {
        0 => Protocol::Unspecified,
        1 => Protocol::Stream,
        _ => Protocol::Datagram,
    }
}

/// Unrelated calls that FAIL, made on the current thread before a build is judged: a batch whose second item is too
/// large, a single oversize TLV, a TLV written into a writer that is already full. A builder or writer that fails must
/// leave nothing behind that the next, unrelated build could pick up.
pub fn failing_calls_noise() {
    let big = vec![0x5Au8; 65_536];
    let _ = crate::engine::guard(|| {
        let _ = Builder::new(0x21, 0x11).write_payloads([(0x30u8, &b"edge"[..]), (0x04u8, &big[..])]);
        let _ = Builder::new(0x21, 0x11).write_payload(7u8).and_then(|b| b.write_tlv(0x01u8, &big));
        let mut full = Writer::from(vec![0u8; 65_600]);
        let _ = (0x20u8, &[1u8, 2, 3, 4, 5][..]).write_to(&mut full);
        let _ = TypeLengthValue::new(0x02u8, b"x").write_to(&mut full);
    });
}

pub fn with_addresses_from_sockets(vc: u8, proto: u8, addr: &RefAddr2, salt: usize) -> Builder {
    use std::net::{Ipv4Addr, Ipv6Addr, SocketAddr, SocketAddrV4, SocketAddrV6};
    let scope = 1 + (salt as u32 % 5);
    match imp::mk_addr2(addr) {
        ppp::v2::Addresses::IPv4(a) => Builder::with_addresses(vc, protocol_of(proto), (SocketAddr::V4(SocketAddrV4::new(a.source_address, a.source_port)), SocketAddr::V4(SocketAddrV4::new(a.destination_address, a.destination_port)))),
        ppp::v2::Addresses::IPv6(a) => Builder::with_addresses(
            vc,
            protocol_of(proto),
            (SocketAddr::V6(SocketAddrV6::new(a.source_address, a.source_port, 9, scope)), SocketAddr::V6(SocketAddrV6::new(a.destination_address, a.destination_port, 0, scope + 1))),
        ),
        ppp::v2::Addresses::Unspecified => {
            let v4 = SocketAddr::V4(SocketAddrV4::new(Ipv4Addr::new(192, 0, 2, 1 + (salt % 7) as u8), 1000 + salt as u16 % 50));
            let ip6 = if salt % 2 == 0 { Ipv4Addr::new(198, 51, 100, 7).to_ipv6_mapped() } else { Ipv6Addr::new(0x2001, 0xdb8, 0, 0, 0, 0, 0, 2) };
            let v6 = SocketAddr::V6(SocketAddrV6::new(ip6, 443, 0, scope));
            if salt % 4 < 2 {
                Builder::with_addresses(vc, protocol_of(proto), (v4, v6))
            } else {
                Builder::with_addresses(vc, protocol_of(proto), (v6, v4))
            }
        }
        other => Builder::with_addresses(vc, protocol_of(proto), other),
    }
}

/// Execute a history against the real builder.
pub fn execute(h: &History) -> Trace {
    let mut trace = Trace { ops: Vec::new(), build: None, build_panic: None };
    let made = crate::engine::guard(|| match &h.ctor {
        Ctor::New { vc, afp } => Builder::new(*vc, *afp),
        // one history in three hands the constructor a pair of socket addresses instead of the address value (IPv4 / IPv6;
        // for "no address" a pair of different families, the IPv6 one IPv4-mapped half of the time): the same header
        Ctor::WithAddresses { vc, proto, addr } if (h.ops.len() + *vc as usize) % 3 == 0 => with_addresses_from_sockets(*vc, *proto, addr, h.ops.len()),
        Ctor::WithAddresses { vc, proto, addr } => Builder::with_addresses(*vc, protocol_of(*proto), imp::mk_addr2(addr)),
    });
    let mut b = match made {
        Ok(b) => b,
        Err(p) => {
            trace.build_panic = Some(format!("constructor panicked: {}", p));
            return trace;
        }
    };
    for op in &h.ops {
        let r = crate::engine::guard(|| -> io::Result<Builder> {
            match op {
                Op::Reserve(n) => Ok(b.reserve_capacity(*n)),
                Op::SetLength(x) => Ok(match x {
                    Some(v) => b.set_length(*v),
                    None => b.set_length(None),
                }),
                Op::Payload { v, by_ref } => {
                    let data = content(v);
                    payload(b, v, &data, *by_ref)
                }
                Op::Payloads { vs, native } => {
                    let datas: Vec<Vec<u8>> = vs.iter().map(content).collect();
                    if *native && homogeneous(vs) {
                        batch_native(b, vs, &datas)
                    } else {
                        // the same batch through iterators with different size hints: exact (map), lower bound 0 (filter),
                        // no bounds at all (from_fn)
                        let items = vs.iter().zip(datas.iter()).map(|(v, d)| AnyP(v, d.as_slice()));
                        match vs.len() % 3 {
                            // exact count unknown, upper bound absurdly loose (an unbounded source cut off by map_while)
                            1 if vs.len() % 2 == 0 => {
                                let mut it = items;
                                b.write_payloads((0..usize::MAX).map_while(move |_| it.next()))
                            }
                            1 => b.write_payloads(items.filter(|_| true)),
                            2 => {
                                // ... and not fused: once it has said None it would go on with other items if asked again (a
                                // channel drained with try_iter, a closure). The batch ends at the first None.
                                let mut it = items;
                                let mut ended = false;
                                let mut extra = 40;
                                let junk = Val::Int { ty: 0, image: 0xEE };
                                let junk_ref: &Val = &junk;
                                b.write_payloads(std::iter::from_fn(move || {
                                    if ended {
                                        if extra == 0 {
                                            return None;
                                        }
                                        extra -= 1;
                                        return Some(AnyP(junk_ref, &[]));
                                    }
                                    let x = it.next();
                                    if x.is_none() {
                                        ended = true;
                                    }
                                    x
                                }))
                            }
                            _ => b.write_payloads(items),
                        }
                    }
                }
                Op::WriteTlv { kind, len, seed } => b.write_tlv(*kind, &tlv_value(*kind, *seed, *len)),
                Op::WriteTlvType { ty, len, seed } => b.write_tlv(TYPES[*ty], &tlv_value(enc::TYPE_CODES[*ty].1, *seed, *len)),
            }
        });
        match r {
            Ok(Ok(nb)) => {
                trace.ops.push(Outcome::Ok);
                b = nb;
            }
            Ok(Err(e)) => {
                trace.ops.push(Outcome::Err(format!("{:?}", e.kind())));
                return trace;
            }
            Err(p) => {
                trace.ops.push(Outcome::Panic(p));
                return trace;
            }
        }
    }
    match crate::engine::guard(|| b.build()) {
        Ok(Ok(bytes)) => trace.build = Some(Ok(bytes)),
        Ok(Err(e)) => trace.build = Some(Err(format!("{:?}", e.kind()))),
        Err(p) => trace.build_panic = Some(p),
    }
    trace
}

/// Values written by an op, in order.
pub fn op_values(op: &Op) -> Vec<Val> {
    match op {
        Op::Payload { v, .. } => vec![v.clone()],
        Op::Payloads { vs, .. } => vs.clone(),
        Op::WriteTlv { kind, len, seed } => vec![Val::Tlv { kind: *kind, len: *len, seed: *seed }],
        Op::WriteTlvType { ty, len, seed } => vec![Val::Tlv { kind: enc::TYPE_CODES[*ty].1, len: *len, seed: *seed }],
        _ => vec![],
    }
}

pub fn ctor_parts(c: &Ctor) -> (u8, u8, RefAddr2) {
    match c {
        Ctor::New { vc, afp } => (*vc, *afp, RefAddr2::Unspec),
        Ctor::WithAddresses { vc, proto, addr } => (*vc, (enc::family_code(addr) << 4) | *proto, addr.clone()),
    }
}

pub fn fixed_prefix(vc: u8, afp: u8) -> Vec<u8> {
    let mut v = SIG.to_vec();
    v.push(vc);
    v.push(afp);
    v
}
