//! Thin adapters around the code under test: every call is wrapped in `catch_unwind`, and values
//! are converted to the harness's own neutral types through public fields only.

use crate::engine::guard;
use crate::oracle::v1::RefAddr;
use crate::oracle::v2::RefAddr2;
use ppp::v1;
use ppp::v2;
use ppp::{HeaderResult, PartialResult};

pub type R1b<'a> = Result<v1::Header<'a>, v1::BinaryParseError>;
pub type R1s<'a> = Result<v1::Header<'a>, v1::ParseError>;
pub type R2<'a> = Result<v2::Header<'a>, v2::ParseError>;

pub fn v1_bytes(input: &[u8]) -> Result<R1b<'_>, String> {
    guard(|| v1::Header::try_from(input))
}
pub fn v1_str(input: &str) -> Result<R1s<'_>, String> {
    guard(|| v1::Header::try_from(input))
}
pub fn v1_fromstr_header(input: &str) -> Result<Result<v1::Header<'static>, v1::ParseError>, String> {
    guard(|| input.parse::<v1::Header<'static>>())
}
pub fn v1_fromstr_addr(input: &str) -> Result<Result<v1::Addresses, v1::ParseError>, String> {
    guard(|| input.parse::<v1::Addresses>())
}
pub fn v2_parse(input: &[u8]) -> Result<R2<'_>, String> {
    guard(|| v2::Header::try_from(input))
}
pub fn auto(input: &[u8]) -> Result<HeaderResult<'_>, String> {
    guard(|| HeaderResult::parse(input))
}

pub fn addr1(a: &v1::Addresses) -> RefAddr {
    match a {
        v1::Addresses::Unknown => RefAddr::Unknown,
        v1::Addresses::Tcp4(x) => RefAddr::Tcp4 {
            src: x.source_address.octets(),
            dst: x.destination_address.octets(),
            sport: x.source_port,
            dport: x.destination_port,
        },
        v1::Addresses::Tcp6(x) => RefAddr::Tcp6 {
            src: x.source_address.segments(),
            dst: x.destination_address.segments(),
            sport: x.source_port,
            dport: x.destination_port,
        },
    }
}

pub fn addr2(a: &v2::Addresses) -> RefAddr2 {
    match a {
        v2::Addresses::Unspecified => RefAddr2::Unspec,
        v2::Addresses::IPv4(x) => RefAddr2::V4 {
            src: x.source_address.octets(),
            dst: x.destination_address.octets(),
            sport: x.source_port,
            dport: x.destination_port,
        },
        v2::Addresses::IPv6(x) => RefAddr2::V6 {
            src: u128::from_be_bytes(x.source_address.octets()),
            dst: u128::from_be_bytes(x.destination_address.octets()),
            sport: x.source_port,
            dport: x.destination_port,
        },
        v2::Addresses::Unix(x) => RefAddr2::Unix { src: x.source.to_vec(), dst: x.destination.to_vec() },
    }
}

/// Build the library's address value from the harness's neutral one.
pub fn mk_addr2(a: &RefAddr2) -> v2::Addresses {
    match a {
        RefAddr2::Unspec => v2::Addresses::Unspecified,
        RefAddr2::V4 { src, dst, sport, dport } if (src[3] ^ dst[3] ^ *sport as u8) & 1 == 1 => v2::Addresses::IPv4(v2::IPv4::new(*src, *dst, *sport, *dport)),
        RefAddr2::V6 { src, dst, sport, dport } if (src ^ dst ^ *dport as u128) & 1 == 1 => v2::Addresses::IPv6(v2::IPv6::new(src.to_be_bytes(), dst.to_be_bytes(), *sport, *dport)),
        RefAddr2::V4 { src, dst, sport, dport } => v2::Addresses::IPv4(v2::IPv4 {
            source_address: std::net::Ipv4Addr::from(*src),
            destination_address: std::net::Ipv4Addr::from(*dst),
            source_port: *sport,
            destination_port: *dport,
        }),
        RefAddr2::V6 { src, dst, sport, dport } => v2::Addresses::IPv6(v2::IPv6 {
            source_address: std::net::Ipv6Addr::from(src.to_be_bytes()),
            destination_address: std::net::Ipv6Addr::from(dst.to_be_bytes()),
            source_port: *sport,
            destination_port: *dport,
        }),
        RefAddr2::Unix { src, dst } => {
            let mut s = [0u8; 108];
            let mut d = [0u8; 108];
            s.copy_from_slice(src);
            d.copy_from_slice(dst);
            // both public ways of making the value: the struct literal, and (for every other value, by content) the constructor
            if src.iter().chain(dst.iter()).fold(0u8, |x, b| x.wrapping_add(*b)) & 1 == 0 {
                v2::Addresses::Unix(v2::Unix { source: s, destination: d })
            } else {
                v2::Addresses::Unix(v2::Unix::new(s, d))
            }
        }
    }
}

pub fn mk_addr1(a: &RefAddr) -> v1::Addresses {
    match a {
        RefAddr::Unknown => v1::Addresses::Unknown,
        RefAddr::Tcp4 { src, dst, sport, dport } => v1::Addresses::Tcp4(v1::IPv4 {
            source_address: std::net::Ipv4Addr::from(*src),
            destination_address: std::net::Ipv4Addr::from(*dst),
            source_port: *sport,
            destination_port: *dport,
        }),
        RefAddr::Tcp6 { src, dst, sport, dport } => v1::Addresses::Tcp6(v1::IPv6 {
            source_address: std::net::Ipv6Addr::from(*src),
            destination_address: std::net::Ipv6Addr::from(*dst),
            source_port: *sport,
            destination_port: *dport,
        }),
    }
}

/// Completeness flags of a result, read through the public trait: (is_incomplete, is_complete).
pub fn flags<T: PartialResult>(r: &T) -> (bool, bool) {
    (r.is_incomplete(), r.is_complete())
}

pub fn show<T: std::fmt::Debug + PartialResult>(r: &Result<T, String>) -> String {
    match r {
        Err(p) => format!("PANIC({})", p),
        Ok(x) => format!("{} [incomplete={}]", short(&format!("{:?}", x)), x.is_incomplete()),
    }
}

pub fn short(s: &str) -> String {
    if s.len() > 300 {
        let mut end = 300;
        while !s.is_char_boundary(end) {
            end -= 1;
        }
        format!("{}...", &s[..end])
    } else {
        s.to_string()
    }
}

pub fn clone_pe(e: &v1::ParseError) -> v1::ParseError {
    use v1::ParseError::*;
    match e {
        InvalidPrefix => InvalidPrefix,
        Partial => Partial,
        MissingPrefix => MissingPrefix,
        MissingNewLine => MissingNewLine,
        MissingProtocol => MissingProtocol,
        MissingSourceAddress => MissingSourceAddress,
        MissingDestinationAddress => MissingDestinationAddress,
        MissingSourcePort => MissingSourcePort,
        MissingDestinationPort => MissingDestinationPort,
        HeaderTooLong => HeaderTooLong,
        InvalidProtocol => InvalidProtocol,
        InvalidSuffix => InvalidSuffix,
        InvalidSourceAddress(a) => InvalidSourceAddress(a.clone()),
        InvalidDestinationAddress(a) => InvalidDestinationAddress(a.clone()),
        InvalidSourcePort(a) => InvalidSourcePort(a.clone()),
        InvalidDestinationPort(a) => InvalidDestinationPort(a.clone()),
    }
}
