//! C14 — v2 header views partition the header consistently (identities against the raw input).

use crate::engine::{hex, CaseIo, Fail, Runner, Stats, Tape, Verdict};
use crate::gen;
use crate::imp;
use crate::oracle::v2::{decode_addr, NEED};
use crate::props::c02::shape2;
use ppp::v2;

const ENTRY: &str = "v2::Header accessors";

fn views(x: &[u8], h: &v2::Header<'_>, which: &str) -> Verdict {
    let fail = |what: &str, exp: String, obs: String| Err(Fail::new(format!("{}:{}", what, which), shape2(x), ENTRY, exp, obs));
    let l = ((x[14] as usize) << 8) | x[15] as usize;
    let fam = (x[13] >> 4) as usize;
    let payload = &x[16..16 + l];
    let ab = h.address_bytes();
    let tb = h.tlv_bytes();
    let mut cat = ab.to_vec();
    cat.extend_from_slice(tb);
    if cat != payload {
        return fail("concat", format!("address_bytes ++ tlv_bytes == payload ({} bytes)", l), format!("{} + {} bytes, differs", ab.len(), tb.len()));
    }
    let want_ab = if fam == 0 { l } else { NEED[fam] };
    if ab.len() != want_ab {
        return fail("address-size", format!("{} address bytes for family nibble {}", want_ab, fam), format!("{}", ab.len()));
    }
    if ab != &payload[..want_ab] || tb != &payload[want_ab..] {
        return fail("view-position", "views are the leading / trailing part of the payload".into(), "different bytes".into());
    }
    if h.length() != l || h.len() != 16 + l || h.as_bytes().len() != 16 + l || h.as_bytes() != &x[..16 + l] {
        return fail(
            "lengths",
            format!("length()={} len()={} as_bytes()=first {} input bytes", l, 16 + l, 16 + l),
            format!("length()={} len()={} as_bytes().len()={}", h.length(), h.len(), h.as_bytes().len()),
        );
    }
    if h.is_empty() {
        return fail("is-empty", "is_empty() == false".into(), "true".into());
    }
    let fam_code = (x[13] & 0xF0) as u8;
    if h.address_family() as u8 != fam_code || h.addresses.address_family() as u8 != fam_code {
        return fail(
            "family",
            format!("family code {:#x}", fam_code),
            format!("header {:?}, addresses {:?}", h.address_family(), h.addresses.address_family()),
        );
    }
    let size = NEED[fam];
    let bl = h.address_family().byte_length();
    let want_bl = if fam == 0 { None } else { Some(size) };
    if bl != want_bl || h.addresses.len() != size || h.addresses.is_empty() != (fam == 0) || u16::from(h.address_family()) != size as u16 {
        return fail(
            "size-table",
            format!("byte_length {:?}, Addresses::len {}, is_empty {}, u16::from {}", want_bl, size, fam == 0, size),
            format!("byte_length {:?}, Addresses::len {}, is_empty {}, u16::from {}", bl, h.addresses.len(), h.addresses.is_empty(), u16::from(h.address_family())),
        );
    }
    let dec = decode_addr(fam as u8, &payload[..size]);
    if imp::addr2(&h.addresses) != dec {
        return fail("address-fields", imp::short(&format!("{:?}", dec)), imp::short(&format!("{:?}", imp::addr2(&h.addresses))));
    }
    let tl = h.tlvs();
    if tl.as_bytes() != tb || tl.len() != tb.len() as u16 || tl.is_empty() != tb.is_empty() {
        return fail(
            "tlvs-view",
            format!("tlvs().as_bytes()==tlv_bytes, len {}, is_empty {}", tb.len(), tb.is_empty()),
            format!("len {}, is_empty {}", tl.len(), tl.is_empty()),
        );
    }
    // the views of the TLV iterator describe the section, not the iterator's progress: after one, two, all items have been
    // taken they are what they were (the same reading as C10 / C13 / C20: a partly consumed iterator is still the section)
    {
        let mut it = h.tlvs();
        for step in 0..3 {
            let advanced = match step {
                0 => it.next().is_some(),
                1 => it.next().is_some(),
                _ => it.by_ref().take(4096).count() > 0,
            };
            if it.as_bytes() != tb || it.len() != tb.len() as u16 || it.is_empty() != tb.is_empty() {
                return fail(
                    "tlvs-view-after-next",
                    format!("after taking items (step {}, advanced {}): as_bytes()==tlv_bytes ({} bytes), len, is_empty unchanged", step, advanced, tb.len()),
                    format!("as_bytes {} bytes, len {}, is_empty {}", it.as_bytes().len(), it.len(), it.is_empty()),
                );
            }
        }
    }
    if h.version as u8 != (x[12] & 0xF0) || h.command as u8 != (x[12] & 0x0F) || h.protocol as u8 != (x[13] & 0x0F) {
        return fail("control", "version/command/protocol equal the wire nibbles".into(), format!("{:?} {:?} {:?}", h.version, h.command, h.protocol));
    }
    Ok(())
}

/// Existing headers to `clone_from` onto: an owned 316-byte Unix header with TLV bytes, an owned 16-byte LOCAL header, a borrowed IPv4 header.
fn clone_targets() -> Vec<(&'static str, ppp::v2::Header<'static>)> {
    static LONG: std::sync::OnceLock<Vec<u8>> = std::sync::OnceLock::new();
    static SHORT: std::sync::OnceLock<Vec<u8>> = std::sync::OnceLock::new();
    static MID: std::sync::OnceLock<Vec<u8>> = std::sync::OnceLock::new();
    let long = LONG.get_or_init(|| {
        let mut v = crate::oracle::v2::SIG.to_vec();
        v.extend_from_slice(&[0x21, 0x31, 0x01, 0x2c]);
        v.extend(crate::engine::fill(0x51, 300));
        v
    });
    let short = SHORT.get_or_init(|| {
        let mut v = crate::oracle::v2::SIG.to_vec();
        v.extend_from_slice(&[0x20, 0x00, 0, 0]);
        v
    });
    let mid = MID.get_or_init(|| {
        let mut v = crate::oracle::v2::SIG.to_vec();
        v.extend_from_slice(&[0x21, 0x11, 0, 12, 9, 9, 9, 9, 8, 8, 8, 8, 0, 1, 0, 2]);
        v
    });
    let mut out = Vec::new();
    if let Ok(h) = ppp::v2::Header::try_from(&long[..]) {
        out.push(("clone_from-onto-longer-owned", h.to_owned()));
    }
    if let Ok(h) = ppp::v2::Header::try_from(&short[..]) {
        out.push(("clone_from-onto-shorter-owned", h.to_owned()));
    }
    if let Ok(h) = ppp::v2::Header::try_from(&mid[..]) {
        out.push(("clone_from-onto-borrowed", h));
    }
    out
}

pub fn judge(x: &Vec<u8>, st: &mut Stats) -> Verdict {
    let got = imp::v2_parse(x);
    let h = match &got {
        Ok(Ok(h)) => h,
        _ => {
            // a candidate the reference accepts but the parser rejects is C02's to report (counted as discarded);
            // a near-miss that both reject is simply not a header
            if matches!(crate::oracle::v2::v2_ref(x), crate::oracle::v2::V2Ref::Accept { .. }) {
                st.discard();
            } else {
                st.class("near-miss-not-accepted");
            }
            return Ok(());
        }
    };
    st.eval();
    let fam = x[13] >> 4;
    let l = h.header.len().saturating_sub(16);
    let c = format!("fam{}", fam);
    st.class(&c);
    if l > NEED[(fam & 3) as usize] {
        st.nontrivial(x.digest());
        st.class("with-tlv-bytes");
    }
    st.sample(&c, || format!("{} ({} bytes)", hex(&x[..x.len().min(40)]), x.len()));
    match crate::engine::guard(|| {
        views(x, h, "borrowed")?;
        let owned = h.to_owned();
        views(x, &owned, "owned")?;
        // a copy of a copy, and a clone, expose the same views
        let twice = owned.to_owned();
        drop(owned);
        views(x, &twice, "owned-twice")?;
        let cl = h.clone();
        views(x, &cl, "clone")?;
        // clone_from onto existing headers (a longer owned one, a shorter owned one, a borrowed one): the target
        // becomes a copy of this header, whatever it held before
        for (name, target) in clone_targets() {
            let mut t = target;
            t.clone_from(h);
            views(x, &t, name)?;
        }
        Ok(())
    }) {
        Ok(v) => v,
        // an accessor that panics on an accepted header has no value to satisfy the identities with
        Err(p) => Err(Fail::new("accessor-panics", shape2(x), ENTRY, "every view returns a value", format!("panic: {}", p))),
    }
}

pub fn gen_case(t: &mut Tape) -> Vec<u8> {
    // one candidate in seven is a near-miss (truncated at a special length, one field off): only what the parser
    // accepts is judged, so these matter exactly when a parser accepts something it should not
    if t.chance(1, 7) {
        return gen::gen_v2_mutant(t).0;
    }
    let mut x = gen::gen_v2_header(t).bytes;
    if t.chance(1, 12) && x.len() <= 4096 {
        // the very same header once or twice more behind it (keep-alive / health-check headers piling up in a slow reader's
        // buffer)
        let h = x.clone();
        for _ in 0..1 + t.below(2) {
            x.extend_from_slice(&h);
        }
    } else if t.coin() {
        x.extend(gen::gen_trailer(t, false).0);
    }
    x
}

/// All 24 valid control pairs x a spread of lengths over seeded payload bytes (shared by C13/C14).
pub fn valid_slice(seed: u64, quick: bool, shard: usize, nshards: usize, f: &mut dyn FnMut(&[u8]) -> bool) {
    let mut pair_index = 0usize;
    let mut buf = crate::oracle::v2::SIG.to_vec();
    buf.extend_from_slice(&[0, 0, 0, 0]);
    buf.extend(crate::engine::fill((seed as u32) | 1, 65535 + 4));
    for vc in [0x20u8, 0x21] {
        for afp in 0..=0x32u8 {
            if !crate::props::c02::valid_afp(afp) {
                continue;
            }
            pair_index += 1;
            if pair_index % nshards != shard {
                continue;
            }
            buf[12] = vc;
            buf[13] = afp;
            let need = NEED[(afp >> 4) as usize];
            let step = if quick { 97 } else { 7 };
            let mut l = need;
            while l <= 65535 {
                buf[14] = (l >> 8) as u8;
                buf[15] = l as u8;
                if !f(&buf[..16 + l + (l % 3)]) {
                    return;
                }
                l = if l < need + 40 || l > 65500 { l + 1 } else { l + step };
            }
        }
    }
}

pub fn run(r: &mut Runner) -> &'static str {
    r.rule = "inputs: accepted v2 headers - random (all families, TLV sections empty/well-formed/truncated/random, sizes to 65535, +- trailer) and the valid slice of the control \
              space (24 control pairs x lengths from the family minimum to 65535 over seeded bytes); oracle: algebraic identities between every view and the RAW input \
              (concatenation, sizes per family table, length field, family nibble, big-endian decode of the address view), borrowed and owned. \
              non-trivial = accepted header with bytes after the address block; distinct by SipHash of the input Added later: a copy of a copy, clone, clone_from onto longer / shorter / borrowed headers, near-miss candidates (special truncations), reused read buffer at unaligned offsets."
        .into();
    r.assumptions.push("conditioned on the parser accepting the candidate (C02 owns acceptance); rejected candidates are counted as discarded".into());
    let n = r.n(150_000, 3_000_000);
    r.random("c14.random", n, 200, &gen_case, &|x: &Vec<u8>, st: &mut Stats| crate::engine::in_arena(x, |v| judge(v, st)));
    let (seed, quick) = (r.seed, r.quick());
    let work = |shard: usize, n: usize, st: &mut Stats, _stop: &std::sync::atomic::AtomicBool| -> Option<(Vec<u8>, Fail)> {
        let mut out = None;
        valid_slice(seed, quick, shard, n, &mut |x| {
            let v = x.to_vec();
            if let Err(f) = judge(&v, st) {
                out = Some((v, f));
                return false;
            }
            true
        });
        out
    };
    r.bulk("c14.valid-slice", None, &work, &judge);
    "exploration"
}
