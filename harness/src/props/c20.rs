//! C20 — every encodable value appends exactly its wire encoding and reports its size.

use crate::bld::{self, Val};
use crate::engine::{fill, CaseIo, Fail, Runner, Stats, Tape, Verdict};
use crate::imp;
use ppp::v2::{WriteToHeader, Writer};
use serde_json::json;
use std::sync::atomic::AtomicBool;

/// The writer refuses once it holds more than a full-size header (16 + 65535 bytes).
const LIMIT: usize = 65551;

#[derive(Clone, Debug)]
pub struct Case {
    pub val: Val,
    pub prefill_len: usize,
    pub prefill_seed: u32,
}

impl CaseIo for Case {
    fn to_json(&self) -> serde_json::Value {
        json!({"value": self.val.to_json(), "prefill_len": self.prefill_len, "prefill_seed": self.prefill_seed})
    }
    fn from_json(v: &serde_json::Value) -> Option<Self> {
        Some(Case { val: Val::from_json(v.get("value")?)?, prefill_len: v.get("prefill_len")?.as_u64()? as usize, prefill_seed: v.get("prefill_seed")?.as_u64()? as u32 })
    }
    fn simpler(&self) -> Vec<Self> {
        let mut out = Vec::new();
        if self.prefill_len > 0 {
            out.push(Case { prefill_len: 0, ..self.clone() });
            out.push(Case { prefill_len: self.prefill_len / 2, ..self.clone() });
        }
        if self.prefill_seed != 0 {
            out.push(Case { prefill_seed: 0, ..self.clone() });
        }
        out
    }
}

fn shape(c: &Case) -> String {
    let name = match &c.val {
        Val::Int { ty, .. } => bld::INT_NAMES[*ty].to_string(),
        Val::Bytes { .. } => "bytes".into(),
        Val::Addr(a) => format!("addresses-fam{}", crate::oracle::enc::family_code(a)),
        Val::Tlv { .. } => "tlv".into(),
        Val::TupleU8 { .. } => "tuple_u8".into(),
        Val::TupleType { .. } => "tuple_type".into(),
        Val::Section { .. } => "section".into(),
        Val::Type(_) => "type".into(),
        Val::Tlvs { advance, .. } => if *advance > 0 { "tlvs-advanced".into() } else { "tlvs".into() },
    };
    let size = bld::ref_size(&c.val);
    let fits = c.prefill_len + size <= LIMIT;
    format!("{}{}{}", name, if bld::must_refuse(&c.val) { ",oversize" } else { "" }, if fits { "" } else { ",past-limit" })
}

pub fn judge(c: &Case, st: &mut Stats) -> Verdict {
    st.eval();
    let entry = "WriteToHeader::write_to / to_bytes";
    let enc = bld::ref_encoding(&c.val);
    let data = bld::content(&c.val);
    let prefill = fill(c.prefill_seed, c.prefill_len);
    let fail = |kind: &str, exp: String, obs: String| Err(Fail::new(kind, shape(c), entry, exp, obs));
    let run = crate::engine::guard(|| {
        let mut w = Writer::from(prefill.clone());
        let r = bld::write_val(&c.val, &data, &mut w);
        (r.map_err(|e| format!("{:?}", e.kind())), w.finish())
    });
    let (r, out) = match run {
        Ok(x) => x,
        Err(p) => return fail("panic", "returns".into(), format!("panic: {}", p)),
    };
    let tb = crate::engine::guard(|| bld::to_bytes_val(&c.val, &data).map_err(|e| format!("{:?}", e.kind())));
    let tb = match tb {
        Ok(x) => x,
        Err(p) => return fail("panic", "to_bytes returns".into(), format!("panic: {}", p)),
    };
    let cls = shape(c);
    st.class(&cls);
    st.sample(&cls, || imp::short(&c.to_json().to_string()));
    st.nontrivial(c.digest());
    match enc {
        None => {
            // too large for a 16-bit length: refused, nothing written
            if r.is_ok() || out != prefill {
                return fail(
                    "oversize-not-refused-cleanly",
                    "Err and the writer unchanged".into(),
                    format!("{:?}, writer grew by {} bytes", r, out.len() as i64 - prefill.len() as i64),
                );
            }
            if tb.is_ok() {
                return fail("oversize-to_bytes", "to_bytes() Err".into(), "Ok".into());
            }
            Ok(())
        }
        Some(e) => {
            let mut want = prefill.clone();
            want.extend_from_slice(&e);
            if c.prefill_len + e.len() <= LIMIT {
                if r != Ok(e.len()) || out != want {
                    return fail(
                        "append",
                        format!("Ok({}) and contents = prefill ++ encoding {}", e.len(), crate::engine::hex(&e[..e.len().min(24)])),
                        format!("{:?}, writer holds {} bytes, appended {}", r, out.len(), crate::engine::hex(&out[prefill.len().min(out.len())..][..out.len().saturating_sub(prefill.len()).min(24)])),
                    );
                }
            } else if let Ok(n) = r {
                // beyond a full-size header the outcome is open, but an Ok must still be honest
                if n != e.len() || out != want {
                    return fail("append-past-limit", format!("if Ok then Ok({}) with exactly the encoding appended", e.len()), format!("Ok({}), {} bytes held", n, out.len()));
                }
            }
            match &tb {
                Ok(b) if *b == e => {}
                other => {
                    return fail(
                        "to_bytes",
                        format!("to_bytes() == encoding ({} bytes)", e.len()),
                        match other {
                            Ok(b) => format!("{} bytes: {}", b.len(), crate::engine::hex(&b[..b.len().min(24)])),
                            Err(x) => format!("Err({})", x),
                        },
                    )
                }
            }
            // through a reference
            let by_ref = crate::engine::guard(|| {
                let mut w = Writer::from(prefill.clone());
                let any = bld::AnyP(&c.val, &data);
                let r = (&any).write_to(&mut w);
                (r.map_err(|e| format!("{:?}", e.kind())), w.finish())
            });
            if let Ok((r2, out2)) = by_ref {
                if r2 != r || out2 != out {
                    return fail("by-reference", "identical outcome through &T".into(), format!("{:?} vs {:?}", r2, r));
                }
            }
            Ok(())
        }
    }
}

pub fn gen_case(t: &mut Tape) -> Case {
    let val = bld::gen_val(t, 40);
    let size = bld::ref_size(&val);
    let (prefill_len, prefill_seed) = match t.weighted(&[3, 4, 3, 1]) {
        0 => (0, 0),
        1 => (t.usize_in(0, 64), t.u32()),
        2 => {
            // land prefill + encoding on the limit and just around it
            let delta = t.usize_in(0, 6) as i64 - 3;
            let target = LIMIT as i64 - delta - size as i64;
            (target.clamp(0, LIMIT as i64 + 4) as usize, t.u32())
        }
        _ => (t.usize_in(65_000, 65_560), t.u32()),
    };
    Case { val, prefill_len, prefill_seed }
}

pub fn run(r: &mut Runner) -> &'static str {
    r.rule = "inputs: a value of every WriteToHeader type (12 integer types at 0/min/max/random, address blocks of 4 families, TypeLengthValue, (u8,&[u8]), (Type,&[u8]), TypeLengthValues, [u8], Type; \
              value lengths 0..65536+) x writer prefill (empty, <= 64 random bytes, sized to land prefill+encoding at the 65551-byte limit -3..+3, 65000..65560). oracle: reference encoders R-ENC: \
              below the limit Ok(|enc|) and contents == prefill ++ enc, to_bytes() == enc, &T identical; oversize TLV value / slice -> Err, writer unchanged; beyond the limit only 'an Ok is honest'. \
              non-trivial = every case (each is a (value, prefill) pair); distinct by SipHash"
        .into();
    let n = r.n(200_000, 4_000_000);
    r.random("c20.values", n, 96, &gen_case, &judge);
    // every integer type at its extremes, every Type code, every TLV kind byte: exhaustive small sweep
    let work = |shard: usize, _n: usize, st: &mut Stats, _stop: &AtomicBool| -> Option<(Case, Fail)> {
        if shard != 0 {
            return None;
        }
        let mut cases: Vec<Case> = Vec::new();
        for ty in 0..12 {
            let w = bld::INT_WIDTHS[ty];
            let mask = if w == 16 { u128::MAX } else { (1u128 << (8 * w)) - 1 };
            for image in [0u128, 1, mask, mask >> 1, (mask >> 1) + 1, 0x0102030405060708090a0b0c0d0e0f10 & mask, 0x80 & mask, 0xff00 & mask] {
                for prefill_len in [0usize, 5] {
                    cases.push(Case { val: Val::Int { ty, image }, prefill_len, prefill_seed: 9 });
                }
            }
        }
        for ty in 0..12 {
            cases.push(Case { val: Val::Type(ty), prefill_len: 3, prefill_seed: 1 });
            for len in [0usize, 1, 255, 256, 65535, 65536] {
                cases.push(Case { val: Val::TupleType { ty, len, seed: 5 }, prefill_len: 0, prefill_seed: 0 });
            }
        }
        for kind in 0..=255u8 {
            for len in [0usize, 2, 300] {
                cases.push(Case { val: Val::Tlv { kind, len, seed: kind as u32 + 1 }, prefill_len: 1, prefill_seed: 2 });
                cases.push(Case { val: Val::TupleU8 { kind, len, seed: kind as u32 + 1 }, prefill_len: 1, prefill_seed: 2 });
            }
        }
        for len in [65534usize, 65535, 65536, 65537, 70000] {
            for v in [Val::Bytes { len, seed: 3 }, Val::Tlv { kind: 7, len, seed: 3 }, Val::TupleU8 { kind: 7, len, seed: 3 }, Val::Section { len, seed: 3 }] {
                for prefill_len in [0usize, 10, 16] {
                    cases.push(Case { val: v.clone(), prefill_len, prefill_seed: 4 });
                }
            }
        }
        for c in cases {
            if let Err(f) = judge(&c, st) {
                return Some((c, f));
            }
        }
        None
    };
    r.bulk("c20.sweep", Some("12 integer types x 8 extreme images x 2 prefills; 12 Type codes x 6 lengths; 256 TLV kind bytes x 3 lengths x 2 spellings; size boundaries 65534..70000 x 4 kinds x 3 prefills"), &work, &judge);
    "exploration"
}
