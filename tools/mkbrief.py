#!/usr/bin/env python3
"""tools/mkbrief.py <scratch-root> <suffix1> <suffix2> : write <root>/<PROP>_brief.md for every property - the task text handed
to the independent sub-agents that write seeded changes (section 10 of DESIGN.md). A brief contains the property's text, the
rules, a neutral one-paragraph description of the kind of suite the change has to get past, and one-line summaries of the
changes earlier authors wrote for the same property (so that new ones differ). Nothing else from /verif goes into it."""
import json, glob, os, sys
root = sys.argv[1]; s1, s2 = sys.argv[2], sys.argv[3]
props = [json.loads(l) for l in open('/verif/properties.jsonl')]
for p in props:
    pid = p['id']
    prev = []
    for d in sorted(glob.glob('/verif/seeded/%s?/agent_meta.json' % pid)):
        try:
            m = json.load(open(d)); prev.append('- ' + m.get('summary', '')[:260].replace('\n', ' '))
        except Exception: pass
    wt = os.path.join(root, pid)
    brief = f"""# Task: write two subtle breaking changes for one property of a small Rust library

You are working in a scratch git worktree of the Rust crate `ppp` (misalcedo/ppp: parser and builder for HAProxy PROXY
protocol v1 text and v2 binary headers) at `{wt}`. Work ONLY inside that directory. Do not read or
touch `/repo`, `/verif` or any other directory under `{root}`. There is no network; use `cargo ... --offline`.

## The property

**{p['title']}**

{p['statement']}

It is meant to hold for: {p['quantifier']['text']}

## What to produce

Two *different* changes to the library's source (`src/**`, not tests) such that, for each change:

1. the crate still compiles without new warnings-as-errors, `cargo test --offline --lib` still passes all 73 unit tests and
   `cargo test --offline --doc` still passes all 15 doctests;
2. the property above is broken: there is a concrete input / call sequence on which the changed library behaves in a way
   the property forbids, while the unchanged library behaves as the property demands;
3. the change looks like something a maintainer could plausibly commit (an optimisation, a refactoring, a convenience
   feature, leniency for some sender, a fast path, a cache, a new trait impl or method override, an "obvious" simplification)
   - not sabotage with a magic constant and no reason to exist;
4. it needs something *specific* to manifest: an unusual input, a particular length or alignment, a multi-step sequence of
   calls, a rarely used route (trait method, conversion, entry point) to the same functionality, state carried from one
   call to a later one, or two sites that each look fine alone. Ordinary use and a casual test must not expose it at once.

The library is already guarded by an extensive randomised test suite that you cannot see. It is known to use: grammar-based
and single-edit generators for v1 lines, exhaustive sweeps over the v2 control bytes and length field, exhaustive length
sweeps for TLVs, special addresses, reused and unaligned read buffers, back-to-back related inputs and fresh-process runs,
builder call histories around the 65535-byte limit, every iterator adaptor / clone route / format option / entry point, and
independent reference models. It has been extended after every earlier round of changes like yours, so
assume that the ideas listed below - and their obvious neighbours - are covered. Aim for what such a suite would *still* plausibly miss: a trigger that is a conjunction of
individually unremarkable conditions, a value or shape that a generator written from the property's text has no reason to
produce, or a part of the property's wording that is easy to leave unchecked. Do not rely on hash collisions (a memo keyed
by a 32- or 64-bit hash that is never compared byte for byte): that has been done. The two changes must differ from each other
in site and mechanism, and from all of these, which earlier authors already wrote for this property:

{chr(10).join(prev) if prev else '(none yet)'}

## Deliverables

For the first change create `{wt}/_out/{s1}/`, for the second `{wt}/_out/{s2}/`, each containing:

* `patch.diff` - `git diff` of the change against the worktree's HEAD (source changes only; apply-able with `git apply`);
* `demo.rs` - a self-contained integration test file (it will be copied to `tests/demo.rs`; it may only use the public API
  of `ppp` and std) that **passes on the unchanged library and fails (assertion or panic) with the change**;
* `agent_meta.json` - a JSON object with keys `property` ("{pid}"), `summary` (what was changed, where, under what pretext),
  `needs` (exactly what is needed for the breakage to manifest), `lib_tests_pass` (bool), `doc_tests_pass` (bool),
  `commands_run` (list of strings).

Procedure for each change: edit the source; run `cargo test --offline --lib` and `cargo test --offline --doc`; put the demo
in `tests/demo.rs` and run `cargo test --offline --test demo` (must fail); save `git diff -- src > _out/<x>/patch.diff`;
then `git checkout -- src` and run the demo again (must pass); remove `tests/demo.rs` before starting the next change.
Practical note: keep every single response of yours short (well under 10,000 tokens) - decide quickly on an idea, do not
write long deliberations or enumerate many alternatives, and make edits in small steps rather than rewriting whole files.
Leave the worktree's `src` unchanged at the end (`git status` clean apart from `_out/` and build output). Finally run
`cargo clean` in the worktree to free disk space. Reply with two or three lines per change saying what it is.
"""
    open(os.path.join(root, pid + '_brief.md'), 'w').write(brief)
print('ok')
