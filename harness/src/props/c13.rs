//! C13 — re-encoding a parsed v2 header from its parts reproduces it byte for byte.

use crate::engine::{hex, CaseIo, Fail, Runner, Stats, Verdict};
use crate::imp;
use crate::oracle::tlv::well_formed;
use crate::oracle::v2::NEED;
use crate::props::c02::shape2;
use ppp::v2::{Builder, TypeLengthValue};

pub fn judge(x: &Vec<u8>, st: &mut Stats) -> Verdict {
    // one case in eight is preceded by unrelated calls that fail on this thread (state left behind by a failed batch
    // or a refused write must not leak into the next build)
    if st.evals % 8 == 0 {
        crate::bld::failing_calls_noise();
    }
    let parsed = imp::v2_parse(x);
    let h = match &parsed {
        Ok(Ok(h)) => h,
        _ => {
            // a candidate the reference accepts but the parser rejects is C02's to report (counted as discarded);
            // a near-miss that both reject is simply not a header
            if matches!(crate::oracle::v2::v2_ref(x), crate::oracle::v2::V2Ref::Accept { .. }) {
                st.discard();
            } else {
                st.class("near-miss-not-accepted");
            }
            return Ok(());
        }
    };
    st.eval();
    let entry = "v2::Header -> v2::Builder";
    let original: Vec<u8> = h.as_bytes().to_vec();
    let fam = (x[13] >> 4) as usize;
    let l = original.len().saturating_sub(16);
    let section: Vec<u8> = if fam == 0 { vec![] } else { original[16 + NEED[fam].min(l)..].to_vec() };
    let wf = well_formed(&section);
    let cls = format!("fam{}{}", fam, if section.is_empty() { "" } else if wf { ",tlv-wellformed" } else { ",tlv-malformed" });
    st.class(&cls);
    st.sample(&cls, || format!("{} ({} bytes)", hex(&x[..x.len().min(40)]), x.len()));
    if fam != 0 && !section.is_empty() {
        st.nontrivial(x.digest());
    }
    let check = |name: &str, r: Result<std::io::Result<Vec<u8>>, String>| -> Verdict {
        match r {
            Ok(Ok(b)) if b == original => Ok(()),
            Ok(Ok(b)) => {
                let at = b.iter().zip(original.iter()).position(|(a, c)| a != c).unwrap_or(b.len().min(original.len()));
                Err(Fail::new(
                    format!("rebuild-differs:{}", name),
                    shape2(x),
                    entry,
                    format!("the original {} header bytes", original.len()),
                    format!("{} bytes, first difference at byte {}", b.len(), at),
                ))
            }
            Ok(Err(e)) => Err(Fail::new(format!("rebuild-fails:{}", name), shape2(x), entry, "Ok(original bytes)", format!("Err({:?})", e.kind()))),
            Err(p) => Err(Fail::new(format!("rebuild-panics:{}", name), shape2(x), entry, "Ok(original bytes)", format!("panic: {}", p))),
        }
    };
    use crate::engine::guard;
    // a. raw control bytes + raw views
    check("raw", guard(|| Builder::new(x[12], x[13]).write_payload(h.address_bytes())?.write_payload(h.tlv_bytes())?.build()))?;
    // b. control bytes recomputed from the decoded enums
    check(
        "enums",
        guard(|| Builder::new(h.version | h.command, h.protocol | h.address_family()).write_payload(h.address_bytes())?.write_payload(h.tlv_bytes())?.build()),
    )?;
    // a2. the same parts as one batch; after a batch that turned out to be empty; with the length stated explicitly (before the
    //     first write, and after the last one, as a forwarder does that learns the size from the received header)
    check("raw-batch", guard(|| Builder::new(x[12], x[13]).write_payloads([h.address_bytes(), h.tlv_bytes()])?.build()))?;
    check(
        "raw-after-empty-batch",
        guard(|| Builder::new(x[12], x[13]).write_payloads(std::iter::empty::<&[u8]>())?.write_payload(h.address_bytes())?.write_payload(h.tlv_bytes())?.build()),
    )?;
    check(
        "raw-length-stated-first",
        guard(|| Builder::new(x[12], x[13]).set_length(u16::from_be_bytes([x[14], x[15]])).write_payload(h.address_bytes())?.write_payload(h.tlv_bytes())?.build()),
    )?;
    check(
        "raw-length-stated-last",
        guard(|| Builder::new(x[12], x[13]).write_payload(h.address_bytes())?.write_payload(h.tlv_bytes())?.set_length(u16::from_be_bytes([x[14], x[15]])).build()),
    )?;
    check(
        "raw-with-capacity-hints",
        guard(|| Builder::new(x[12], x[13]).reserve_capacity(original.len()).write_payload(h.address_bytes())?.reserve_capacity(3).write_payload(h.tlv_bytes())?.reserve_capacity(0).build()),
    )?;
    // a builder that was given a length which is then withdrawn; a forwarder that appends the TLV section only when the
    // parsed header says it has one (is_empty / len of the iterator)
    check(
        "raw-after-withdrawn-length",
        guard(|| Builder::new(x[12], x[13]).set_length(7u16).set_length(None).write_payload(h.address_bytes())?.set_length(9u16).set_length(None).write_payload(h.tlv_bytes())?.build()),
    )?;
    // ... and one that is withdrawn only after the first write (for a header without payload both writes are empty)
    check(
        "raw-length-withdrawn-after-first-write",
        guard(|| Builder::new(x[12], x[13]).set_length(232u16).write_payload(h.address_bytes())?.set_length(None).write_payload(h.tlv_bytes())?.build()),
    )?;
    check(
        "raw-tlvs-unless-empty",
        guard(|| {
            let t = h.tlvs();
            let b = Builder::new(x[12], x[13]).write_payload(h.address_bytes())?;
            let b = if !t.is_empty() { b.write_payload(t)? } else { b };
            b.build()
        }),
    )?;
    check(
        "raw-tlvs-if-len-nonzero",
        guard(|| {
            let t = h.tlvs();
            let b = Builder::new(x[12], x[13]).write_payload(h.address_bytes())?;
            let b = if t.len() > 0 { b.write_payload(t.as_bytes())? } else { b };
            b.build()
        }),
    )?;
    // a3. the payload handed over in small pieces, as a forwarder does that copies from a ring buffer or re-frames what it
    //     received: byte by byte, as 16-bit words, in chunks of k bytes (one batch of many tiny items)
    {
        let payload: &[u8] = &original[16..];
        check("raw-bytewise-batch", guard(|| Builder::new(x[12], x[13]).write_payloads(payload.iter().copied())?.build()))?;
        let k = [1usize, 2, 3, 5, 7, 16, 64, 255, 1024][(x.digest() % 9) as usize];
        check(&format!("raw-chunks-of-{}", k), guard(|| Builder::new(x[12], x[13]).write_payloads(payload.chunks(k))?.build()))?;
        if payload.len() % 2 == 0 {
            check("raw-u16-words", guard(|| Builder::new(x[12], x[13]).write_payloads(payload.chunks(2).map(|c| u16::from_be_bytes([c[0], c[1]])))?.build()))?;
        }
        if payload.len() <= 4096 {
            check(
                "raw-bytewise-single-writes",
                guard(|| {
                    let mut b = Builder::new(x[12], x[13]);
                    for byte in payload {
                        b = b.write_payload(*byte)?;
                    }
                    b.build()
                }),
            )?;
        }
    }
    // a4. the parts written into a detached writer (`Writer::default()`) with their own `write_to`, fixed part first: what a
    //     forwarder does that assembles the header next to other data; the writer's limit is that of a full-size header
    {
        use ppp::v2::{WriteToHeader, Writer};
        let assembled = guard(|| -> std::io::Result<Vec<u8>> {
            let mut w = Writer::default();
            original[..16].write_to(&mut w)?;
            h.address_bytes().write_to(&mut w)?;
            // the TLV section in two pieces, the second one small (it lands behind byte 65535 for the largest headers)
            let tb = h.tlv_bytes();
            let cut = tb.len().saturating_sub(5);
            tb[..cut].write_to(&mut w)?;
            tb[cut..].write_to(&mut w)?;
            Ok(w.finish())
        });
        check("detached-writer", assembled)?;
    }
    // c. the TLV iterator as a payload
    check("tlvs-iterator", guard(|| Builder::new(x[12], x[13]).write_payload(h.address_bytes())?.write_payload(h.tlvs())?.build()))?;
    // c2. a proxy that validates before it forwards: the iterator has been walked (fully, or by one item) before it
    //     is handed to the builder; it still denotes the header's TLV section (the reading C10 and C20 use as well)
    check(
        "tlvs-iterator-after-validation",
        guard(|| {
            let mut it = h.tlvs();
            let _all_ok = it.by_ref().all(|t| t.is_ok());
            Builder::new(x[12], x[13]).write_payload(h.address_bytes())?.write_payload(it)?.build()
        }),
    )?;
    // c3. from a copy made with clone_from onto a longer owned header (a slot that is refreshed for every connection)
    check(
        "raw-from-clone_from-copy",
        guard(|| {
            let mut long_bytes = crate::oracle::v2::SIG.to_vec();
            long_bytes.extend_from_slice(&[0x21, 0x31, 0x01, 0x2c]);
            long_bytes.extend(crate::engine::fill(0x51, 300));
            let mut slot = ppp::v2::Header::try_from(&long_bytes[..]).map(|l| l.to_owned()).unwrap_or_else(|_| h.to_owned());
            slot.clone_from(h);
            Builder::new(slot.version | slot.command, slot.protocol | slot.address_family()).write_payload(slot.address_bytes())?.write_payload(slot.tlv_bytes())?.build()
        }),
    )?;
    // d. decoded items, when the section is well-formed
    // ... also when the PARSER calls a section well-formed that the reference does not (every item it yields is Ok): what it
    // decoded must still re-encode to the header it came from
    let wf_impl = fam != 0 && !section.is_empty() && matches!(guard(|| h.tlvs().take(30_000).all(|t| t.is_ok())), Ok(true));
    if (wf || wf_impl) && fam != 0 {
        let items: Vec<TypeLengthValue> = match guard(|| h.tlvs().filter_map(|t| t.ok()).collect::<Vec<_>>()) {
            Ok(i) => i,
            Err(_) => return Ok(()),
        };
        check(
            "items-single",
            guard(|| {
                let mut b = Builder::new(x[12], x[13]).write_payload(h.address_bytes())?;
                for it in &items {
                    b = b.write_payload(it)?;
                }
                b.build()
            }),
        )?;
        // the same items gathered with for_each (fold-based) instead of collect (next-based)
        check(
            "items-for_each",
            guard(|| {
                let mut gathered: Vec<TypeLengthValue> = Vec::new();
                h.tlvs().for_each(|t| {
                    if let Ok(t) = t {
                        gathered.push(t)
                    }
                });
                Builder::new(x[12], x[13]).write_payload(h.address_bytes())?.write_payloads(gathered.iter())?.build()
            }),
        )?;
        // items that were copied out of the read buffer first (TypeLengthValue::to_owned)
        check(
            "items-owned",
            guard(|| {
                let owned: Vec<TypeLengthValue<'static>> = items.iter().map(|t| t.to_owned()).collect();
                Builder::new(x[12], x[13]).write_payload(h.address_bytes())?.write_payloads(owned.iter())?.build()
            }),
        )?;
        // the decoded address value and the decoded items, nothing else (an empty item list included: the batch is then the
        // first and only write)
        check("with_addresses-items-batch", guard(|| Builder::with_addresses(h.version | h.command, h.protocol, h.addresses).write_payloads(items.iter())?.build()))?;
        check(
            "with_addresses-items-batch-length-last",
            guard(|| Builder::with_addresses(h.version | h.command, h.protocol, h.addresses).write_payloads(items.iter())?.set_length(u16::from_be_bytes([x[14], x[15]])).build()),
        )?;
        check("items-batch", guard(|| Builder::new(x[12], x[13]).write_payload(h.address_bytes())?.write_payloads(items.iter())?.build()))?;
        // items whose kind is a registered code are named through the crate's `Type` constant (what a forwarder that
        // understands them does); a capacity hint for the whole header up front and a smaller one before the TLVs
        check(
            "items-by-registered-name",
            guard(|| {
                let mut b = Builder::new(x[12], x[13]).reserve_capacity(original.len()).write_payload(h.address_bytes())?.reserve_capacity(section.len().min(64));
                for it in &items {
                    b = match crate::oracle::enc::TYPE_CODES.iter().position(|(_, c)| *c == it.kind) {
                        Some(i) if it.value.len() % 2 == 0 => b.write_tlv(crate::bld::TYPES[i], it.value.as_ref())?,
                        Some(i) => b.write_payload((crate::bld::TYPES[i], it.value.as_ref()))?,
                        None => b.write_tlv(it.kind, it.value.as_ref())?,
                    };
                }
                b.build()
            }),
        )?;
        check(
            "items-write_tlv",
            guard(|| {
                let mut b = Builder::new(x[12], x[13]).write_payload(h.address_bytes())?;
                for it in &items {
                    b = b.write_tlv(it.kind, it.value.as_ref())?;
                }
                b.build()
            }),
        )?;
        st.class("items-rebuilt");
    }
    // e0. Unix headers: a sibling header whose paths are the same C strings but differ in the bytes behind their terminators is
    //     rebuilt first (an address block remembered per address VALUE must not stand in for this header's bytes)
    if fam == 3 && original.len() >= 16 + 216 {
        let mut sib = original.clone();
        for base in [16usize, 16 + 108] {
            if let Some(z) = sib[base..base + 108].iter().position(|&b| b == 0) {
                for b in sib[base + z + 1..base + 108].iter_mut() {
                    *b = b.wrapping_add(0x31) | 1;
                }
            }
        }
        if sib != original {
            let _ = guard(|| -> std::io::Result<Vec<u8>> {
                let sh = ppp::v2::Header::try_from(&sib[..]).map_err(|_| std::io::Error::from(std::io::ErrorKind::InvalidData))?;
                Builder::with_addresses(sib[12], sh.protocol, sh.addresses).write_payload(sh.tlv_bytes())?.build()
            });
        }
    }
    // e1. IPv4 headers: the IPv6 twin (the same endpoints as IPv4-mapped addresses, same ports) is rebuilt first, and the other
    //     way round for IPv6 headers whose two addresses are IPv4-mapped
    {
        let twin: Option<ppp::v2::Addresses> = match h.addresses {
            ppp::v2::Addresses::IPv4(a) => Some(ppp::v2::IPv6::new(a.source_address.to_ipv6_mapped(), a.destination_address.to_ipv6_mapped(), a.source_port, a.destination_port).into()),
            ppp::v2::Addresses::IPv6(a) => match (a.source_address.to_ipv4_mapped(), a.destination_address.to_ipv4_mapped()) {
                (Some(s4), Some(d4)) => Some(ppp::v2::IPv4::new(s4, d4, a.source_port, a.destination_port).into()),
                _ => None,
            },
            _ => None,
        };
        if let Some(tw) = twin {
            let _ = guard(|| Builder::with_addresses(x[12], h.protocol, tw).build());
        }
    }
    // e. from the decoded address value
    if fam != 0 {
        check("with_addresses", guard(|| Builder::with_addresses(x[12], h.protocol, h.addresses).write_payload(h.tlv_bytes())?.build()))?;
        // the decoded endpoints as a pair of socket addresses (what a forwarder holds that learnt them from accept() / a
        // parsed header and hands them to the builder the way the crate's README does)
        use std::net::{SocketAddr, SocketAddrV4, SocketAddrV6};
        let pair: Option<(SocketAddr, SocketAddr)> = match h.addresses {
            ppp::v2::Addresses::IPv4(a) => Some((SocketAddr::V4(SocketAddrV4::new(a.source_address, a.source_port)), SocketAddr::V4(SocketAddrV4::new(a.destination_address, a.destination_port)))),
            ppp::v2::Addresses::IPv6(a) => Some((SocketAddr::V6(SocketAddrV6::new(a.source_address, a.source_port, 0, 0)), SocketAddr::V6(SocketAddrV6::new(a.destination_address, a.destination_port, 0, 0)))),
            _ => None,
        };
        if let Some(pair) = pair {
            check("with_addresses-socket-pair", guard(|| Builder::with_addresses(x[12], h.protocol, pair).write_payload(h.tlv_bytes())?.build()))?;
        }
        let owned = h.to_owned();
        check("with_addresses-owned", guard(|| Builder::with_addresses(owned.version | owned.command, owned.protocol, owned.addresses).write_payload(owned.tlvs())?.build()))?;
    }
    Ok(())
}

pub fn run(r: &mut Runner) -> &'static str {
    r.rule = "inputs: accepted v2 headers - random (all families, arbitrary address bytes, TLV sections empty / well-formed / truncated / random, payloads to 65535, +- trailer) and the valid slice of the \
              control space. oracle: round trip - Builder::new(control bytes raw or recomputed from the decoded enums) + address_bytes + tlv_bytes / tlvs() / decoded items (single, batch, write_tlv; \
              only when R-TLV says the section is well-formed) and with_addresses(decoded address value) must rebuild exactly as_bytes(). non-trivial = specified family and a non-empty TLV section; \
              distinct by SipHash of the input Added later: validate-then-forward (iterator walked before it is written), items gathered with for_each, a clone_from copy as the source, near-miss candidates."
        .into();
    r.assumptions.push("conditioned on the parser accepting the candidate (C02 owns acceptance)".into());
    r.assumptions.push("a TypeLengthValues iterator taken from the header denotes the header's whole TLV section also after it has been walked (validate-then-forward); same reading as C10 / C20".into());
    let n = r.n(120_000, 3_000_000);
    r.random("c13.random", n, 200, &crate::props::c14::gen_case, &|x: &Vec<u8>, st: &mut Stats| crate::engine::in_arena(x, |v| judge(v, st)));
    let (seed, quick) = (r.seed, r.quick());
    let work = |shard: usize, n: usize, st: &mut Stats, _stop: &std::sync::atomic::AtomicBool| -> Option<(Vec<u8>, Fail)> {
        let mut out = None;
        crate::props::c14::valid_slice(seed.wrapping_add(13), quick, shard, n, &mut |x| {
            let v = x.to_vec();
            if let Err(f) = judge(&v, st) {
                out = Some((v, f));
                return false;
            }
            true
        });
        out
    };
    r.bulk("c13.valid-slice", None, &work, &judge);
    "exploration"
}
