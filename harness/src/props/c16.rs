//! C16 — text, byte and FromStr entry points agree; owned copies equal their originals.

use crate::engine::{esc, fill, hex, CaseIo, Fail, Runner, Stats, Tape, Verdict};
use crate::gen;
use crate::imp;
use crate::oracle::v1::shape;
use crate::props::c02::shape2;
use ppp::v1;
use ppp::v2::TypeLengthValues;
use std::borrow::Cow;

/// Outcome of one entry point, normalised for comparison.
#[derive(Debug, PartialEq)]
enum Out {
    Ok { text: String, addr: String },
    OkAddrOnly { addr: String },
    Err(String),
    Panic,
}

/// A: the four v1 text entry points on the same valid-UTF-8 string (case = its bytes).
pub fn judge_agree(x: &Vec<u8>, st: &mut Stats) -> Verdict {
    let s = match std::str::from_utf8(x) {
        Ok(s) => s,
        Err(_) => {
            st.class("not-utf8-skipped");
            return Ok(());
        }
    };
    st.eval();
    let entry = "try_from(&str) / try_from(&[u8]) / parse::<Header> / parse::<Addresses>";
    let o_str = match imp::v1_str(s) {
        Err(_) => Out::Panic,
        Ok(Ok(h)) => Out::Ok { text: h.header.to_string(), addr: format!("{:?}", h.addresses) },
        Ok(Err(e)) => Out::Err(format!("{:?}", e)),
    };
    let o_bytes = match imp::v1_bytes(x) {
        Err(_) => Out::Panic,
        Ok(Ok(h)) => Out::Ok { text: h.header.to_string(), addr: format!("{:?}", h.addresses) },
        Ok(Err(v1::BinaryParseError::Parse(e))) => Out::Err(format!("{:?}", e)),
        Ok(Err(e)) => Out::Err(format!("bytes-only:{:?}", e)),
    };
    let o_fh = match imp::v1_fromstr_header(s) {
        Err(_) => Out::Panic,
        Ok(Ok(h)) => Out::Ok { text: h.header.to_string(), addr: format!("{:?}", h.addresses) },
        Ok(Err(e)) => Out::Err(format!("{:?}", e)),
    };
    let o_fa = match imp::v1_fromstr_addr(s) {
        Err(_) => Out::Panic,
        Ok(Ok(a)) => Out::OkAddrOnly { addr: format!("{:?}", a) },
        Ok(Err(e)) => Out::Err(format!("{:?}", e)),
    };
    let cr = x.iter().position(|&b| b == b'\r');
    let mid_char = cr.map_or(false, |p| p + 1 < x.len() && x[p + 1] >= 0x80);
    let all = [("try_from(&str)", &o_str), ("try_from(&[u8])", &o_bytes), ("parse::<Header>", &o_fh), ("parse::<Addresses>", &o_fa)];
    if mid_char {
        st.class("window-ends-inside-multibyte-char");
        st.nontrivial(x.digest());
        st.sample("window-ends-inside-multibyte-char", || esc(x));
        for (name, o) in all {
            if !matches!(o, Out::Err(_)) {
                return Err(Fail::new(
                    format!("not-an-error-inside-char:{}", name),
                    shape(x),
                    entry,
                    "an error from all four entry points (the examined line ends inside a multi-byte character)",
                    format!("{}: {:?}", name, o),
                ));
            }
        }
        return Ok(());
    }
    if all.iter().any(|(_, o)| **o == Out::Panic) {
        return Ok(()); // C03's business
    }
    let cls = match &o_str {
        Out::Ok { .. } => "all-ok",
        Out::Err(e) if e.contains("Missing") || e.contains("Partial") => "all-incomplete",
        _ => "all-terminal",
    };
    st.class(cls);
    if x.starts_with(b"PROXY") {
        st.nontrivial(x.digest());
    }
    st.sample(cls, || esc(&x[..x.len().min(110)]));
    let same = match (&o_str, &o_bytes, &o_fh, &o_fa) {
        (Out::Ok { text: t1, addr: a1 }, Out::Ok { text: t2, addr: a2 }, Out::Ok { text: t3, addr: a3 }, Out::OkAddrOnly { addr: a4 }) => t1 == t2 && t2 == t3 && a1 == a2 && a2 == a3 && a3 == a4,
        (Out::Err(e1), Out::Err(e2), Out::Err(e3), Out::Err(e4)) => e1 == e2 && e2 == e3 && e3 == e4,
        _ => false,
    };
    if !same {
        return Err(Fail::new(
            "entry-points-disagree",
            shape(x),
            entry,
            "the same header / addresses / error from all four",
            format!("&str: {:?}; bytes: {:?}; FromStr Header: {:?}; FromStr Addresses: {:?}", o_str, o_bytes, o_fh, o_fa),
        ));
    }
    Ok(())
}

/// B: owned copies (case = input bytes).
pub fn judge_owned(x: &Vec<u8>, st: &mut Stats) -> Verdict {
    let entry = "to_owned()";
    let mut did = false;
    // v1
    {
        let mut buf = x.clone();
        let snapshot;
        let owned;
        {
            let r = imp::v1_bytes(&buf);
            if let Ok(Ok(h)) = &r {
                did = true;
                st.class("v1-header");
                let o = match crate::engine::guard(|| h.to_owned()) {
                    Ok(o) => o,
                    Err(_) => return Ok(()),
                };
                if !(o == *h && *h == o) || (o != *h) || (*h != o) || o.header != h.header || o.addresses != h.addresses || !matches!(o.header, Cow::Owned(_)) {
                    return Err(Fail::new("owned-differs:v1", shape(x), entry, "owned == borrowed (both ways), same text and addresses, Cow::Owned", format!("borrowed {:?} owned {:?}", h, o)));
                }
                let views = crate::engine::guard(|| (h.protocol().to_string(), h.addresses_str().to_string(), h.to_string(), o.protocol().to_string(), o.addresses_str().to_string(), o.to_string()));
                if let Ok((p1, a1, t1, p2, a2, t2)) = views {
                    if p1 != p2 || a1 != a2 || t1 != t2 {
                        return Err(Fail::new("owned-views-differ:v1", shape(x), entry, format!("{:?} {:?} {:?}", p1, a1, t1), format!("{:?} {:?} {:?}", p2, a2, t2)));
                    }
                }
                // clone and clone_from (onto a longer and onto a shorter owned header) give copies equal to the original
                let long_text = format!("PROXY UNKNOWN {}\r\n", "z".repeat(90));
                // ... also onto a header that already carries the SAME addresses under another spelling (the canonical line)
                let canonical_text = h.addresses.to_string();
                let same_addresses = ppp::v1::Header::new(canonical_text.as_str(), h.addresses).to_owned();
                // ... and onto a header of exactly the same length whose last field differs in its last character
                let mut same_len: Vec<u8> = h.header.as_bytes().to_vec();
                if same_len.len() >= 3 {
                    let at = same_len.len() - 3;
                    same_len[at] = if same_len[at] == b'1' { b'2' } else { b'1' };
                }
                let same_len_target = std::str::from_utf8(&same_len).ok().and_then(|s| ppp::v1::Header::try_from(s).ok()).map(|p| p.to_owned()).unwrap_or_else(|| o.clone());
                for target in [ppp::v1::Header::new("PROXY UNKNOWN\r\n", ppp::v1::Addresses::Unknown).to_owned(), ppp::v1::Header::new(long_text.as_str(), ppp::v1::Addresses::Unknown).to_owned(), o.clone(), same_addresses, same_len_target] {
                    let mut t2: ppp::v1::Header<'_> = target;
                    t2.clone_from(h);
                    if !(t2 == *h && *h == t2) || t2.header != h.header || t2.addresses != h.addresses || t2.to_string() != h.to_string() {
                        return Err(Fail::new("clone_from-differs:v1", shape(x), "Clone::clone_from", "a copy equal to the original", format!("original {:?} copy {:?}", h, t2)));
                    }
                }
                snapshot = Some((h.header.to_string(), format!("{:?}", h.addresses)));
                owned = Some(o);
            } else {
                snapshot = None;
                owned = None;
            }
        }
        if let (Some((text, addr)), Some(o)) = (snapshot, owned) {
            // overwrite and free the source buffer, churn the allocator, then look at the copy again
            for b in buf.iter_mut() {
                *b = 0xAA;
            }
            drop(buf);
            let churn = fill(7, x.len().max(16));
            if o.header != text || format!("{:?}", o.addresses) != addr {
                return Err(Fail::new("owned-changed-after-clobber:v1", shape(x), entry, format!("{:?}", text), format!("{:?}", o.header)));
            }
            drop(churn);
        }
    }
    // v2 and its TLVs
    {
        let mut buf = x.clone();
        let mut snap: Option<(Vec<u8>, String, Vec<u8>, Vec<u8>)> = None;
        let mut owned = None;
        let mut owned_tlvs: Vec<(u8, Vec<u8>, ppp::v2::TypeLengthValue<'static>)> = Vec::new();
        {
            let r = imp::v2_parse(&buf);
            if let Ok(Ok(h)) = &r {
                did = true;
                st.class("v2-header");
                let o = match crate::engine::guard(|| h.to_owned()) {
                    Ok(o) => o,
                    Err(_) => return Ok(()),
                };
                let eq = o == *h && *h == o && !(o != *h) && !(*h != o) && o.header == h.header && o.addresses == h.addresses && o.command == h.command && o.protocol == h.protocol && o.version == h.version;
                if !eq || !matches!(o.header, Cow::Owned(_)) {
                    return Err(Fail::new("owned-differs:v2", shape2(x), entry, "owned == borrowed (both ways), same fields, Cow::Owned", format!("borrowed len {} owned len {}", h.header.len(), o.header.len())));
                }
                let v = crate::engine::guard(|| {
                    (
                        h.as_bytes() == o.as_bytes() && h.address_bytes() == o.address_bytes() && h.tlv_bytes() == o.tlv_bytes() && h.length() == o.length() && h.len() == o.len(),
                        h.address_family() == o.address_family() && h.to_string() == o.to_string(),
                    )
                });
                if let Ok((a, b)) = v {
                    if !a || !b {
                        return Err(Fail::new("owned-views-differ:v2", shape2(x), entry, "same views", "views differ".to_string()));
                    }
                }
                // clone_from onto a longer / shorter owned header and onto the owned copy itself
                {
                    let mut long_bytes = crate::oracle::v2::SIG.to_vec();
                    long_bytes.extend_from_slice(&[0x21, 0x31, 0x01, 0x2c]);
                    long_bytes.extend(fill(0x51, 300));
                    let mut short_bytes = crate::oracle::v2::SIG.to_vec();
                    short_bytes.extend_from_slice(&[0x20, 0x00, 0, 0]);
                    // a clone of the owned copy is the header once more (also for the largest headers)
                    let oc = o.clone();
                    if !(oc == *h && *h == oc) || oc.as_bytes() != h.as_bytes() || oc.len() != h.len() || oc.tlv_bytes() != h.tlv_bytes() {
                        return Err(Fail::new("owned-clone-differs:v2", shape2(x), "Header::to_owned().clone()", "a copy equal to the original with the same views", format!("original {} bytes, clone of the owned copy {} bytes", h.len(), oc.len())));
                    }
                    let mut targets: Vec<ppp::v2::Header<'_>> = vec![o.clone()];
                    if let Ok(l) = ppp::v2::Header::try_from(&long_bytes[..]) {
                        targets.push(l.to_owned());
                    }
                    if let Ok(sh) = ppp::v2::Header::try_from(&short_bytes[..]) {
                        targets.push(sh.to_owned());
                    }
                    // ... and onto owned headers of exactly the SAME length that differ in the command, in the transport, in one
                    // payload byte (a slot that held another connection's header of the same shape)
                    let hb = h.as_bytes().to_vec();
                    let mut variants: Vec<Vec<u8>> = Vec::new();
                    let mut v = hb.clone();
                    v[12] ^= 0x01;
                    variants.push(v);
                    let mut v = hb.clone();
                    v[13] = (v[13] & 0xf0) | ((v[13] & 0x0f) + 1) % 3;
                    variants.push(v);
                    if hb.len() > 16 {
                        let mut v = hb.clone();
                        let at = 16 + (x.digest() as usize % (hb.len() - 16));
                        v[at] = v[at].wrapping_add(1);
                        variants.push(v);
                        let mut v = hb.clone();
                        let last = v.len() - 1;
                        v[last] ^= 0xff;
                        variants.push(v);
                    }
                    let parsed_variants: Vec<ppp::v2::Header<'static>> = variants.iter().filter_map(|v| ppp::v2::Header::try_from(&v[..]).ok().map(|p| p.to_owned())).collect();
                    targets.extend(parsed_variants);
                    for mut t2 in targets {
                        t2.clone_from(h);
                        let same = t2 == *h && *h == t2 && t2.as_bytes() == h.as_bytes() && t2.len() == h.len() && t2.length() == h.length() && t2.tlv_bytes() == h.tlv_bytes() && t2.address_bytes() == h.address_bytes();
                        if !same {
                            return Err(Fail::new("clone_from-differs:v2", shape2(x), "Clone::clone_from", "a copy equal to the original with the same views", format!("original {} bytes, copy {} bytes", h.len(), t2.len())));
                        }
                    }
                }
                // decoded TLVs
                if let Ok(items) = crate::engine::guard(|| h.tlvs().take(2000).collect::<Vec<_>>()) {
                    for it in items.into_iter().flatten() {
                        let ot = it.to_owned();
                        if !(ot == it && it == ot) || (ot != it) || (it != ot) || ot.kind != it.kind || ot.value != it.value || !matches!(ot.value, Cow::Owned(_)) || ot.len() != it.len() || ot.is_empty() != it.is_empty() {
                            return Err(Fail::new("owned-differs:tlv", shape2(x), "TypeLengthValue::to_owned()", "owned TLV == borrowed TLV, Cow::Owned", format!("borrowed {:?} owned {:?}", it.kind, ot.kind)));
                        }
                        let mut t3 = ppp::v2::TypeLengthValue::new(0xEEu8, &[1u8, 2, 3, 4, 5, 6, 7, 8, 9][..]).to_owned();
                        t3.clone_from(&it);
                        if !(t3 == it && it == t3) || t3.value.as_ref() != it.value.as_ref() || t3.len() != it.len() {
                            return Err(Fail::new("clone_from-differs:tlv", shape2(x), "Clone::clone_from", "a copy equal to the original TLV", format!("original kind {} ({} bytes) copy kind {} ({} bytes)", it.kind, it.len(), t3.kind, t3.len())));
                        }
                        if owned_tlvs.len() < 64 {
                            owned_tlvs.push((it.kind, it.value.to_vec(), ot));
                        }
                    }
                    if !owned_tlvs.is_empty() {
                        st.class("decoded-tlvs");
                    }
                }
                snap = Some((h.as_bytes().to_vec(), format!("{:?}", h.addresses), h.address_bytes().to_vec(), h.tlv_bytes().to_vec()));
                owned = Some(o);
            }
        }
        if let (Some((bytes, addr, ab, tb)), Some(o)) = (snap, owned) {
            for b in buf.iter_mut() {
                *b = 0x55;
            }
            drop(buf);
            let churn = fill(9, x.len().max(16));
            if o.as_bytes() != &bytes[..] || format!("{:?}", o.addresses) != addr || o.address_bytes() != &ab[..] || o.tlv_bytes() != &tb[..] {
                return Err(Fail::new("owned-changed-after-clobber:v2", shape2(x), entry, "unchanged views", "views changed".to_string()));
            }
            for (k, v, ot) in &owned_tlvs {
                if ot.kind != *k || ot.value.as_ref() != &v[..] {
                    return Err(Fail::new("owned-changed-after-clobber:tlv", shape2(x), "TypeLengthValue::to_owned()", "unchanged TLV", "changed".to_string()));
                }
            }
            drop(churn);
        }
    }
    // TLVs of the raw slice
    if !did {
        if let Ok(items) = crate::engine::guard(|| TypeLengthValues::from(&x[..]).take(500).collect::<Vec<_>>()) {
            for it in items.into_iter().flatten() {
                did = true;
                let ot = it.to_owned();
                if !(ot == it && it == ot) || !matches!(ot.value, Cow::Owned(_)) {
                    return Err(Fail::new("owned-differs:tlv", crate::props::c11::shape_tlv(x), "TypeLengthValue::to_owned()", "owned TLV == borrowed TLV", hex(&x[..x.len().min(24)])));
                }
            }
        }
    }
    if did {
        st.eval();
        st.nontrivial(x.digest());
        st.sample("owned", || format!("{} ({} bytes)", esc(&x[..x.len().min(60)]), x.len()));
    } else {
        st.class("nothing-parsed");
    }
    Ok(())
}

fn gen_str(t: &mut Tape) -> Vec<u8> {
    match t.weighted(&[8, 3]) {
        0 => {
            // valid-UTF-8 part of the byte generators: regenerate with lossy conversion when needed
            let (x, _) = match t.weighted(&[8, 12, 4, 2, 1]) {
                4 => (gen::gen_other_notation(t), ""),
                0 => {
                    let mut l = gen::gen_valid_line(t, false);
                    if t.coin() {
                        l.extend(gen::gen_trailer(t, true).0);
                    }
                    (l, "")
                }
                1 => gen::gen_v1_mutant(t),
                2 => (gen::gen_tokens(t), ""),
                _ => (gen::gen_random_bytes(t, 200), ""),
            };
            match String::from_utf8(x) {
                Ok(s) => s.into_bytes(),
                Err(e) => String::from_utf8_lossy(e.as_bytes()).to_string().into_bytes(),
            }
        }
        _ => gen::gen_multibyte_cr(t).into_bytes(),
    }
}

fn gen_owned(t: &mut Tape) -> Vec<u8> {
    match t.weighted(&[4, 5, 1]) {
        0 => {
            let mut l = gen::gen_valid_line(t, false);
            if t.coin() {
                l.extend(gen::gen_trailer(t, false).0);
            }
            l
        }
        1 => crate::props::c14::gen_case(t),
        _ => gen::enc_tlv_list(&gen::gen_tlv_list(t, 3000)),
    }
}

pub fn run(r: &mut Runner) -> &'static str {
    r.rule = "A (differential): valid-UTF-8 strings - valid lines +- trailer, one-step mutants, token sequences, random text, and strings whose first CR is followed / preceded by a 2/3/4-byte character - through try_from(&str), \
              try_from(&[u8]), parse::<Header>, parse::<Addresses>: if the byte after the first CR starts a multi-byte character all four must return an error; otherwise the same header+addresses or the same ParseError \
              (bytes: Parse(e) <-> e). B (owned copies): accepted v1 / v2 headers and decoded TLVs: to_owned() == original both ways, equal views, Cow::Owned, and unchanged after the source buffer is overwritten, freed and the allocator churned. \
              non-trivial = (A) strings starting with PROXY or in the multi-byte class, (B) every input from which something was parsed; distinct by SipHash Added later: chains, clone_from copies (also onto a header with the same addresses under another spelling), != as well as ==, control bytes next to CR/LF/SP in value."
        .into();
    r.assumptions.push("B's 'remains valid after the buffer is dropped' is also guaranteed by the type system in a crate without unsafe; the check exercises it all the same".into());
    let n = r.n(300_000, 8_000_000);
    r.random("c16.agree", n, 200, &gen_str, &|x: &Vec<u8>, st: &mut Stats| {
        crate::engine::in_arena(x, |v| judge_agree(v, st))?;
        // the read buffer overwritten in place by another connection's data of exactly the same length: a complete short
        // line and the start of its payload (an answer remembered per buffer address and length would be stale)
        if x.len() >= 15 && x.len() <= 4096 {
            let mut y = b"PROXY UNKNOWN\r\n".to_vec();
            while y.len() < x.len() {
                y.push(b"GET / HTTP/1.1 "[(y.len() - 15) % 15]);
            }
            st.class("same-length-follow-up");
            crate::engine::in_arena(&y, |v| judge_agree(v, st))?;
        }
        Ok(())
    });
    // the same check over chains of related inputs judged back to back on one thread (history independence)
    let n = r.n(40000, 1000000);
    r.random("c16.chains", n, 260, &|t| crate::gen::gen_chain(t, &gen_str), &|c: &crate::engine::Chain, st: &mut Stats| {
        // every member is parsed from this thread's reusable read buffer (same address, new contents)
        for x in &c.0 {
            crate::engine::in_arena(x, |v| judge_agree(v, st))?;
        }
        Ok(())
    });
    // the first CR far into the input: at every offset 65536 - 3 ..= 65536 + 110 (and around 2 * 65536) behind a line start and
    // padding - an offset kept in 16 bits comes out as a position inside a short line
    let far = |shard: usize, n: usize, st: &mut Stats, _stop: &std::sync::atomic::AtomicBool| -> Option<(Vec<u8>, Fail)> {
        let mut idx = 0usize;
        for base in [65_536usize, 131_072] {
            for k in (0..=113usize).step_by(1) {
                for head in [&b"PROXY UNKNOWN"[..], b"PROXY TCP4 192.0.2.1 198.51.100.7 51234 443", b""] {
                    idx += 1;
                    if idx % n.max(1) != shard || (base == 131_072 && k % 8 != 0) {
                        continue;
                    }
                    let at = base + k - 3;
                    let mut x = head.to_vec();
                    x.resize(at, b' ');
                    x.extend_from_slice(b"\r\nGET / HTTP/1.1\r\n");
                    st.class("first-cr-beyond-64KiB");
                    if let Err(f) = judge_agree(&x, st) {
                        return Some((x, f));
                    }
                }
            }
        }
        None
    };
    r.bulk("c16.far-cr", Some("the first CR at every offset 65533..=65646 (and every 8th around 131072) behind 3 line starts and blank padding"), &far, &|x: &Vec<u8>, st: &mut Stats| judge_agree(x, st));
    let n = r.n(100_000, 2_000_000);
    r.random("c16.owned", n, 200, &gen_owned, &judge_owned);
    "exploration"
}
