//! C09 — the builder's length field is never stale, truncated or silently wrong (call histories).

use crate::bld::{self, Ctor, History, Op, Outcome};
use crate::engine::{CaseIo, Fail, Runner, Stats, Tape, Verdict};
use crate::oracle::enc;
use crate::oracle::v2::NEED;

impl CaseIo for History {
    fn to_json(&self) -> serde_json::Value {
        History::to_json(self)
    }
    fn from_json(v: &serde_json::Value) -> Option<Self> {
        History::from_json(v)
    }
    fn simpler(&self) -> Vec<Self> {
        History::simpler(self)
    }
}

/// Structural shape of a history: constructor kind and the op kinds, with the position of the
/// first write marked and sizes bucketed.
pub fn shape_h(h: &History) -> String {
    let mut s = String::from(match h.ctor {
        Ctor::New { .. } => "new",
        Ctor::WithAddresses { .. } => "with_addresses",
    });
    let bucket = |n: usize| match n {
        0..=65535 => "",
        _ => ">65535",
    };
    for op in h.ops.iter().take(12) {
        s.push(',');
        match op {
            Op::Reserve(_) => s.push_str("reserve"),
            Op::SetLength(Some(_)) => s.push_str("set_length(Some)"),
            Op::SetLength(None) => s.push_str("set_length(None)"),
            Op::Payload { v, .. } => {
                let name = match v {
                    bld::Val::Int { .. } => "int",
                    bld::Val::Bytes { .. } => "bytes",
                    bld::Val::Addr(_) => "addr",
                    bld::Val::Tlv { .. } => "tlv",
                    bld::Val::TupleU8 { .. } => "tuple_u8",
                    bld::Val::TupleType { .. } => "tuple_type",
                    bld::Val::Section { .. } => "section",
                    bld::Val::Type(_) => "type",
                    bld::Val::Custom { quirks, .. } if *quirks != 0 => "custom-with-quirks",
                    bld::Val::Custom { .. } => "custom",
                    bld::Val::Tlvs { .. } => "tlvs",
                };
                s.push_str(&format!("payload({}{})", name, bucket(bld::ref_size(v))));
            }
            Op::Payloads { vs, .. } => s.push_str(&format!("payloads[{}]", vs.len())),
            Op::WriteTlv { len, .. } | Op::WriteTlvType { len, .. } => s.push_str(&format!("write_tlv{}", bucket(*len))),
        }
    }
    if h.ops.len() > 12 {
        s.push_str(",...");
    }
    s
}

fn is_write(op: &Op) -> bool {
    !matches!(op, Op::Reserve(_) | Op::SetLength(_))
}

pub fn judge(h: &History, st: &mut Stats) -> Verdict {
    st.eval();
    let trace = bld::execute(h);
    let entry = "v2::Builder call history";
    let (_, _, addr) = bld::ctor_parts(&h.ctor);
    let mut plen: usize = NEED[enc::family_code(&addr) as usize];
    let mut explicit: Option<u16> = None;
    let mut first_write_seen = false;
    let (mut set_after_write, mut none_after_some, mut sets) = (false, false, 0);
    for (i, op) in h.ops.iter().enumerate() {
        let outcome = match trace.ops.get(i) {
            Some(o) => o,
            None => break,
        };
        match op {
            Op::Reserve(_) => {}
            Op::SetLength(x) => {
                sets += 1;
                if first_write_seen {
                    set_after_write = true;
                }
                if x.is_none() && explicit.is_some() {
                    none_after_some = true;
                }
                explicit = *x;
            }
            _ => {
                first_write_seen = true;
                let vals = bld::op_values(op);
                let demanded = vals.iter().any(bld::must_refuse);
                let size: usize = vals.iter().map(bld::ref_size).sum();
                match outcome {
                    Outcome::Ok => {
                        if demanded {
                            return Err(Fail::new(
                                "oversize-value-accepted",
                                shape_h(h),
                                entry,
                                format!("op {} ({}) returns Err: a single TLV value / byte slice above 65535 bytes must be refused", i, op.to_json()),
                                "Ok".to_string(),
                            ));
                        }
                        plen += size;
                    }
                    Outcome::Err(_) | Outcome::Panic(_) => {
                        // the other operation that encodes a single value with its 16-bit length - the value's own
                        // `to_bytes()` - refuses it as well (no rendering with a wrapped length exists)
                        if demanded {
                            for v in vals.iter().filter(|v| bld::must_refuse(v)).take(1) {
                                let data = bld::content(v);
                                match crate::engine::guard(|| bld::to_bytes_val(v, &data).map(|b| b.len())) {
                                    Ok(Ok(n)) => {
                                        return Err(Fail::new(
                                            "oversize-value-rendered",
                                            shape_h(h),
                                            "WriteToHeader::to_bytes on the value of a refused write",
                                            format!("Err: op {} carries a single TLV value / byte slice of {} bytes", i, data.len()),
                                            format!("Ok({} bytes)", n),
                                        ))
                                    }
                                    _ => {}
                                }
                            }
                        }
                        if !demanded && 16 + plen + size <= 65551 {
                            // an unexpected refusal: nothing for C09 to judge, but the case exercised nothing
                            st.discard();
                        }
                        if demanded {
                            st.class("oversize-value-refused");
                            st.nontrivial(h.digest());
                        }
                        return Ok(());
                    }
                }
            }
        }
    }
    if trace.ops.len() < h.ops.len() {
        return Ok(());
    }
    let near = plen + 16 >= 65535 && plen <= 65535;
    if set_after_write || none_after_some || sets >= 2 || near || plen > 65535 {
        st.nontrivial(h.digest());
    }
    if set_after_write {
        st.class("set_length-after-first-write");
    }
    if none_after_some {
        st.class("set_length(None)-after-Some");
    }
    if sets >= 2 {
        st.class("repeated-set_length");
    }
    if near {
        st.class("total-within-16-of-65535");
    }
    if plen > 65535 {
        st.class("total-above-65535");
    }
    if h.ops.iter().any(is_write) {
        st.class("has-write");
    }
    st.sample(if set_after_write { "set_length-after-first-write" } else { "history" }, || crate::imp::short(&h.to_json().to_string()));
    match &trace.build {
        Some(Ok(bytes)) => {
            if bytes.len() < 16 {
                return Err(Fail::new("short-output", shape_h(h), entry, "at least the 16-byte fixed part", format!("{} bytes", bytes.len())));
            }
            let field = ((bytes[14] as usize) << 8) | bytes[15] as usize;
            let actual = bytes.len() - 16;
            match explicit {
                Some(x) => {
                    st.class("build-ok-explicit");
                    if field != x as usize {
                        return Err(Fail::new(
                            "explicit-length-not-in-force",
                            shape_h(h),
                            entry,
                            format!("length field {} (the most recent set_length)", x),
                            format!("length field {} ({} bytes follow the fixed part)", field, actual),
                        ));
                    }
                }
                None => {
                    st.class("build-ok-computed");
                    if actual > 65535 {
                        return Err(Fail::new(
                            "overflow-not-refused",
                            shape_h(h),
                            entry,
                            format!("build fails: {} bytes follow the fixed part and no explicit length is in force", actual),
                            format!("Ok with length field {}", field),
                        ));
                    }
                    if plen > 65535 {
                        // every write was reported as done, so more than 65535 bytes were handed over: a length field that
                        // describes only part of them is a truncated length
                        return Err(Fail::new(
                            "overflow-not-refused",
                            shape_h(h),
                            entry,
                            format!("build fails: the writes that succeeded amount to {} bytes after the fixed part and no explicit length is in force", plen),
                            format!("Ok with length field {} ({} bytes follow the fixed part)", field, actual),
                        ));
                    }
                    if field != actual {
                        return Err(Fail::new(
                            "computed-length-wrong",
                            shape_h(h),
                            entry,
                            format!("length field {} (bytes following the fixed part)", actual),
                            format!("length field {}", field),
                        ));
                    }
                }
            }
        }
        Some(Err(_)) => {
            st.class("build-err");
            if explicit.is_none() && plen <= 65535 {
                st.discard();
            }
        }
        None => {}
    }
    Ok(())
}

pub fn gen_case(t: &mut Tape) -> History {
    // one history in five is built in phases around the 65535-byte threshold (see bld::gen_history_phased)
    if t.chance(1, 5) {
        return bld::gen_history_phased(t);
    }
    bld::gen_history(t, 30)
}

pub fn run(r: &mut Runner) -> &'static str {
    r.rule = "histories: constructor (new with any two control bytes / with_addresses of any family) then 0-24 ops over {reserve_capacity, set_length(Some/None), write_payload of every \
              WriteToHeader type by value and by reference, write_payloads (native homogeneous and mixed batches), write_tlv} then build; value sizes {0..48, 255-257, 30000-65535, 65536+}. \
              oracle: history model R-BLD - bytes 14..16 of a successful build equal the explicit length in force, else the number of bytes after the fixed part; a single TLV value / byte \
              slice above 65535 must be refused; no explicit length and more than 65535 bytes -> build must fail. non-trivial = set_length after the first write, set_length(None) after Some, \
              repeated set_length, total within 16 bytes of 65535 or above it, or an oversize value; distinct by SipHash of the history Added later: phased histories around 65535 bytes, explicit lengths related to the history (true size, size at the call, repeated value), batches through iterators with inexact size hints, 16 MiB sections."
        .into();
    r.assumptions.push("outcomes the statement leaves open (writes past a full-size header, build failing under an explicit length) follow the implementation".into());
    let n = r.n(200_000, 5_000_000);
    r.random("c09.histories", n, 260, &gen_case, &judge);
    // directed: every placement of one set_length among k small writes, with and without a second one
    let work = |shard: usize, _n: usize, st: &mut Stats, _stop: &std::sync::atomic::AtomicBool| -> Option<(History, Fail)> {
        if shard != 0 {
            return None;
        }
        let w = |i: usize| Op::Payload { v: bld::Val::Int { ty: i % 12, image: (i as u128) + 1 }, by_ref: false };
        for ctor in [Ctor::New { vc: 0x21, afp: 0x11 }, Ctor::WithAddresses { vc: 0x21, proto: 1, addr: crate::oracle::v2::RefAddr2::V4 { src: [1, 2, 3, 4], dst: [5, 6, 7, 8], sport: 9, dport: 10 } }] {
            for k in 0..=4usize {
                for pos in 0..=k {
                    for first in [Some(7u16), None, Some(0), Some(65535)] {
                        for second in [None::<(usize, Option<u16>)>, Some((0, Some(3))), Some((k, None)), Some((k, Some(300))), Some((pos, Some(9)))] {
                            let mut ops: Vec<Op> = (0..k).map(w).collect();
                            ops.insert(pos, Op::SetLength(first));
                            if let Some((p2, x2)) = second {
                                let at = (p2 + 1).min(ops.len());
                                ops.insert(at, Op::SetLength(x2));
                            }
                            let h = History { ctor: ctor.clone(), ops };
                            if let Err(f) = judge(&h, st) {
                                return Some((h, f));
                            }
                        }
                    }
                }
            }
        }
        None
    };
    r.bulk("c09.set-length-placements", Some("2 constructors x 0..4 writes x every position of a set_length(Some 7|None|0|65535) x 5 second-set_length variants"), &work, &judge);
    // payloads far beyond the 16-bit range (16 MiB and 32 MiB, plus a little): only a TLV section may be that large in a
    // single write; without an explicit length build must fail, never emit a length taken modulo some power of two
    let huge = |shard: usize, nshards: usize, st: &mut Stats, _stop: &std::sync::atomic::AtomicBool| -> Option<(History, Fail)> {
        let sizes: [usize; 8] = [1 << 24, (1 << 24) + 5, (1 << 24) + 65535, (1 << 24) + 65536, 1 << 25, (1 << 25) + 12, (1 << 20) + 7, 3 << 16];
        for (i, len) in sizes.iter().enumerate() {
            if i % nshards != shard {
                continue;
            }
            for explicit in [None, Some(3u16)] {
                let mut ops = vec![Op::Payload { v: bld::Val::Section { len: *len, seed: 0 }, by_ref: false }];
                if let Some(x) = explicit {
                    ops.insert(0, Op::SetLength(Some(x)));
                    ops.push(Op::SetLength(None));
                }
                let h = History { ctor: Ctor::New { vc: 0x21, afp: 0x01 }, ops };
                if let Err(f) = judge(&h, st) {
                    return Some((h, f));
                }
            }
        }
        None
    };
    // the same call many times over: a revision counter, a generation number or a byte-sized tally that wraps after 256 or
    // 65536 calls must not decide which length is in force
    let many = |shard: usize, nshards: usize, st: &mut Stats, _stop: &std::sync::atomic::AtomicBool| -> Option<(History, Fail)> {
        let counts: [usize; 9] = [255, 256, 257, 511, 512, 513, 65535, 65536, 65537];
        let w = |i: usize| Op::Payload { v: bld::Val::Int { ty: 0, image: (i as u128) & 0xff }, by_ref: false };
        let mut idx = 0usize;
        for &n in &counts {
            for variant in 0..5usize {
                idx += 1;
                if idx % nshards != shard {
                    continue;
                }
                let mut ops: Vec<Op> = Vec::with_capacity(n + 4);
                match variant {
                    // n x set_length(i) after the first write, the last one decides
                    0 => {
                        ops.push(Op::SetLength(Some(1)));
                        ops.push(w(0));
                        ops.extend((0..n).map(|i| Op::SetLength(Some(100u16.wrapping_add(i as u16)))));
                    }
                    // ... before the first write
                    1 => {
                        ops.extend((0..n).map(|i| Op::SetLength(Some(7u16.wrapping_add(i as u16)))));
                        ops.push(w(1));
                    }
                    // n x (Some, None) pairs: nothing is in force at the end
                    2 => {
                        ops.push(w(2));
                        for i in 0..n.min(2000) {
                            ops.push(Op::SetLength(Some(i as u16)));
                            ops.push(Op::SetLength(None));
                        }
                        ops.push(w(3));
                    }
                    // n capacity hints around an explicit length
                    3 => {
                        ops.push(Op::SetLength(Some(9)));
                        ops.push(w(4));
                        ops.extend((0..n.min(3000)).map(|i| Op::Reserve(i % 7)));
                        ops.push(w(5));
                    }
                    // n one-byte writes (for the large counts: past a full-size header; the statement leaves the outcome of
                    // the writes open but not the length of a build that succeeds)
                    _ => {
                        ops.extend((0..n).map(w));
                    }
                }
                let h = History { ctor: if variant % 2 == 0 { Ctor::New { vc: 0x21, afp: 0x00 } } else { Ctor::WithAddresses { vc: 0x20, proto: 1, addr: crate::oracle::v2::RefAddr2::V4 { src: [1, 2, 3, 4], dst: [5, 6, 7, 8], sport: 9, dport: 10 } } }, ops };
                if let Err(f) = judge(&h, st) {
                    return Some((h, f));
                }
            }
        }
        None
    };
    // a byte slice that is itself a complete v2 header stating its own size is a byte slice like any other: above 65535 bytes
    // it is refused (single write, batch, by reference), up to 65535 bytes it is written
    let selfdesc = |shard: usize, nshards: usize, st: &mut Stats, _stop: &std::sync::atomic::AtomicBool| -> Option<(History, Fail)> {
        let mut idx = 0usize;
        for len in (65530usize..=65556).chain([16, 28, 232]) {
            for variant in 0..4usize {
                idx += 1;
                if idx % nshards != shard {
                    continue;
                }
                let v = bld::Val::Bytes { len, seed: crate::engine::SEED_V2HEADER };
                let mut ops = match variant {
                    0 => vec![Op::Payload { v, by_ref: false }],
                    1 => vec![Op::Payload { v, by_ref: true }],
                    2 => vec![Op::Payloads { vs: vec![v], native: true }],
                    _ => vec![Op::SetLength(Some(40)), Op::Payload { v, by_ref: false }],
                };
                if variant == 0 {
                    ops.insert(0, Op::Reserve(70_000));
                }
                let h = History { ctor: Ctor::New { vc: 0x21, afp: 0x00 }, ops };
                if let Err(f) = judge(&h, st) {
                    return Some((h, f));
                }
            }
        }
        None
    };
    r.bulk("c09.self-describing-slices", Some("byte slices of 65530..=65556 (and 16, 28, 232) bytes whose content is a v2 header stating exactly their size: single write, by reference, batch, under an explicit length"), &selfdesc, &judge);
    r.bulk("c09.many-calls", Some("255 / 256 / 257 / 511..513 / 65535..65537 repetitions of set_length(Some) after and before the first write, of (Some, None) pairs, of capacity hints under an explicit length, of one-byte writes"), &many, &judge);
    r.bulk("c09.huge-sections", Some("a single TLV-section payload of 3*2^16, 2^20+7, 2^24 (+5, +65535, +65536) and 2^25 (+12) bytes, with no explicit length and with one that is withdrawn before build"), &huge, &judge);
    "exploration"
}
