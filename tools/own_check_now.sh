#!/bin/sh
# tools/own_check_now.sh [parallelism] : run every seeded change's OWN property check (quick tier, current harness) on a scratch
# copy and record the result in seeded/<id>/own_now.txt (one RESULT line)
cd "$(dirname "$0")/.." || exit 2
P="${1:-5}"
ls -d seeded/C??? | xargs -P "$P" -I{} sh -c 'id=$(basename {}); MUT_SKIP_TESTS=1 tools/mutant_run.sh {}/patch.diff $(echo $id | cut -c1-3) 2>/dev/null | grep "^RESULT" | tail -1 > {}/own_now.txt'
