//! R-ENC: reference encoders for the v2 wire format (specification section 2.2), literals only.

use super::v2::{RefAddr2, SIG};

/// Registered TLV type codes (specification section 2.2.x), written out as literals.
pub const TYPE_CODES: [(&str, u8); 12] = [
    ("ALPN", 0x01),
    ("Authority", 0x02),
    ("CRC32C", 0x03),
    ("NoOp", 0x04),
    ("UniqueId", 0x05),
    ("SSL", 0x20),
    ("SSLVersion", 0x21),
    ("SSLCommonName", 0x22),
    ("SSLCipher", 0x23),
    ("SSLSignatureAlgorithm", 0x24),
    ("SSLKeyAlgorithm", 0x25),
    ("NetworkNamespace", 0x30),
];

pub fn enc_addr(a: &RefAddr2) -> Vec<u8> {
    let mut out = Vec::new();
    match a {
        RefAddr2::Unspec => {}
        RefAddr2::V4 { src, dst, sport, dport } => {
            out.extend_from_slice(src);
            out.extend_from_slice(dst);
            out.push((sport >> 8) as u8);
            out.push(*sport as u8);
            out.push((dport >> 8) as u8);
            out.push(*dport as u8);
        }
        RefAddr2::V6 { src, dst, sport, dport } => {
            for v in [src, dst] {
                for i in (0..16).rev() {
                    out.push((v >> (8 * i)) as u8);
                }
            }
            out.push((sport >> 8) as u8);
            out.push(*sport as u8);
            out.push((dport >> 8) as u8);
            out.push(*dport as u8);
        }
        RefAddr2::Unix { src, dst } => {
            out.extend_from_slice(src);
            out.extend_from_slice(dst);
        }
    }
    out
}

pub fn family_code(a: &RefAddr2) -> u8 {
    match a {
        RefAddr2::Unspec => 0,
        RefAddr2::V4 { .. } => 1,
        RefAddr2::V6 { .. } => 2,
        RefAddr2::Unix { .. } => 3,
    }
}

/// type, big-endian 16-bit length, value. `None` when the value does not fit a 16-bit length.
pub fn enc_tlv(kind: u8, value: &[u8]) -> Option<Vec<u8>> {
    if value.len() > 65535 {
        return None;
    }
    let mut out = Vec::with_capacity(3 + value.len());
    out.push(kind);
    out.push((value.len() / 256) as u8);
    out.push((value.len() % 256) as u8);
    out.extend_from_slice(value);
    Some(out)
}

/// Big-endian two's-complement encoding of `value` (given as its 128-bit two's-complement image)
/// at `width` bytes, by shift loop.
pub fn enc_int(width: usize, image: u128) -> Vec<u8> {
    let mut out = Vec::with_capacity(width);
    for i in (0..width).rev() {
        out.push((image >> (8 * i)) as u8);
    }
    out
}

pub fn enc_fixed(vc: u8, afp: u8, len: u16) -> Vec<u8> {
    let mut out = SIG.to_vec();
    out.push(vc);
    out.push(afp);
    out.push((len >> 8) as u8);
    out.push(len as u8);
    out
}

/// Whole header: fixed part with the payload's own length, then the payload.
pub fn enc_header(vc: u8, afp: u8, payload: &[u8]) -> Option<Vec<u8>> {
    if payload.len() > 65535 {
        return None;
    }
    let mut out = enc_fixed(vc, afp, payload.len() as u16);
    out.extend_from_slice(payload);
    Some(out)
}
