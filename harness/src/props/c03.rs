//! C03 — parsing, accessors and iteration never panic or hang on any input.

use crate::engine::{esc, guard, hex, CaseIo, Fail, Runner, Stats, Tape, Verdict};
use crate::gen;
use crate::oracle::v1::shape;
use crate::props::c02::shape2;
use ppp::v2::TypeLengthValues;
use ppp::{HeaderResult, PartialResult};
use std::error::Error;

fn sink<T: std::fmt::Debug>(v: &T) -> usize {
    let plain = format!("{:?}", v).len();
    // the pretty and the padded form as well, unless the value is huge (a 100 KB header prints to megabytes)
    if plain <= 200 {
        plain + format!("{:#?}", v).len().min(1) + format!("{:40?}", v).len().min(1)
    } else {
        plain
    }
}

/// Every formatter must return normally whatever options the caller's format spec carries (width below and above the
/// text's length, precision below and far above it, alignment, sign, zero padding, alternate form).
fn fmt_specs<T: std::fmt::Display>(v: &T) -> usize {
    // for a quarter of the values, chosen by the value's own text (so that a replay makes the same choice: a per-thread call
    // counter, as used before round 14, made replays of such failures skip the specs)
    let plain = v.to_string();
    let pick = plain.len().wrapping_add(plain.bytes().fold(0usize, |a, b| a.wrapping_mul(31).wrapping_add(b as usize)));
    if pick % 4 != 0 {
        return 0;
    }
    format!("{:.120}", v).len().min(1)
        + format!("{:.3}", v).len().min(1)
        + format!("{:.0}", v).len().min(1)
        + format!("{:200}", v).len().min(1)
        + format!("{:>5}", v).len().min(1)
        + format!("{:^300.150}", v).len().min(1)
        + format!("{:+#012}", v).len().min(1)
}

/// Formatting nests: a sink (a logger that stamps every chunk, a writer that keeps a context line) may format the same or
/// another value of the library from inside its own `write_str`, while the outer `Display::fmt` is still running.
struct NestingSink<'a, T: std::fmt::Display>(&'a T, usize, bool);
impl<'a, T: std::fmt::Display> std::fmt::Write for NestingSink<'a, T> {
    fn write_str(&mut self, s: &str) -> std::fmt::Result {
        self.1 += s.len();
        if !self.2 {
            self.2 = true;
            self.1 += format!("{}", self.0).len();
        }
        Ok(())
    }
}
fn nested_fmt<T: std::fmt::Display>(v: &T) -> usize {
    use std::fmt::Write;
    let mut s = NestingSink(v, 0, false);
    let _ = write!(s, "{}", v);
    s.1.min(1)
}

/// Exercise everything reachable from a v1 result.
fn v1_surface<E: Error + PartialResult + std::fmt::Debug + PartialEq>(r: &Result<ppp::v1::Header<'_>, E>) -> usize {
    let mut n = 0;
    n += r.is_incomplete() as usize + r.is_complete() as usize;
    match r {
        Ok(h) => {
            n += h.protocol().len();
            n += h.addresses_str().len();
            n += h.to_string().len();
            n += fmt_specs(h) + fmt_specs(&h.addresses);
            n += nested_fmt(h) + nested_fmt(&h.addresses);
            let o = h.to_owned();
            n += o.addresses_str().len() + o.protocol().len();
            // refreshing owned headers in place (a long and a short destination)
            let long_text = format!("PROXY UNKNOWN {}\r\n", "z".repeat(90));
            for dest in [ppp::v1::Header::new("PROXY UNKNOWN\r\n", ppp::v1::Addresses::Unknown).to_owned(), ppp::v1::Header::new(long_text.as_str(), ppp::v1::Addresses::Unknown).to_owned()] {
                let mut d = dest;
                d.clone_from(h);
                n += d.addresses_str().len().min(1);
            }
            n += (o == *h) as usize + (h.clone() == o) as usize;
            n += sink(h);
            n += h.addresses.to_string().len();
            n += h.addresses.protocol().len();
        }
        Err(e) => {
            n += e.to_string().len();
            n += fmt_specs(e) + nested_fmt(e);
            n += sink(e);
            n += e.source().map(|s| s.to_string().len()).unwrap_or(0);
            n += e.is_incomplete() as usize + e.is_complete() as usize;
        }
    }
    n
}

/// Iterate with a hard step cap; returns (items, hit_cap).
fn iterate(mut it: TypeLengthValues<'_>, n_bytes: usize) -> (usize, bool, usize) {
    let cap = n_bytes / 3 + 2;
    let mut items = 0;
    let mut acc = 0;
    let mut big_budget = 1u32;
    // the other ways of consuming the iterator must return normally too: size_hint before and after every item,
    // and collect / count / last on copies (collect trusts size_hint: a wild lower bound aborts the process)
    acc += it.size_hint().0.min(7);
    // the iterator's own formatter: small sections always, large ones once (after the walk, below)
    if n_bytes <= 512 {
        acc += format!("{:?}", it).len().min(1);
    }
    if n_bytes <= 4096 {
        let v: Vec<_> = it.clone().take(cap + 1).collect();
        acc += v.len().min(3);
        let direct: Vec<_> = it.clone().collect();
        acc += direct.len().min(3) + it.clone().count().min(3) + it.clone().last().is_some() as usize + it.clone().nth(2).is_some() as usize;
    }
    while let Some(x) = it.next() {
        acc += it.size_hint().0.min(7);
        items += 1;
        match &x {
            Ok(t) => {
                acc += t.len() + t.is_empty() as usize;
                let o = t.to_owned();
                acc += (o == *t) as usize + sink(&o.kind);
                // refreshing an owned item in place from this one (longer, shorter and equally long destinations)
                if items <= 8 || items % 61 == 0 {
                    for dest_len in [0usize, 9, t.len(), t.len() + 1, 300] {
                        if dest_len <= 300 || dest_len == t.len() {
                            let buf = vec![0x5au8; dest_len.min(70_000)];
                            let mut slot = ppp::v2::TypeLengthValue::new(0xEEu8, &buf[..]).to_owned();
                            slot.clone_from(t);
                            acc += slot.len().min(1);
                        }
                    }
                }
                // the item's own formatter (a value may itself hold TLVs, any number of levels deep)
                // (the first 8 items of a walk and every 61st after them; of the large ones - a 65535-byte value prints to 300 KB -
                // the first of each walk)
                if (t.len() <= 256 && (items <= 8 || items % 61 == 0)) || (t.len() > 256 && big_budget > 0) {
                    if t.len() > 256 {
                        big_budget -= 1;
                    }
                    acc += format!("{:?}", t).len().min(1);
                    if t.len() <= 16 {
                        acc += format!("{:?}", o).len().min(1) + format!("{:#?}", t).len().min(1);
                    }
                }
            }
            Err(e) => {
                acc += e.to_string().len() + sink(e) + e.is_incomplete() as usize;
            }
        }
        if items > cap {
            return (items, true, acc);
        }
        if items == 2 && n_bytes <= 512 {
            acc += format!("{:?}", it).len().min(1);
        }
    }
    // sections that decode to 65536 items or more (only reachable through TypeLengthValues::from): the counting consumers
    if n_bytes >= 196_608 {
        let fresh = TypeLengthValues::from(it.as_bytes());
        acc += fresh.clone().count().min(3) + fresh.size_hint().0.min(3) + fresh.clone().last().is_some() as usize;
    }
    // after the end (for sections of more than 65535 bytes - TypeLengthValues::from takes any slice - the offset is then past
    // what a 16-bit length accessor reports)
    if n_bytes <= 512 || n_bytes > 65535 {
        acc += format!("{:?}", it).len().min(1);
        if n_bytes <= 512 {
            acc += format!("{:#?}", it).len().min(1);
        }
    }
    (items, false, acc)
}

fn v2_surface(r: &Result<ppp::v2::Header<'_>, ppp::v2::ParseError>) -> Result<usize, String> {
    let mut n = 0;
    n += r.is_incomplete() as usize + r.is_complete() as usize;
    match r {
        Ok(h) => {
            n += h.length() + h.len() + h.is_empty() as usize;
            n += h.address_family() as usize;
            n += h.address_bytes().len() + h.tlv_bytes().len() + h.as_bytes().len();
            let it = h.tlvs();
            n += it.len() as usize + it.is_empty() as usize + it.as_bytes().len();
            let nb = h.tlv_bytes().len();
            let (items, capped, acc) = iterate(it, nb);
            if capped || items > nb / 3 + 1 {
                return Err(format!("TLV iteration over {} bytes yielded more than {} items", nb, nb / 3 + 1));
            }
            n += acc;
            let o = h.to_owned();
            n += (o == *h) as usize + o.tlv_bytes().len() + o.address_bytes().len();
            {
                let mut small = crate::oracle::v2::SIG.to_vec();
                small.extend_from_slice(&[0x20, 0x00, 0, 0]);
                let mut big = crate::oracle::v2::SIG.to_vec();
                big.extend_from_slice(&[0x21, 0x31, 0x01, 0x2c]);
                big.extend(std::iter::repeat(0x51u8).take(300));
                for src in [&small, &big] {
                    if let Ok(d) = ppp::v2::Header::try_from(&src[..]) {
                        let mut d = d.to_owned();
                        d.clone_from(h);
                        n += d.len().min(1) + d.tlvs().count().min(1);
                    }
                }
            }
            n += h.to_string().len() + o.to_string().len();
            n += fmt_specs(h) + fmt_specs(&o) + nested_fmt(h);
            n += sink(&h.addresses) + sink(&h.command) + sink(&h.protocol) + sink(&h.version);
            n += h.addresses.len() + h.addresses.is_empty() as usize;
            if h.len() <= 600 {
                n += sink(h);
            }
        }
        Err(e) => {
            n += e.to_string().len() + sink(e) + e.source().map(|s| s.to_string().len()).unwrap_or(0) + nested_fmt(e);
        }
    }
    Ok(n)
}

pub fn judge(x: &Vec<u8>, st: &mut Stats) -> Verdict {
    st.eval();
    let is_str = std::str::from_utf8(x).ok();
    let first_gate = x.starts_with(b"PROXY") || (x.len() >= 12 && x[..12] == crate::oracle::v2::SIG);
    let cr = x.iter().position(|&b| b == b'\r');
    let multibyte_near_cr = is_str.is_some() && cr.map_or(false, |p| (p + 1 < x.len() && x[p + 1] >= 0x80) || (p > 0 && x[p - 1] >= 0x80));
    let tlv_items = crate::oracle::tlv::tlv_ref(x).iter().filter(|i| matches!(i, crate::oracle::tlv::Item::Ok { .. })).count();
    if first_gate || multibyte_near_cr || tlv_items >= 1 {
        st.nontrivial(x.digest());
    }
    if first_gate {
        st.class("passes-first-gate");
    }
    if multibyte_near_cr {
        st.class("multibyte-next-to-CR");
        st.sample("multibyte-next-to-CR", || esc(x));
    }
    if is_str.is_some() {
        st.class("utf8");
    }
    let fail = |entry: &str, sh: String, msg: String| Err(Fail::new(format!("panic:{}", entry), sh, entry, "returns normally", msg));

    match guard(|| {
        let r = ppp::v1::Header::try_from(&x[..]);
        v1_surface(&r)
    }) {
        Ok(_) => {}
        Err(p) => return fail("v1::Header::try_from(&[u8])+accessors", shape(x), format!("panic: {}", p)),
    }
    if let Some(s) = is_str {
        match guard(|| {
            let r = ppp::v1::Header::try_from(s);
            v1_surface(&r)
        }) {
            Ok(_) => {}
            Err(p) => return fail("v1::Header::try_from(&str)+accessors", shape(x), format!("panic: {}", p)),
        }
        match guard(|| {
            let r = s.parse::<ppp::v1::Header<'static>>();
            v1_surface(&r)
        }) {
            Ok(_) => {}
            Err(p) => return fail("str::parse::<v1::Header>", shape(x), format!("panic: {}", p)),
        }
        match guard(|| {
            let r = s.parse::<ppp::v1::Addresses>();
            match &r {
                Ok(a) => a.to_string().len() + a.protocol().len(),
                Err(e) => e.to_string().len(),
            }
        }) {
            Ok(_) => {}
            Err(p) => return fail("str::parse::<v1::Addresses>", shape(x), format!("panic: {}", p)),
        }
    }
    match guard(|| {
        let r = ppp::v2::Header::try_from(&x[..]);
        v2_surface(&r)
    }) {
        Ok(Ok(_)) => {}
        Ok(Err(m)) => return Err(Fail::new("iteration-bound", shape2(x), "Header::tlvs()", "at most n/3 + 1 items", m)),
        Err(p) => return fail("v2::Header::try_from+accessors", shape2(x), format!("panic: {}", p)),
    }
    match guard(|| {
        let r = HeaderResult::parse(&x[..]);
        let mut n = sink(&r).min(10) + r.is_incomplete() as usize + r.is_complete() as usize;
        let again = HeaderResult::parse(&x[..]);
        n += (r == again) as usize;
        match &r {
            HeaderResult::V1(r) => n += v1_surface(r),
            HeaderResult::V2(r) => n += v2_surface(r).unwrap_or(0),
        }
        n
    }) {
        Ok(_) => {}
        Err(p) => return fail("HeaderResult::parse+accessors", if x.first() == Some(&0x0D) { shape2(x) } else { shape(x) }, format!("panic: {}", p)),
    }
    // the input as a TLV section
    match guard(|| {
        let it = TypeLengthValues::from(&x[..]);
        let _ = it.len() as usize + it.is_empty() as usize + it.as_bytes().len();
        iterate(it, x.len())
    }) {
        Ok((items, capped, _)) => {
            if capped || items > x.len() / 3 + 1 {
                return Err(Fail::new(
                    "iteration-bound",
                    crate::props::c11::shape_tlv(x),
                    "TypeLengthValues::from(&[u8])",
                    format!("at most {} items for {} bytes", x.len() / 3 + 1, x.len()),
                    format!("{} items{}", items, if capped { " (stopped at the cap)" } else { "" }),
                ));
            }
            if tlv_items >= 1 {
                st.class("tlv-slice-with-items");
            }
        }
        Err(p) => return fail("TypeLengthValues iteration", crate::props::c11::shape_tlv(x), format!("panic: {}", p)),
    }
    Ok(())
}

fn gen_case(t: &mut Tape) -> Vec<u8> {
    match t.weighted(&[10, 3, 2]) {
        0 => gen::gen_any_bytes(t).0,
        1 => gen::gen_multibyte_cr(t).into_bytes(),
        _ => {
            // TLV-shaped slices
            match t.weighted(&[4, 2, 1]) {
                2 => gen::deep_nested_tlv(t, 70_000),
                0 => gen::enc_tlv_list(&gen::gen_tlv_list(t, 4000)),
                _ => {
                    let mut s = gen::enc_tlv_list(&gen::gen_tlv_list(t, 4000));
                    let cut = t.below(s.len() as u32 + 1) as usize;
                    s.truncate(cut);
                    s
                }
            }
        }
    }
}

pub fn run(r: &mut Runner) -> &'static str {
    // a crash (stack overflow, abort) or an endless loop of the code under test is a violation of THIS property:
    // journal the case each worker is judging so that `--triage` can find it after an abnormal end
    r.journal = true;
    r.rule = "inputs: the union of all byte-level generators (valid v1/v2 headers +- trailers, one-step mutants, token sequences, random bytes, v1 text followed by a v2 header), valid-UTF-8 strings with a \
              2/3/4-byte character immediately before / after the first CR, TLV-shaped slices; every input goes through try_from(&[u8]), try_from(&str) + both FromStr impls (when UTF-8), the v2 parser, the \
              auto-detecting parser and TypeLengthValues::from, and then through every accessor / formatter / to_owned / iterator of whatever was returned. oracle: 'returned normally' (catch_unwind) and \
              items <= n/3 + 1 under a hard step cap. Two build configurations: release (no overflow checks) and checked (overflow checks + debug assertions). non-trivial = starts with PROXY, or carries the \
              full v2 signature, or has a multi-byte character next to the first CR, or is a TLV slice with >= 1 complete item; distinct by SipHash Added later: iterators also consumed through size_hint / collect / count / last / nth, chains, reused read buffer at unaligned offsets; crashes (stack overflow, abort) and stalls are found by the journal + child-process triage."
        .into();
    r.assumptions.push("a hang inside a parser would surface as a watchdog timeout (exit 2), not as a violation; TLV iteration is bounded by a step cap".into());
    let n = r.n(300_000, 8_000_000);
    r.random("c03.surface", n, 200, &gen_case, &|x: &Vec<u8>, st: &mut Stats| crate::engine::in_arena(x, |v| judge(v, st)));
    // the same check over chains of related inputs judged back to back on one thread (history independence)
    let n = r.n(30000, 600000);
    r.random("c03.chains", n, 260, &|t| crate::gen::gen_chain(t, &gen_case), &|c: &crate::engine::Chain, st: &mut Stats| {
        // every member is parsed from this thread's reusable read buffer (same address, new contents)
        for x in &c.0 {
            crate::engine::in_arena(x, |v| judge(v, st))?;
        }
        Ok(())
    });

    // all strings of <= 3 tokens over an alphabet rich in CR / multi-byte characters, as &str
    let alpha: &[&str] = &["PROXY", " ", "UNKNOWN", "TCP4", "\r", "\n", "\u{e9}", "\u{20ac}", "\u{1f600}", "1.2.3.4", "1", "\r\n", "x"];
    let k = if r.quick() { 4 } else { 5 };
    let work = |shard: usize, nshards: usize, st: &mut Stats, _stop: &std::sync::atomic::AtomicBool| -> Option<(Vec<u8>, Fail)> {
        for head in ["", "PROXY UNKNOWN", "PROXY TCP4 1.2.3.4 1.2.3.4 1 1", "PROXY "] {
            for len in 0..=k {
                let total = (alpha.len() as u64).pow(len as u32);
                let mut idx = shard as u64;
                while idx < total {
                    let mut s = head.to_string();
                    let mut q = idx;
                    for _ in 0..len {
                        s.push_str(alpha[(q % alpha.len() as u64) as usize]);
                        q /= alpha.len() as u64;
                    }
                    let v = s.into_bytes();
                    if let Err(f) = judge(&v, st) {
                        return Some((v, f));
                    }
                    idx += nshards as u64;
                }
            }
        }
        None
    };
    let space = format!("4 heads x all sequences of <= {} tokens over a 13-token alphabet with CR, LF and 2/3/4-byte characters", k);
    r.bulk("c03.cr-multibyte-tokens", Some(&space), &work, &judge);
    // the same call tens of thousands of times on one thread: a per-thread streak counter, a tally, a generation number
    // that is kept in 8 or 16 bits must not overflow (this stage matters in the overflow-checked build)
    let many = |shard: usize, nshards: usize, st: &mut Stats, _stop: &std::sync::atomic::AtomicBool| -> Option<(Vec<u8>, Fail)> {
        let mut v2 = crate::oracle::v2::SIG.to_vec();
        v2.extend_from_slice(&[0x21, 0x11, 0, 12, 10, 0, 0, 1, 10, 0, 0, 2, 0, 80, 1, 187]);
        let inputs: Vec<Vec<u8>> = vec![
            b"PROXY TCP4 127.0.0.1 192.168.1.1 80 443\r\n".to_vec(),
            b"PROXY UNKNOWN\r\n".to_vec(),
            b"PROXY TCP6 ::1 ::2 1 2\r\nGET /".to_vec(),
            v2.clone(),
            v2[..20].to_vec(),
            b"PROXY TCP4 127.0.0.1".to_vec(),
            b"HELLO\r\n".to_vec(),
        ];
        for (i, x) in inputs.iter().enumerate() {
            if i % nshards != shard {
                continue;
            }
            st.eval();
            st.nontrivial(x.digest());
            let r = guard(|| {
                let mut acc = 0usize;
                for _ in 0..70_000u32 {
                    acc += HeaderResult::parse(&x[..]).is_complete() as usize;
                    acc += ppp::v1::Header::try_from(&x[..]).is_ok() as usize;
                    acc += ppp::v2::Header::try_from(&x[..]).is_ok() as usize;
                    if let Ok(s) = std::str::from_utf8(x) {
                        acc += ppp::v1::Header::try_from(s).is_ok() as usize;
                        acc += s.parse::<ppp::v1::Addresses>().is_ok() as usize;
                    }
                }
                acc
            });
            if let Err(p) = r {
                return Some((x.clone(), Fail::new("panic:70000-calls-in-a-row", shape(x), "every parsing entry point, 70 000 times on one thread", "returns normally every time", format!("panic: {}", p))));
            }
        }
        None
    };
    r.bulk("c03.many-calls", Some("7 inputs (accepted v1 / v2 headers, prefixes, a rejected line) x 70 000 consecutive calls of each parsing entry point on one thread"), &many, &judge);
    let _ = hex(&[]);
    "exploration"
}
