//! C06 — version auto-detection agrees with the two dedicated parsers.

use crate::engine::{esc, CaseIo, Fail, Runner, Stats, Tape, Verdict};
use crate::gen;
use crate::imp;
use crate::oracle::v1::shape;
use crate::oracle::v2::SIG;
use crate::props::c02::shape2;
use ppp::{HeaderResult, PartialResult};
use std::sync::atomic::AtomicBool;

pub fn judge(x: &Vec<u8>, st: &mut Stats) -> Verdict {
    st.eval();
    let (a, r1, r2) = match (imp::auto(x), imp::v1_bytes(x), imp::v2_parse(x)) {
        (Ok(a), Ok(r1), Ok(r2)) => (a, r1, r2),
        _ => return Ok(()), // a panic is C03's business
    };
    let sh = if x.first() == Some(&0x0D) { shape2(x) } else { shape(x) };
    let fail = |kind: &str, exp: String| {
        Err(Fail::new(
            kind,
            &sh,
            "HeaderResult::parse vs v2::Header::try_from / v1::Header::try_from",
            exp,
            format!("auto = {}; v2 = {}; v1 = {}", imp::short(&format!("{:?}", a)), imp::short(&format!("{:?}", r2)), imp::short(&format!("{:?}", r1))),
        ))
    };
    let interesting = r1.is_ok() || r2.is_ok() || r1.is_incomplete() || r2.is_incomplete();
    if interesting {
        st.nontrivial(x.digest());
    }
    let cls = if r2.is_ok() {
        "v2-ok"
    } else if r1.is_ok() {
        "v1-ok"
    } else if r2.is_incomplete() {
        "v2-incomplete"
    } else if r1.is_incomplete() {
        "v2-terminal,v1-incomplete"
    } else {
        "both-terminal"
    };
    st.class(cls);
    st.sample(cls, || esc(&x[..x.len().min(100)]));
    if r1.is_ok() && r2.is_ok() {
        return fail("both-accept", "never both parsers accept".into());
    }
    // the tagging conversions (what the auto-detecting parser wraps its results with, public as `From`): the dedicated
    // parser's result goes in unchanged, under the matching version, with the same completeness flags
    if let Ok((t2, t1, f2, f1)) = crate::engine::guard(|| {
        let t2 = HeaderResult::from(ppp::v2::Header::try_from(&x[..]));
        let t1 = HeaderResult::from(ppp::v1::Header::try_from(&x[..]));
        let f2 = (t2.is_incomplete(), t2.is_complete());
        let f1 = (t1.is_incomplete(), t1.is_complete());
        (t2, t1, f2, f1)
    }) {
        if t2 != HeaderResult::V2(imp::v2_parse(x).unwrap()) || f2 != (r2.is_incomplete(), r2.is_complete()) {
            return fail("tagging-conversion-v2", "HeaderResult::from(v2 result) == V2(that result), same completeness".into());
        }
        if t1 != HeaderResult::V1(imp::v1_bytes(x).unwrap()) || f1 != (r1.is_incomplete(), r1.is_complete()) {
            return fail("tagging-conversion-v1", "HeaderResult::from(v1 result) == V1(that result), same completeness".into());
        }
    }
    if r2.is_ok() {
        let want = HeaderResult::V2(imp::v2_parse(x).unwrap());
        if a != want {
            return fail("v2-result-not-returned", "auto == V2(the v2 parser's header)".into());
        }
        // "the same result" field by field, not only under the type's own `==`: every public field and view of the two
        // headers agrees (equality is the library's to define; the statement is about what the caller gets)
        if let (HeaderResult::V2(Ok(g)), HeaderResult::V2(Ok(w))) = (&a, &want) {
            let same = format!("{:?}", g) == format!("{:?}", w)
                && g.header.as_ref() == w.header.as_ref()
                && g.version == w.version
                && g.command == w.command
                && g.protocol == w.protocol
                && imp::addr2(&g.addresses) == imp::addr2(&w.addresses)
                && g.length() == w.length()
                && g.len() == w.len()
                && g.address_family() == w.address_family()
                && g.address_bytes() == w.address_bytes()
                && g.tlv_bytes() == w.tlv_bytes();
            if !same {
                return fail("v2-result-not-returned", "auto's header has the same fields and views as the v2 parser's header (compared one by one)".into());
            }
        }
        return Ok(());
    }
    if r1.is_ok() {
        if r2.is_incomplete() {
            // still a possible v2 header: the statement gives the v2 verdict precedence
            if !(a.is_incomplete() && matches!(a, HeaderResult::V2(_))) {
                return fail("v2-incomplete-overridden", "incomplete (the v2 parser's verdict) while the buffer can still be a v2 header".into());
            }
            return Ok(());
        }
        let want = HeaderResult::V1(imp::v1_bytes(x).unwrap());
        if a != want {
            return fail("v1-result-not-returned", "auto == V1(the v1 parser's header)".into());
        }
        if let (HeaderResult::V1(Ok(g)), HeaderResult::V1(Ok(w))) = (&a, &want) {
            if format!("{:?}", g) != format!("{:?}", w) || g.header != w.header || imp::addr1(&g.addresses) != imp::addr1(&w.addresses) || g.protocol() != w.protocol() || g.addresses_str() != w.addresses_str() {
                return fail("v1-result-not-returned", "auto's header has the same fields and views as the v1 parser's header (compared one by one)".into());
            }
        }
        return Ok(());
    }
    let auto_ok = matches!(a, HeaderResult::V1(Ok(_)) | HeaderResult::V2(Ok(_)));
    if auto_ok {
        return fail("auto-accepts-alone", "an error: neither dedicated parser accepts".into());
    }
    let want_incomplete = r2.is_incomplete() || (r2.is_complete() && r1.is_incomplete());
    if a.is_incomplete() != want_incomplete || a.is_complete() == a.is_incomplete() {
        return fail(
            if want_incomplete { "auto-terminal-but-should-wait" } else { "auto-waits-but-should-be-terminal" },
            format!("auto incomplete = {} (v2 incomplete, or v2 terminal and v1 incomplete)", want_incomplete),
        );
    }
    Ok(())
}

fn gen_case(t: &mut Tape) -> Vec<u8> {
    match t.weighted(&[8, 2, 2, 2]) {
        0 => gen::gen_any_bytes(t).0,
        1 => {
            // prefix of a header of either version
            let h = if t.coin() { gen::gen_valid_line(t, false) } else { gen::gen_v2_header(t).bytes };
            let k = t.below(h.len() as u32 + 1) as usize;
            h[..k].to_vec()
        }
        2 => {
            // signature prefix followed by text
            let k = t.below(13) as usize;
            let mut x = SIG[..k].to_vec();
            x.extend(gen::gen_valid_line(t, false));
            x
        }
        _ => {
            let k = t.below(13) as usize;
            let mut x = SIG[..k].to_vec();
            let n = t.usize_in(0, 8);
            x.extend(t.bytes(n));
            x
        }
    }
}

pub fn run(r: &mut Runner) -> &'static str {
    r.rule = "inputs: the union of all byte generators, prefixes of v1 / v2 headers, every prefix of the v2 signature followed by text or random bytes, text followed by a v2 header; exhaustively all inputs of <= 2 bytes, \
              all 3- and 4-byte inputs over {CR, LF, NUL, P, Q, SP, !, FF} and the 13 signature prefixes x the same alphabet. oracle (differential): a = auto(x), r2 = v2(x), r1 = v1(x): never both Ok; r2 Ok => a == V2(r2); \
              r1 Ok (and r2 terminal) => a == V1(r1); a Ok only if one of them is; a incomplete <=> r2 incomplete or (r2 terminal and r1 incomplete). non-trivial = r1 or r2 is Ok or incomplete; distinct by SipHash Added later: the signature followed by every 1-2 byte continuation, all short v1 token sequences alone and behind four heads, chains, reused read buffer."
        .into();
    let n = r.n(400_000, 10_000_000);
    r.random("c06.differential", n, 200, &gen_case, &|x: &Vec<u8>, st: &mut Stats| crate::engine::in_arena(x, |v| judge(v, st)));
    // the same check over chains of related inputs judged back to back on one thread (history independence)
    let n = r.n(40000, 1000000);
    r.random("c06.chains", n, 260, &|t| crate::gen::gen_chain(t, &gen_case), &|c: &crate::engine::Chain, st: &mut Stats| {
        // every member is parsed from this thread's reusable read buffer (same address, new contents)
        for x in &c.0 {
            crate::engine::in_arena(x, |v| judge(v, st))?;
        }
        Ok(())
    });
    let work = |shard: usize, nshards: usize, st: &mut Stats, _stop: &AtomicBool| -> Option<(Vec<u8>, Fail)> {
        let alpha = [0x0Du8, 0x0A, 0x00, b'P', b'Q', b' ', 0x21, 0xFF];
        let mut cases: Vec<Vec<u8>> = Vec::new();
        if shard == 0 {
            cases.push(vec![]);
            for a in 0..=255u8 {
                cases.push(vec![a]);
            }
        }
        for a in 0..=255u8 {
            if a as usize % nshards != shard {
                continue;
            }
            for b in 0..=255u8 {
                cases.push(vec![a, b]);
            }
        }
        if shard == 1 % nshards {
            for len in 3..=4usize {
                let total = 8usize.pow(len as u32);
                for idx in 0..total {
                    let mut v = Vec::new();
                    let mut q = idx;
                    for _ in 0..len {
                        v.push(alpha[q % 8]);
                        q /= 8;
                    }
                    cases.push(v);
                }
            }
            for k in 0..=12usize {
                for a in alpha {
                    for b in alpha {
                        let mut v = SIG[..k].to_vec();
                        v.push(a);
                        v.push(b);
                        cases.push(v);
                        let mut v = SIG[..k].to_vec();
                        v.push(a);
                        cases.push(v);
                    }
                }
                cases.push(SIG[..k].to_vec());
            }
        }
        for c in cases {
            if let Err(f) = judge(&c, st) {
                return Some((c, f));
            }
        }
        None
    };
    r.bulk("c06.small-inputs", Some("all inputs of <= 2 bytes; all 3/4-byte inputs over an 8-byte alphabet; 13 signature prefixes x 0-2 alphabet bytes"), &work, &judge);
    // the full signature followed by every 1- and 2-byte continuation, by 3 and 4 bytes with every control pair and a
    // few length bytes (buffers of 13..=16 bytes: still a possible v2 header while fewer than 16 bytes are there)
    let sig_work = |shard: usize, nshards: usize, st: &mut Stats, _stop: &AtomicBool| -> Option<(Vec<u8>, Fail)> {
        for a in 0..=255u8 {
            if a as usize % nshards != shard {
                continue;
            }
            let mut v = SIG.to_vec();
            v.push(a);
            if let Err(f) = judge(&v, st) {
                return Some((v, f));
            }
            for b in 0..=255u8 {
                let mut v = SIG.to_vec();
                v.extend_from_slice(&[a, b]);
                if let Err(f) = judge(&v, st) {
                    return Some((v, f));
                }
                for c in [0u8, 1, 0x0D, b'P', 0xFF] {
                    let mut v = SIG.to_vec();
                    v.extend_from_slice(&[a, b, c]);
                    if let Err(f) = judge(&v, st) {
                        return Some((v, f));
                    }
                    for d in [0u8, 1, 12, 0x0A, 0xFF] {
                        let mut v = SIG.to_vec();
                        v.extend_from_slice(&[a, b, c, d]);
                        if let Err(f) = judge(&v, st) {
                            return Some((v, f));
                        }
                    }
                }
            }
        }
        None
    };
    r.bulk("c06.signature-continuations", Some("the 12-byte signature followed by every 1-byte and 2-byte continuation, and by every control-byte pair with 5 third and 5 fourth bytes"), &sig_work, &judge);
    // all short token sequences of the v1 grammar (every way a text line can begin, break off or end), alone and behind a signature prefix
    const TOK: &[&[u8]] = &[b"PROXY", b" ", b"UNKNOWN", b"TCP4", b"TCP6", b"1.2.3.4", b"::1", b"80", b"\r", b"\n", b"x", b"\xc3\xa9", b"P", b"\0"];
    let k: u32 = if r.quick() { 4 } else { 5 };
    let tok_work = |shard: usize, nshards: usize, st: &mut Stats, stop: &AtomicBool| -> Option<(Vec<u8>, Fail)> {
        for head in [&b""[..], &SIG[..], &SIG[..5], b"PROXY TCP4 1.2.3.4 5.6.7.8 80 443", b"PROXY UNKNOWN"] {
            for len in 0..=k {
                let total = (TOK.len() as u64).pow(len);
                let mut idx = shard as u64;
                while idx < total {
                    if idx % 4096 < nshards as u64 && stop.load(std::sync::atomic::Ordering::Relaxed) {
                        return None;
                    }
                    let mut v = head.to_vec();
                    let mut q = idx;
                    for _ in 0..len {
                        v.extend_from_slice(TOK[(q % TOK.len() as u64) as usize]);
                        q /= TOK.len() as u64;
                    }
                    if let Err(f) = judge(&v, st) {
                        return Some((v, f));
                    }
                    idx += nshards as u64;
                }
            }
        }
        None
    };
    let tspace = format!("all sequences of <= {} tokens over a 14-token v1 alphabet, alone and behind 4 heads (full signature, 5-byte signature prefix, a complete TCP4 line without its ending, PROXY UNKNOWN)", k);
    r.bulk("c06.tokens", Some(&tspace), &tok_work, &judge);

    // signatures damaged in TWO places by the same amount (differences that cancel in a folded or word-wise comparison made
    // by the auto-detecting route on its own), in front of three otherwise valid headers
    let sig_work = |shard: usize, nshards: usize, st: &mut Stats, stop: &AtomicBool| -> Option<(Vec<u8>, Fail)> {
        let mut bases: Vec<Vec<u8>> = Vec::new();
        let mut b = SIG.to_vec();
        b.extend_from_slice(&[0x20, 0x00, 0, 0]);
        bases.push(b);
        let mut b = SIG.to_vec();
        b.extend_from_slice(&[0x21, 0x11, 0, 19, 192, 0, 2, 1, 198, 51, 100, 7, 0xc8, 0x22, 0x01, 0xbb, 0x04, 0, 4, 0, 0, 0, 0]);
        bases.push(b);
        let mut b = SIG.to_vec();
        b.extend_from_slice(&[0x21, 0x21, 0, 36]);
        b.extend(crate::engine::fill(0x6a, 36));
        b.extend_from_slice(b"GET / HTTP/1.1\r\n");
        bases.push(b);
        let mut idx = 0usize;
        for i in 0..12usize {
            for j in (i + 1)..12usize {
                idx += 1;
                if idx % nshards != shard {
                    continue;
                }
                if stop.load(std::sync::atomic::Ordering::Relaxed) {
                    return None;
                }
                for d in 1..=255u8 {
                    for base in &bases {
                        for mode in 0..3u8 {
                            let mut x = base.clone();
                            match mode {
                                0 => {
                                    x[i] ^= d;
                                    x[j] ^= d;
                                }
                                1 => {
                                    x[i] = x[i].wrapping_add(d);
                                    x[j] = x[j].wrapping_sub(d);
                                }
                                _ => {
                                    x[i] = x[i].wrapping_add(d);
                                    x[j] = x[j].wrapping_add(d);
                                }
                            }
                            if let Err(f) = judge(&x, st) {
                                return Some((x, f));
                            }
                        }
                    }
                }
            }
        }
        None
    };
    r.bulk("c06.signature-pairs", Some("all 66 pairs of signature positions x all 255 deltas x {xor/xor, add/sub, add/add} x 3 valid headers"), &sig_work, &judge);
    "exploration"
}
