#![no_main]
//! Coverage-guided target: decodes the fuzzer's bytes (fz_bytes) and runs the property selected by
//! VERIF_PROP through the same oracle as the harness. A disagreement is saved as a replay file and
//! reported by a panic ("VERIF property=... replay=..."); known findings are tolerated.
use libfuzzer_sys::fuzz_target;
use ppp_verif::engine::{load_known, Known};
use ppp_verif::fuzzapi;
use std::sync::OnceLock;

static CFG: OnceLock<(String, String, Vec<Known>)> = OnceLock::new();

fn cfg() -> &'static (String, String, Vec<Known>) {
    CFG.get_or_init(|| {
        // panics inside the code under test are caught and judged by the harness: keep them quiet
        let default = std::panic::take_hook();
        std::panic::set_hook(Box::new(move |info| {
            let s = info.to_string();
            if s.contains("VERIF property=") {
                default(info);
            }
        }));
        let prop = std::env::var("VERIF_PROP").unwrap_or_else(|_| "C03".to_string());
        let dir = std::env::var("VERIF_DIR").unwrap_or_else(|_| "/verif".to_string());
        let known = load_known(&dir);
        (prop, dir, known)
    })
}

fuzz_target!(|data: &[u8]| {
    let (prop, dir, known) = cfg();
    if let Some(f) = fuzzapi::judge_bytes(prop, data) {
        if known.iter().any(|k| k.property == *prop && k.sig == f.fail.sig) {
            return;
        }
        let path = fuzzapi::save(prop, &f, dir);
        panic!("VERIF property={} replay={} check={} sig={}", prop, path, f.check, f.fail.sig);
    }
});
