use crate::engine::Runner;

pub mod c01;
pub mod c02;
pub mod c03;
pub mod c04;
pub mod c05;
pub mod c06;
pub mod c07;
pub mod c08;
pub mod c09;
pub mod c10;
pub mod c11;
pub mod c12;
pub mod c13;
pub mod c14;
pub mod c15;
pub mod c16;
pub mod c17;
pub mod c18;
pub mod c19;
pub mod c20;

pub const ALL: &[&str] = &[
    "C01", "C02", "C03", "C04", "C05", "C06", "C07", "C08", "C09", "C10", "C11", "C12", "C13", "C14", "C15", "C16", "C17", "C18", "C19", "C20",
];

/// Run (or, in replay mode, re-judge one case of) the named property. Returns the evidence level.
pub fn run(id: &str, r: &mut Runner) -> Option<&'static str> {
    Some(match id {
        "C01" => c01::run(r),
        "C02" => c02::run(r),
        "C03" => c03::run(r),
        "C04" => c04::run(r),
        "C05" => c05::run(r),
        "C06" => c06::run(r),
        "C07" => c07::run(r),
        "C08" => c08::run(r),
        "C09" => c09::run(r),
        "C10" => c10::run(r),
        "C11" => c11::run(r),
        "C12" => c12::run(r),
        "C13" => c13::run(r),
        "C14" => c14::run(r),
        "C15" => c15::run(r),
        "C16" => c16::run(r),
        "C17" => c17::run(r),
        "C18" => c18::run(r),
        "C19" => c19::run(r),
        "C20" => c20::run(r),
        _ => return None,
    })
}

/// The byte-level check that judges a raw (non-JSON) replay file, per property.
pub fn raw_check(id: &str) -> Option<&'static str> {
    match id {
        "C01" => Some("c01.grammar"),
        "C02" => Some("c02.random"),
        "C03" => Some("c03.surface"),
        "C04" => Some("c04.trailers"),
        "C05" => Some("c05.prefixes"),
        "C06" => Some("c06.differential"),
        "C11" => Some("c11.slices"),
        "C13" => Some("c13.random"),
        "C14" => Some("c14.random"),
        "C15" => Some("c15.views"),
        "C16" => Some("c16.agree"),
        "C17" => Some("c17.random"),
        "C18" => Some("c18.closed"),
        _ => None,
    }
}
