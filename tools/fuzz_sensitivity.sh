#!/bin/sh
# tools/fuzz_sensitivity.sh <seeded dir> [runs-per-worker] : does the coverage-guided stage ALONE (libFuzzer target with
# the in-target oracle, no proptest / enumeration stages) find the seeded change through its own property's campaign?
# Works on a scratch copy of /verif and of /repo HEAD + patch under /tmp; removes it afterwards.
# Prints "FUZZ <id> own=<ID> target-runs=<n> verdict=CAUGHT|missed|inconclusive wall=<s>".
set -u
D=$(readlink -f "$1"); NAME=$(basename "$D"); ID=$(echo "$NAME" | cut -c1-3)
RUNS="${2:-}"
W=$(mktemp -d /tmp/fz.XXXXXX)
trap 'rm -rf "$W"' EXIT
export CARGO_NET_OFFLINE=true
mkdir -p "$W/mut" "$W/verif"
git -C /repo archive HEAD | tar -x -C "$W/mut"
(cd "$W/mut" && git init -q . && git apply --whitespace=nowarn "$D/patch.diff") || { echo "FUZZ $NAME apply=FAILED"; exit 2; }
rsync -a --exclude .git --exclude seeded --exclude evidence --exclude replays --exclude 'fuzz/work' --exclude 'fuzz/corpus' --exclude 'fuzz/artifacts' /verif/ "$W/verif/"
mkdir -p "$W/verif/evidence"
sed -i "s#path = \"/repo\"#path = \"$W/mut\"#" "$W/verif/harness/Cargo.toml"
[ -n "$RUNS" ] && export VERIF_FUZZ_RUNS="$RUNS"
T0=$(date +%s)
out=$("$W/verif/fuzz/run_fuzz.sh" "$ID" 2>&1); rc=$?
T1=$(date +%s)
case $rc in 0) v=missed ;; 1) v=CAUGHT ;; *) v="inconclusive(rc=$rc)" ;; esac
echo "FUZZ $NAME own=$ID runs-per-worker=${RUNS:-default} verdict=$v wall=$((T1-T0))s $(echo "$out" | grep -m1 -o 'sig=[^ ]*') | $(echo "$out" | grep -m1 'fuzz fz' | sed 's/^ *//')"
